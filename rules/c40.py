"""C40 — memory safety: three structural clauses.

R40.1 down-cast guards: in __eq__ overrides, Number arithmetic members and
      MatrixBase binary operations, a down_cast/static_cast of a parameter of
      generic static type is dominated by a positive dynamic-type test of the
      same parameter for the target type (or a subtype).
R40.2 dictionary stealing: const_cast only under use_count() == 1, and the
      stolen reference is only moved out in a return.
R40.3 ownership: objects deriving from EnableRCPFromThis are only created
      by `new` inside make_rcp / rcp(), never deleted by hand.
"""
from selib import sym
from selib.program import walk, show, short, strip_type
from selib.build import AnalysisBroken

GENERIC = {"SymEngine::Basic", "SymEngine::Number", "SymEngine::Set",
           "SymEngine::Boolean", "SymEngine::MatrixBase",
           "SymEngine::MatrixExpr"}
ARITH = {"add", "sub", "rsub", "mul", "div", "rdiv", "pow", "rpow"}
# positive family tests and the class they establish
FAMILY_TESTS = {"is_a_Number": "SymEngine::Number",
                "is_a_Complex": "SymEngine::ComplexBase",
                "is_a_Boolean": "SymEngine::Boolean",
                "is_a_Set": "SymEngine::Set",
                "is_a_Relational": "SymEngine::Relational",
                "is_a_MatrixExpr": "SymEngine::MatrixExpr"}


def scope_of(prog, f):
    cls = f.get("cls")
    if not cls:
        return None
    n = f["n"]
    if n == "__eq__" and prog.derives(cls, "SymEngine::Basic"):
        return "eq"
    if n == "compare" and prog.derives(cls, "SymEngine::Basic"):
        return "compare"
    if n in ARITH and prog.derives(cls, "SymEngine::Number"):
        return "arith"
    if prog.derives(cls, "SymEngine::Number") and n not in (
            "__eq__", "compare"):
        # every other member of a number class that receives a generic
        # Number/Basic (validating factories such as Complex::from_two_nums,
        # which the deserialiser relies on, pow/rpow helpers, ...)
        return "number"
    if prog.derives(cls, "SymEngine::MatrixBase") and any(
            strip_type(p["t"]) == "SymEngine::MatrixBase"
            for p in f.get("params", ())):
        return "matrix"
    return None


def base_param(e):
    while e is not None and e.get("k") in ("un", "op") \
            and e.get("op") == "*" and len(e.get("a", ())) == 1:
        e = e["a"][0]
    if e is not None and e.get("k") == "ref" and e.get("d") == "param":
        return e
    return None


def cast_guards(prog, R, rid, f, sc, counts):
    """unchecked down-casts of generic parameters of f must be dominated by
    a positive dynamic type test of the same parameter"""
    ptypes = {p["n"]: strip_type(p["t"]) for p in f.get("params", ())
              if strip_type(p["t"]) in GENERIC}
    if not ptypes:
        return

    def cb(n, guards, line, f=f, sc=sc, ptypes=ptypes):
        T = None
        src = None
        if n.get("k") == "call" and n.get("n") == "down_cast" \
                and n.get("ta"):
            T = strip_type(n["ta"][0])
            src = n["a"][0]
        elif n.get("k") == "cast" and n.get("ck") in ("static", "c",
                                                      "reinterpret") \
                and strip_type(n.get("t", "")).startswith("SymEngine::"):
            T = strip_type(n["t"])
            src = n["a"][0]
        if T is None:
            return
        p = base_param(src)
        if p is None or p["n"] not in ptypes:
            return
        st = ptypes[p["n"]]
        if T == st or prog.derives(st, T):
            return                      # up-cast / no-op
        counts[sc] = counts.get(sc, 0) + 1
        key = "%s@%s" % (short(f["qn"]), n.get("l"))
        R.instance(rid, key, nontrivial=(sc != "compare"),
                   sample={"scope": sc, "cast": show(n)[:80]})
        if sc == "compare":
            return
        facts = sym.flatten_guards(guards)
        ok = False
        tests = []
        for g in facts:
            if g[0] == "case":
                continue
            c, pol = g
            if c.get("k") != "call" or not pol:
                continue
            on_p = any(x.get("k") == "ref" and x.get("n") == p["n"]
                       for x in walk(c))
            nm = c.get("n")
            if nm in ("is_a", "is_a_sub") and c.get("ta") and on_p:
                G = strip_type(c["ta"][0])
                tests.append(short(G))
                if G == T or prog.derives(G, T):
                    ok = True
            elif nm == "is_same_type" and on_p:
                tests.append("is_same_type")
                ok = True
            elif nm in FAMILY_TESTS and on_p:
                G = FAMILY_TESTS[nm]
                tests.append(nm)
                if G == T or prog.derives(G, T):
                    ok = True
        if not ok:
            R.violation(
                rid, short(f["qn"]), prog.loc(f, n.get("l")),
                "%s casts parameter `%s` (static type %s) to %s without "
                "a dominating test that it is one (tests on this path: "
                "%s); down_cast is an unchecked static_cast in release "
                "builds" % (short(f["qn"]), p["n"], short(st), short(T),
                            tests or "none"))
    sym.visit_guarded(f["body"], cb)


def run(loader, R, tier):
    prog = loader()
    R.explanation = (
        "Three who-may/guard rules over all library TUs: type-test "
        "dominance for down_cast of generic parameters in __eq__, Number "
        "arithmetic and MatrixBase binary operations (down_cast is a "
        "static_cast in release builds; SYMENGINE_ASSERT does not count); "
        "const_cast only under use_count()==1 with the stolen reference "
        "moved out in a return; no `new`/`delete` of reference-counted "
        "objects outside make_rcp/RCP. The property as a whole (no "
        "out-of-bounds, use-after-free, leaks on every API workload) needs "
        "sanitizer runs and is NOT decided; index arithmetic, iterator "
        "validity and Ptr lifetimes are outside these clauses.")
    R.rule("R40.1", "down_cast of generic parameter dominated by a dynamic "
                    "type test")
    R.rule("R40.2", "const_cast only to steal under use_count()==1")
    R.rule("R40.3", "new/delete of RCP-managed objects only inside "
                    "make_rcp/RCP")
    R.trusted += ["is_a<T>/is_same_type/is_a_Number tests establish the "
                  "dynamic type"]
    R.assumptions += ["compare() overrides rely on the precondition checked "
                      "by C02 R2.4 and are counted but exempt here"]

    counts = {"eq": 0, "arith": 0, "matrix": 0, "compare": 0, "number": 0}
    for u, f in prog.functions.items():
        if f.get("dependent") or f.get("tk") == "pattern" \
                or not f.get("body"):
            continue
        sc = scope_of(prog, f)
        if sc is None:
            continue
        cast_guards(prog, R, "R40.1", f, sc, counts)
    R.info["casts_in_scope"] = counts
    R.floor("casts in __eq__", counts["eq"], 55)
    R.floor("casts in Number arithmetic", counts["arith"], 60)
    R.floor("casts in MatrixBase binary operations", counts["matrix"], 8)

    # ---------------------------------------------------------------- R40.2
    nsteal = 0
    for u, f in prog.functions.items():
        if f.get("dependent") or f.get("tk") == "pattern" \
                or not f.get("body"):
            continue
        if f["file"].endswith(("symengine_rcp.h", ".tab.cc", ".tab.hh",
                               "tokenizer.cpp")) or "/parser/" in f["file"]:
            continue

        def cb2(n, guards, line, f=f):
            nonlocal nsteal
            if n.get("k") != "cast" or n.get("ck") != "const":
                return
            nsteal += 1
            key = "%s@%s" % (short(f["qn"]), n.get("l"))
            R.instance("R40.2", key, sample={"cast": show(n)[:80]})
            facts = sym.flatten_guards(guards)
            ok = False
            for g in facts:
                if g[0] == "case":
                    continue
                c, pol = g
                if c.get("k") == "bin" and c.get("op") == "==" and pol \
                        and "use_count" in show(c) and any(
                            x.get("k") == "lit" and str(x.get("v")) == "1"
                            for x in c["a"]):
                    ok = True
            if not ok:
                R.violation(
                    "R40.2", short(f["qn"]), prog.loc(f, n.get("l")),
                    "%s removes const from state owned by an expression "
                    "(%s) without being control-dependent on "
                    "use_count() == 1: another owner may observe the "
                    "mutation" % (short(f["qn"]), show(n)[:60]))
        sym.visit_guarded(f["body"], cb2)
        # stolen references are only moved out in a return
        for n in walk(f["body"]):
            if n.get("k") == "decl":
                for v in n.get("v", ()):
                    i = v.get("i")
                    if i and i.get("k") == "cast" and i.get("ck") == "const":
                        nm = v["n"]
                        uses = 0
                        good = 0
                        for r in walk(f["body"]):
                            if r.get("k") == "return" and r.get("e"):
                                for m in walk(r["e"]):
                                    if m.get("k") == "call" and m.get("n") \
                                            == "move" and m["a"][0].get(
                                            "n") == nm:
                                        good += 1
                        for m in walk(f["body"]):
                            if m.get("k") == "ref" and m.get("n") == nm:
                                uses += 1
                        if uses != good:
                            R.violation(
                                "R40.2", short(f["qn"]) + ":" + nm,
                                prog.loc(f, n.get("l")),
                                "stolen reference `%s` is used other than "
                                "being moved out in a return" % nm)
    R.floor("const_cast steal sites", nsteal, 2)

    # ---------------------------------------------------------------- R40.3
    managed = lambda t: prog.derives(strip_type(t), "SymEngine::Basic") or \
        prog.derives(strip_type(t), "SymEngine::EnableRCPFromThis<SymEngine::Basic>")
    anchor = 0
    for u, f in prog.functions.items():
        if not f.get("body"):
            continue
        in_rcp = f["file"].endswith("symengine_rcp.h")
        for n in walk(f["body"]):
            if n.get("k") in ("new", "delete"):
                t = strip_type(n.get("t", ""))
                if in_rcp:
                    anchor += 1
                    continue
                if f.get("dependent") or f.get("tk") == "pattern":
                    continue
                if t.startswith("SymEngine::") and t in prog.classes \
                        and managed(t):
                    R.instance("R40.3", "%s@%s" % (short(f["qn"]),
                                                   n.get("l")))
                    R.violation(
                        "R40.3", short(f["qn"]), prog.loc(f, n.get("l")),
                        "%s uses `%s %s` directly: reference-counted "
                        "objects must be created by make_rcp and are freed "
                        "by their last RCP" % (short(f["qn"]), n["k"],
                                               short(t)))
    R.instance("R40.3", "make_rcp/RCP new+delete sites", sample={
        "new/delete expressions inside symengine_rcp.h": anchor})
    R.floor("new/delete inside symengine_rcp.h (positive anchor)", anchor, 2)

    # ---------------------------------------------------------------- R40.4
    # use after erase: a reference (or raw pointer) local bound to an element
    # reached through an iterator does not own it; once `c.erase(it)` has run
    # the container may have dropped the last owner, so the local must not be
    # used afterwards.  (An owning copy — an RCP local — is the safe idiom.)
    R.rule("R40.4", "a non-owning reference obtained through an iterator is "
                    "not used after that iterator was erased")
    nref = 0
    ncontrol = 0
    for u, f in prog.functions.items():
        control = f["qn"].startswith("verif_positive::")
        if f.get("dependent") or f.get("tk") == "pattern" \
                or not f.get("body") or "/utilities/" in f["file"] \
                or not (control or "/symengine/" in f["file"]):
            continue
        def _it(a):
            while a is not None and a.get("k") in ("ctor", "cast") \
                    and len([x for x in a.get("a", ())
                             if x.get("k") != "defarg"]) == 1:
                a = [x for x in a["a"] if x.get("k") != "defarg"][0]
            if a is not None and a.get("k") == "ref" \
                    and a.get("d") == "local":
                return a["n"]
            return None
        order = list(walk(f["body"]))
        pos = {id(n): i for i, n in enumerate(order)}
        erases = [(pos[id(n)], _it(n["a"][0]), n.get("l")) for n in order
                  if n.get("k") == "mcall" and n.get("n") == "erase"
                  and len(n.get("a", ())) == 1 and _it(n["a"][0])]
        if not erases:
            continue
        for d in order:
            if d.get("k") != "decl":
                continue
            for v in d.get("v", ()):
                t = (v.get("t") or "").strip()
                if not (t.endswith("&") or t.endswith("*")) \
                        or v.get("i") is None:
                    continue
                its = {x["n"] for x in walk(v["i"]) if x.get("k") == "ref"
                       and x.get("d") == "local"}
                for epos, itname, eline in erases:
                    if itname not in its or epos <= pos[id(d)]:
                        continue
                    nref += 1
                    later = [eline for x in order
                             if x.get("k") == "ref" and x.get("n") == v["n"]
                             and x.get("d") == "local"
                             and pos[id(x)] > epos]
                    key = "%s:%s" % (short(f["qn"]), v["n"])
                    R.instance("R40.4", key, sample={
                        "reference": v["n"], "bound_through": itname,
                        "erase_line": eline, "uses_after": later[:3]})
                    if later and control:
                        ncontrol += 1
                        continue
                    if later:
                        R.violation(
                            "R40.4", key, prog.loc(f, later[0]),
                            "%s binds the non-owning `%s %s` through the "
                            "iterator `%s`, erases that iterator at line %s "
                            "and uses `%s` again at line %s: if the "
                            "container held the last reference the object "
                            "is already freed" % (
                                short(f["qn"]), short(t), v["n"], itname,
                                eline, v["n"], later[0]))
    R.floor("R40.4 positive control (fixtures/tu/positive_controls.cpp)",
            ncontrol, 1)
    R.instance("R40.4", "functions with erase(iterator) scanned",
               nontrivial=False, sample={"references_through_erased_"
                                         "iterators": nref})

    # ---------------------------------------------------------------- R40.5
    # acquire before release in RCP copy assignment: the new pointee's count
    # is incremented before the old pointee is released, otherwise assigning
    # a handle from something the old pointee (solely) owns frees the source
    # first (e = e->get_args()[0]).
    R.rule("R40.5", "RCP copy assignment increments the new reference count "
                    "before it releases the old object")
    nassign = 0
    for u, f in prog.functions.items():
        if not f["file"].endswith("symengine_rcp.h") or not f.get("body") \
                or f.get("n") != "operator=" or f.get("dependent") \
                or not (f.get("cls") or "").startswith("SymEngine::RCP<"):
            continue
        ps = f.get("params", ())
        if len(ps) != 1 or ps[0]["t"].rstrip().endswith("&&"):
            continue                    # move assignment transfers ownership
        if nassign and f.get("tk") == "inst" and nassign > 40:
            continue
        acquire = release = None
        for line, n in enumerate(walk(f["body"]), 1):
            txt = show(n)
            if n.get("k") in ("un", "op") and n.get("op") == "++" \
                    and "refcount_" in txt and acquire is None:
                acquire = line
            is_rel = (n.get("k") in ("un", "op") and n.get("op") == "--"
                      and "refcount_" in txt) or n.get("k") == "delete" \
                or (n.get("k") == "mcall" and n.get("n") == "reset")
            if is_rel and release is None:
                release = line
        nassign += 1
        if nassign <= 3:
            R.instance("R40.5", "%s@%s" % (short(f["cls"])[:40], f["line"]),
                       sample={"acquire_line": acquire,
                               "first_release_line": release})
        if release is not None and (acquire is None or acquire > release):
            R.violation(
                "R40.5", "RCP::operator=", prog.loc(f),
                "RCP copy assignment releases the old object (step %s) "
                "before it has incremented the count of the new one%s: "
                "assigning from a handle that only the old object keeps "
                "alive reads freed memory" % (
                    release, " (step %s)" % acquire if acquire else ""))
            break
    R.floor("RCP copy-assignment instantiations", nassign, 3)

    # ------------------------------------------------------------ R40.6
    # a DenseMatrix member that takes another DenseMatrix by const reference
    # and resizes *this: when the argument IS *this (A.row_insert(A, p)) the
    # resize changes the argument too, so every read of the argument's
    # members after the resize needs an alias test somewhere before it
    # (`&B == this`), or must have been taken into a local before.
    R.rule("R40.6", "a DenseMatrix member does not read its DenseMatrix "
                    "argument after resizing *this, unless it has excluded "
                    "that they are the same object")
    n6 = 0
    for u, f in sorted(prog.functions.items(), key=lambda kv: kv[1]["qn"]):
        if f.get("cls") != "SymEngine::DenseMatrix" or not f.get("body"):
            continue
        ps = [p_["n"] for p_ in f.get("params", ())
              if strip_type(p_.get("t") or "") == "SymEngine::DenseMatrix"
              and (p_.get("t") or "").startswith("const")]
        rs = [n.get("l") for n in walk(f["body"])
              if n.get("k") == "mcall" and n.get("n") == "resize"
              and (n.get("o") or {}).get("k") == "this"]
        if not ps or not rs:
            continue
        n6 += 1
        key = short(f["qn"])
        alias_test = any(
            n.get("k") == "bin" and n.get("op") in ("==", "!=")
            and any(x.get("k") == "this" for x in walk(n))
            and any(x.get("k") == "ref" and x.get("n") in ps
                    for x in walk(n))
            for n in walk(f["body"]))
        late = []

        def cb6(n, guards, line, late=late, ps=ps, rs=rs):
            if n.get("k") == "mem" and (n.get("o") or {}).get("k") == "ref" \
                    and (n.get("o") or {}).get("n") in ps \
                    and (line or 0) > min(rs):
                late.append((line, show(n)))
        sym.visit_guarded(f["body"], cb6)
        R.instance("R40.6", key, sample={
            "resize_line": min(rs), "alias_test": alias_test,
            "reads_after_resize": len(late)})
        if late and not alias_test:
            R.violation(
                "R40.6", key, prog.loc(f, late[0][0]),
                "%s resizes *this (line %s) and afterwards reads `%s` of "
                "its const DenseMatrix& argument with no test that the "
                "argument is not *this: called as A.%s(A, ...) the argument "
                "was resized too, and the copy loops index past the end of "
                "the storage" % (key, min(rs), late[0][1][:30], f["n"]))
    R.floor("DenseMatrix members that resize *this and take a matrix", n6, 2)


MANIFEST = dict(
    technique="guard-dominance (typestate) rule for unchecked down-casts, "
              "who-may-const_cast and who-may-new rules over all TUs",
    text="Decides three structural necessary conditions of memory safety "
         "for every call sequence: (1) in __eq__, Number arithmetic and "
         "MatrixBase binary operations each unchecked down-cast of a "
         "generic parameter is dominated by a dynamic-type test of the same "
         "parameter; (2) const is only cast away to steal a dictionary under "
         "use_count()==1 and the reference is only moved out; (3) RCP-"
         "managed objects are created and destroyed only through make_rcp/"
         "RCP; (4) R40.4/R40.5/R40.6: no reference through an invalidated "
         "iterator, increment-before-release in RCP assignment, and no "
         "read of a matrix argument after *this was resized without an "
         "alias test. Out-of-bounds indexing in general, Ptr lifetimes, "
         "uninitialised reads and leaks in general need sanitizer runs and "
         "are not decided by this technique.",
    note="Trusted: the dynamic type predicates; compare() precondition is "
         "discharged by C02 R2.4.",
    ref="§2 C40",
)
