#include <symengine/polys/uratpoly.h>
#include <symengine/serialize-cereal.h>
#include <iostream>
using namespace SymEngine;
int main(){
  RCP<const Symbol> x=symbol("x");
  RCP<const URatPoly> a = URatPoly::from_dict(x, {{0, rational_class(1,2)}, {2, rational_class(-3,4)}});
  std::string s = a->dumps();
  try { auto b = Basic::loads(s); std::cout << a->__str__() << " -> " << b->__str__() << " eq=" << eq(*a,*b) << "\n"; }
  catch (std::exception &e) { std::cout << "loads threw: " << e.what() << "\n"; }
}
