#include <symengine/cwrapper.h>
#include <symengine/functions.h>
#include <symengine/logic.h>
#include <cstdio>
using namespace SymEngine;
int main(){
    basic x, e; basic_new_stack(x); basic_new_stack(e); symbol_set(x, "x");
    RCP<const Basic> sx = symbol("x");
    RCP<const Basic> pw = piecewise({{integer(1), Lt(sx, integer(0))}});
    std::string d = pw->dumps();
    int rc = basic_loads(e, d.data(), d.size());
    char *c = basic_str(e); printf("loads rc=%d e=%s\n", rc, c);
    CVecBasic *a = vecbasic_new(), *o = vecbasic_new();
    vecbasic_push_back(a, x); vecbasic_push_back(o, e);
    CLambdaRealDoubleVisitor *v = lambda_real_double_visitor_new();
    lambda_real_double_visitor_init(v, a, o, 0);
    double in = 2.0, out = 0;
    try { lambda_real_double_visitor_call(v, &out, &in); printf("out=%g\n", out);} 
    catch (std::exception &ex) { printf("ESCAPED from lambda_real_double_visitor_call: %s\n", ex.what()); }
}
