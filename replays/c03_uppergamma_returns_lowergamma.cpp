#include <symengine/basic.h>
#include <symengine/functions.h>
#include <symengine/symbol.h>
#include <iostream>
using namespace SymEngine;
int main(){
    RCP<const Basic> x = symbol("x");
    auto e = uppergamma(integer(0), x);
    std::cout << "uppergamma(0, x) = " << e->__str__() << "   is UpperGamma: " << is_a<UpperGamma>(*e) << "  is LowerGamma: " << is_a<LowerGamma>(*e) << "\n";
    auto f = uppergamma(integer(-2), x);
    std::cout << "uppergamma(-2, x) = " << f->__str__() << "\n";
    return is_a<UpperGamma>(*e) ? 0 : 1;
}
