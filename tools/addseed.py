#!/usr/bin/env python3
"""usage: tools/addseed.py NAME PROP SRC_DIR SUFFIX VERIFY_DIR "expect line" ["note"]
Copies a confirmed seeded change into /verif/seeded/NAME/:
  patch.diff  (header: # expect: ...; applies with git apply / patch -p1)
  demo.cpp    (fails with the change, passes without)
  meta.json   (property, what it needs to manifest, what was run to confirm)
SRC_DIR holds patch{SUFFIX}.diff, demo{SUFFIX}.cpp, meta{SUFFIX}.json from
the sub-agent; VERIFY_DIR holds verify.txt written by tools/verify_seed.sh."""
import json, os, sys, shutil
name, prop, src, suf, vdir, expect = sys.argv[1:7]
note = sys.argv[7] if len(sys.argv) > 7 else ""
HERE = os.path.dirname(os.path.dirname(os.path.abspath(__file__)))
d = os.path.join(HERE, "seeded", name)
os.makedirs(d, exist_ok=True)
patch = open(os.path.join(src, "patch%s.diff" % suf)).read()
with open(os.path.join(d, "patch.diff"), "w") as f:
    f.write("# expect: %s\n" % expect)
    f.write(patch)
shutil.copy(os.path.join(src, "demo%s.cpp" % suf), os.path.join(d, "demo.cpp"))
am = {}
try:
    am = json.load(open(os.path.join(src, "meta%s.json" % suf)))
except Exception as e:
    am = {"note": "agent meta unreadable: %s" % e}
ver = open(os.path.join(vdir, "verify.txt")).read()
def grab(key):
    for line in ver.splitlines():
        if key in line:
            return line.strip()
    return None
meta = {
    "property": prop,
    "breaks": am.get("summary"),
    "needs_to_manifest": am.get("needs_to_manifest"),
    "files_touched": am.get("files_touched"),
    "author": "independent sub-agent given only the property text and its own scratch worktree",
    "confirmed_by_me": {
        "how": "tools/verify_seed.sh in scratch worktree /tmp/vfy (Release -O1 -DNDEBUG, GMP): apply, full build, ctest, demo; revert, rebuild library, demo",
        "build": grab("build_exit="),
        "test_suite_with_change": grab("tests passed") or grab("tests failed"),
        "demo_with_change": grab("demo_with_change_exit="),
        "demo_without_change": grab("demo_without_change_exit="),
    },
    "expected_detection": expect,
    "note": note,
}
json.dump(meta, open(os.path.join(d, "meta.json"), "w"), indent=1)
print("seeded/%s: %s" % (name, expect))
