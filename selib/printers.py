"""Shared printer rules (C16, C44): deterministic iteration, name tables."""
from .program import walk, show, short, strip_type, children
from .tables import enum_index_assignments

UNORDERED = ("std::unordered_map<", "std::unordered_set<",
             "std::unordered_multimap<", "std::unordered_multiset<")
ORDERED_CTOR = ("std::map<", "std::set<", "std::multimap<", "std::multiset<")


def walk_parent(n, parent=None):
    if not isinstance(n, dict):
        return
    yield n, parent
    for c in children(n):
        yield from walk_parent(c, n)


def printer_classes(prog, base):
    """base and every non-template-pattern subclass"""
    out = [base] + sorted(prog.descendants(base))
    return [c for c in out if c in prog.classes
            and prog.classes[c].get("tk") != "pattern"]


def methods_of(prog, classes):
    cs = set(classes)
    for u, f in prog.functions.items():
        if f.get("cls") in cs and f.get("body") and not f.get("dependent"):
            yield f


def unordered_iteration_sites(prog, fn):
    """[(line, description, ok)] — places where fn walks an unordered
    container; ok=True when the walk only feeds an ordered container or a
    vector that is sorted afterwards"""
    out = []
    sorts = [n for n in walk(fn["body"]) if n.get("k") == "call"
             and n.get("n") in ("sort", "stable_sort")]
    for n, parent in walk_parent(fn["body"]):
        if n.get("k") == "forr" and strip_type(n.get("rt", "")).startswith(
                UNORDERED):
            out.append((n.get("l"), "range-for over " + short(
                strip_type(n["rt"]))[:50], False))
        if n.get("k") == "mcall" and n.get("n") in ("begin", "cbegin"):
            cls = prog.header(n.get("u", "")).get("cls", "")
            if not cls.startswith(UNORDERED):
                continue
            ok = False
            if parent is not None and parent.get("k") == "ctor":
                t = strip_type(parent.get("t", ""))
                if t.startswith(ORDERED_CTOR):
                    ok = True
                elif t.startswith("std::vector<") and sorts:
                    ok = True
            if parent is not None and parent.get("k") == "call" \
                    and parent.get("n") in ("sorted_keys",):
                ok = True
            out.append((n.get("l"), "iterator walk of " + short(cls)[:50],
                        ok))
    return out


def printer_names(prog, fn_qn):
    """{ENUM: literal} from names[SYMENGINE_X] = "lit" in fn_qn"""
    f = prog.one_fn(fn_qn)
    out = {}
    for arr, enum, val, line in enum_index_assignments(f):
        v = val
        while v.get("k") in ("ctor", "cast") and v.get("a"):
            v = v["a"][0]
        if v.get("k") == "lit" and v.get("t") == "str":
            out[enum] = (v["v"], line)
    return f, out


def enum_to_class(prog):
    """SYMENGINE_X -> class qn (concrete classes declaring type_code_id)"""
    out = {}
    for qn, c in prog.classes.items():
        if c.get("tk") == "pattern" or c.get("dependent"):
            continue
        for s in c.get("statics", ()):
            if s["n"] == "type_code_id" and s.get("i"):
                i = s["i"]
                if i.get("k") == "ref" and i.get("d") == "enum":
                    out.setdefault(i["n"], qn)
    return out


def constructs(prog, usr, depth=2, _seen=None):
    """classes K for which function usr (or a repo callee up to `depth`)
    evaluates make_rcp<const K>(...)"""
    _seen = _seen if _seen is not None else set()
    if usr in _seen:
        return set()
    _seen.add(usr)
    f = prog.functions.get(usr)
    out = set()
    if not f or not f.get("body"):
        return out
    for n in walk(f["body"]):
        if n.get("k") == "call" and n.get("n") == "make_rcp" and n.get("ta"):
            out.add(strip_type(n["ta"][0]))
        elif depth > 0 and n.get("k") == "call" and n.get("u") \
                and n["u"] in prog.functions \
                and prog.functions[n["u"]]["qn"].startswith("SymEngine::"):
            out |= constructs(prog, n["u"], depth - 1, _seen)
    return out
