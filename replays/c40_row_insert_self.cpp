#include <symengine/matrix.h>
#include <symengine/integer.h>
#include <iostream>
using namespace SymEngine;
int main(){
    DenseMatrix A(2,2,{integer(1),integer(2),integer(3),integer(4)});
    A.row_insert(A, 1);
    std::cout << A.__str__() << std::endl;
    DenseMatrix B(2,2,{integer(1),integer(2),integer(3),integer(4)});
    B.col_insert(B, 1);
    std::cout << B.__str__() << std::endl;
    return 0;
}
