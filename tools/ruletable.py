#!/usr/bin/env python3
"""Regenerates the rule table of DESIGN.md §9 (between the RULETABLE markers)
from evidence/*.json, i.e. from what the checks actually evaluated."""
import glob, json, os, re
HERE = os.path.dirname(os.path.dirname(os.path.abspath(__file__)))
out = []
for p in sorted(glob.glob(os.path.join(HERE, "evidence", "C*.json"))):
    e = json.load(open(p))
    c = e["coverage"]
    out.append("**%s** — %d rule instances (%d non-trivial), %d undecided, "
               "%d known findings" % (
                   e["property_id"], c.get("evaluations", 0),
                   c.get("distinct_nontrivial", 0),
                   c.get("undecided_obligations", 0) or 0,
                   len(c.get("known_findings") or ())))
    per = c.get("instances_per_rule") or {}

    def rk(r):
        m = re.match(r"R(\d+)\.(\d+)(\w*)", r)
        return (int(m.group(1)), int(m.group(2)), m.group(3)) if m else (0, 0, r)
    for r in sorted(c.get("rules") or {}, key=rk):
        out.append("  * %s %s (%s)" % (r, c["rules"][r], per.get(r, 0)))
d = os.path.join(HERE, "DESIGN.md")
s = open(d).read()
b, e_ = "<!-- RULETABLE:BEGIN -->", "<!-- RULETABLE:END -->"
i, j = s.index(b) + len(b), s.index(e_)
s = s[:i] + "\n" + "\n".join(out) + "\n" + s[j:]
open(d, "w").write(s)
print("rule table: %d lines" % len(out))
