#include <symengine/basic.h>
#include <symengine/mul.h>
#include <symengine/pow.h>
#include <symengine/symbol.h>
#include <symengine/logic.h>
#include <symengine/sets.h>
#include <symengine/assumptions.h>
#include <symengine/test_visitors.h>
#include <iostream>
using namespace SymEngine;
const char *ts(tribool t){ return is_true(t)?"true":is_false(t)?"false":"indeterminate"; }
int main(){
    RCP<const Basic> x = symbol("x"), y = symbol("y");
    Assumptions a({contains(x, rationals()), contains(y, rationals())});
    auto e = pow(x, y);
    std::cout << "is_complex(x**y | x, y rational) = " << ts(is_complex(*e, &a)) << "   (x = 0, y = -1 gives " << pow(integer(0), integer(-1))->__str__() << ", is_complex(zoo) = " << ts(is_complex(*pow(integer(0), integer(-1)))) << ")\n";
    auto e2 = mul(y, pow(x, integer(-1)));
    std::cout << "is_complex(y/x | x, y rational) = " << ts(is_complex(*e2, &a)) << "\n";
    return 0;
}
