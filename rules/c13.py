"""C13 — lambda double callbacks: re-initialising an evaluator behaves like a
fresh one; closures never dangle; no handler returns a stale closure.

R13.1a reset before use: on every path through init(inputs, outputs, cse)
       every member that apply()/the handlers can read has been
       (re)initialised before the first apply(), or is only read under a
       condition over members that have been.
R13.1b what call() reads is (re)initialised on every normal path of init(),
       or guarded by a member that is.
R13.2  closure storage stability: a member whose element address is captured
       by the closures is only reallocated in init(), and never after a
       closure of the current initialisation has been created.
R13.3  definite assignment of result_ in every reachable handler of the real
       and the complex evaluator.
"""
from selib.program import walk, show, short, strip_type
from selib.visitors import Visitors, MustAssign
from selib.reset import Reset, WRITE_METHODS
from selib.build import AnalysisBroken

BASES = ["SymEngine::LambdaDoubleVisitor<double>",
         "SymEngine::LambdaDoubleVisitor<std::complex<double>>"]
CONCRETE = {"SymEngine::LambdaDoubleVisitor<double>":
            "SymEngine::LambdaRealDoubleVisitor",
            "SymEngine::LambdaDoubleVisitor<std::complex<double>>":
            "SymEngine::LambdaComplexDoubleVisitor"}
REALLOC = {"resize", "push_back", "emplace_back", "clear", "assign", "swap",
           "reserve", "shrink_to_fit", "insert", "erase", "operator="}


def method(prog, cls, name, nparams, second=None):
    for u, f in sorted(prog.functions.items()):
        if f.get("cls") == cls and f.get("n") == name and f.get("body") \
                and len(f.get("params", ())) == nparams \
                and not f.get("dependent") and f.get("tk") != "pattern":
            if second and second not in f["params"][1]["t"]:
                continue
            return f
    raise AnalysisBroken("anchor %s::%s/%d not found" % (cls, name, nparams))


def run(loader, R, tier):
    prog = loader()
    V = Visitors(prog)
    R.explanation = (
        "For both instantiations of LambdaDoubleVisitor (the complex one is "
        "seen through the analysis-only TU fixtures/tu/instantiate.cpp): a "
        "reset-completeness dataflow over init() — the set of members "
        "definitely (re)initialised so far is propagated in statement order "
        "and, at every call that can reach a handler, compared with the "
        "members the handlers may read (transitively, with the members "
        "guarding each read); the same for what call() reads against what "
        "init() writes on every normal path; an ordering rule for "
        "reallocation of address-captured storage; and definite assignment "
        "of result_ per handler. Decides independence from the evaluator's "
        "history (including a previous init that threw) and absence of "
        "dangling/stale closures; the computed values and the faithfulness "
        "of cse() are not decided.")
    R.rule("R13.1a", "members read below apply() are reset in init() before "
                     "the first apply()")
    R.rule("R13.1b", "members read by call() are reset on every normal path "
                     "of init()")
    R.rule("R13.2", "address-captured storage is reallocated only in init() "
                    "and never after a closure was created")
    R.rule("R13.3", "result_ definitely assigned in every handler")
    R.trusted += ["clear()/resize()/assignment (re)initialise a container "
                  "member"]

    nmem = 0
    nhandlers = 0
    for base in BASES:
        if base not in prog.classes:
            raise AnalysisBroken("class %s not instantiated in the fact base"
                                 % base)
        conc = CONCRETE[base]
        tracked = {base, conc}
        RS = Reset(prog, tracked, visitors=V)
        init = method(prog, base, "init", 3, second="vector")
        call = method(prog, base, "call", 2)
        apply_ = method(prog, base, "apply", 1)
        result_m = (base, "result_")

        # ---------------------------------------------------------- R13.1a
        rd = RS.reads(apply_["u"])
        nmem += len(rd)
        for m, gsets in sorted(rd.items()):
            R.instance("R13.1a", "%s:%s" % (short(base), m[1]), sample={
                "member": m[1], "read_below_apply": True,
                "guard_sets": sorted(sorted(x[1] for x in g)
                                     for g in gsets)[:4]})
        bad, inspected = RS.check(init["u"], exempt={result_m})
        R.info.setdefault("reader_calls_in_init", {})[short(base)] = [
            "%s:%s reads %d members" % (l, t, n) for l, t, n in inspected]
        if not inspected:
            raise AnalysisBroken("no reader call found in %s::init"
                                 % short(base))
        seen = set()
        for line, text, m, gs in bad:
            if m in seen:
                continue
            seen.add(m)
            R.violation(
                "R13.1a", "%s:%s" % (short(conc), m[1]),
                prog.loc(init, line),
                "%s::init reaches `%s` (line %s) although member `%s`, which "
                "the handlers read%s, has not been (re)initialised on every "
                "path: a re-initialised evaluator depends on its history "
                "(e.g. on a previous init that threw)" % (
                    short(base), text, line, m[1],
                    " under a condition over %s" % [g[1] for g in gs]
                    if gs else ""))

        # ---------------------------------------------------------- R13.1b
        W = RS.must_writes(init["u"])
        R.info.setdefault("init_must_writes", {})[short(base)] = sorted(
            m[1] for m in W)
        crd = RS.reads(call["u"])
        for m, gsets in sorted(crd.items()):
            key = "%s:%s" % (short(base), m[1])
            ok = m in W or all(gs and set(gs) <= W for gs in gsets)
            R.instance("R13.1b", key, sample={"member": m[1], "reset": ok})
            if not ok and m != result_m:
                R.violation(
                    "R13.1b", "%s:%s" % (short(conc), m[1]),
                    prog.loc(call),
                    "%s::call reads member `%s`, which init() does not "
                    "(re)initialise on every normal path: results after a "
                    "re-initialisation depend on the previous one" % (
                        short(base), m[1]))

        # ---------------------------------------------------------- R13.2
        captured = set()
        for c in tracked:
            for f in (g for g in prog.functions.values()
                      if g.get("cls") == c and g.get("body")
                      and not g.get("dependent")
                      and g.get("tk") != "pattern"):
                for n in walk(f["body"]):
                    if n.get("k") == "un" and n.get("op") == "&":
                        m = RS.member(n["a"][0])
                        if m and n["a"][0].get("k") != "mem":
                            captured.add(m)
        if not captured:
            raise AnalysisBroken("no address-captured member found in %s"
                                 % short(base))
        for m in sorted(captured):
            key = "%s:%s" % (short(base), m[1])
            R.instance("R13.2", key, sample={"address_captured_member": m[1]})
            # (a) reallocation only in init
            for c in tracked:
                for f in (g for g in prog.functions.values()
                          if g.get("cls") == c and g.get("body")
                          and not g.get("dependent")
                          and g.get("tk") != "pattern"):
                    if f["u"] == init["u"] or f.get("ctor") \
                            or f["n"].startswith(("operator=", "~")) \
                            or f["n"] == short(c).split("<")[0]:
                        continue
                    for n in walk(f["body"]):
                        if n.get("k") == "mcall" and n.get("n") in REALLOC \
                                and RS.member(n.get("o")) == m \
                                and (n.get("o") or {}).get("k") == "mem":
                            R.violation(
                                "R13.2", key, prog.loc(f, n.get("l")),
                                "%s reallocates `%s` (%s) outside init(): "
                                "closures hold addresses of its elements" % (
                                    short(f["qn"]), m[1], show(n)[:50]))
            # (b) inside init: never after a closure has been created

            def order(s, created):
                """returns `created` after s; reports realloc-after-create"""
                if s is None:
                    return created
                k = s.get("k")
                if k == "{}":
                    for x in s.get("s", ()):
                        created = order(x, created)
                    return created
                if k == "if":
                    a = order(s.get("t"), created)
                    b = order(s.get("e"), created) if s.get("e") else created
                    return a or b
                if k in ("for", "while", "forr", "do"):
                    c1 = order(s.get("b"), created)
                    c2 = order(s.get("b"), c1)
                    return c2
                if k in ("expr", "decl", "return"):
                    e = s.get("e") if k != "decl" else s
                    for n in walk(e or {}):
                        if n.get("k") == "mcall" and n.get("n") in REALLOC \
                                and RS.member(n.get("o")) == m \
                                and (n.get("o") or {}).get("k") == "mem" \
                                and created:
                            R.violation(
                                "R13.2", key, prog.loc(init, n.get("l")),
                                "%s::init reallocates `%s` (%s) after a "
                                "closure of this initialisation was created:"
                                " closures capturing &%s[i] dangle" % (
                                    short(base), m[1], show(n)[:50], m[1]))
                    for n in walk(e or {}):
                        if n.get("k") in ("call", "mcall") and n.get("u") \
                                and RS.targets(init, n) \
                                and any(m in RS.reads(t) or True
                                        for t in RS.targets(init, n)) \
                                and prog.header(n["u"]).get("n") == "apply":
                            created = True
                    return created
                if k == "try":
                    return order(s.get("b"), created)
                return created
            order(init["body"], False)

        # ---------------------------------------------------------- R13.3
        MA = MustAssign(prog, "result_")
        for h, Xs in sorted(V.by_handler(conc).items()):
            f = prog.functions.get(h)
            if f is None:
                raise AnalysisBroken("handler without body: "
                                     + prog.name_of(h))
            nhandlers += 1
            key = "%s::bvisit(%s)" % (short(conc), short(
                f["params"][0]["t"]) if f.get("params") else "?")
            R.instance("R13.3", key)
            badx = MA.unassigned_exits(f)
            if badx:
                R.violation(
                    "R13.3", key, prog.loc(f, badx[0] if badx[0] != "end"
                                           else None),
                    "%s (reached for %s) can finish without assigning "
                    "result_: apply() then returns the closure of the "
                    "previous sub-expression" % (
                        key, ", ".join(short(x) for x in Xs[:4])))
    from rules.c12 import attribute_use
    R.rule("R13.4", "every attribute a lambda handler fetches from the node "
                    "is used by the closure it builds")
    na = attribute_use(prog, V, R, "R13.4", sorted(CONCRETE.values()))
    R.floor("node attributes fetched by lambda handlers", na, 30)
    R.floor("members read below apply()", nmem, 6)
    R.floor("lambda handlers", nhandlers, 80)

    # ---------------------------------------------------------------- R13.5
    # name resolution: cse() avoids only the names of symbols that occur in
    # the outputs, so an input that no output uses may be called like a
    # replacement symbol.  The Symbol handler must consult the replacement
    # table before the input list.
    R.rule("R13.5", "the lambda Symbol handler resolves cse replacement "
                    "symbols before input symbols")
    n5 = 0
    for u, f in sorted(prog.functions.items(), key=lambda kv: kv[1]["qn"]):
        if f["n"] != "bvisit" or not f.get("body") or f.get("dependent") \
                or "LambdaDoubleVisitor" not in (f.get("cls") or "") \
                or not f.get("params") or strip_type(
                    f["params"][0]["t"]) != "SymEngine::Symbol":
            continue
        first = {}
        for i, n in enumerate(walk(f["body"])):
            if n.get("k") == "mem" and n.get("m") in (
                    "symbols", "cse_intermediate_fns_map") \
                    and n["m"] not in first:
                first[n["m"]] = (i, n.get("l"))
        n5 += 1
        key = short(f.get("cls") or "")[:60]
        R.instance("R13.5", key, sample={"first_reads": {
            k: v[1] for k, v in first.items()}})
        if "symbols" in first and (
                "cse_intermediate_fns_map" not in first
                or first["cse_intermediate_fns_map"][0]
                > first["symbols"][0]):
            R.violation(
                "R13.5", "LambdaDoubleVisitor::bvisit(Symbol)",
                prog.loc(f),
                "the Symbol handler searches the input symbols before the "
                "cse replacement table: an input that no output uses and "
                "that is named like a replacement (x0) shadows it, and the "
                "callback computes with the input value instead of the "
                "common sub-expression")
    R.floor("lambda Symbol handlers", n5, 2)

    # ---------------------------------------------------------------- R13.7
    # an input is identified by expression identity (eq / the identity-keyed
    # containers), never by its printed name: a Dummy and a Symbol, or two
    # Dummies, can share a name and are different inputs
    R.rule("R13.7", "the lambda visitor matches symbols by identity, not "
                    "by name")
    n7 = 0
    for u, f in sorted(prog.functions.items(), key=lambda kv: kv[1]["qn"]):
        if not f.get("body") or f.get("dependent") \
                or "LambdaDoubleVisitor" not in (f.get("cls") or ""):
            continue
        for n in walk(f["body"]):
            if n.get("k") == "mcall" and n.get("n") == "get_name" \
                    and "Symbol" in ((n.get("o") or {}).get("t") or show(
                        n.get("o") or {})):
                n7 += 1
                R.violation(
                    "R13.7", short(f["qn"])[:70], prog.loc(f, n.get("l")),
                    "%s uses the *name* of a symbol (`%s`) to identify an "
                    "input: a Dummy and a Symbol of the same name (x and "
                    "x.as_dummy()) then share one input slot" % (
                        short(f["qn"])[:60], show(n)[:40]))
    R.instance("R13.7", "LambdaDoubleVisitor", sample={
        "name_based_lookups": n7})

    # ---------------------------------------------------------------- R13.6
    # cse reserves the name of *every* symbol of the outputs: the
    # reservation sits on the node the traversal is visiting (so the roots
    # are covered too), not only on its children
    R.rule("R13.6", "tree_cse reserves the name of every symbol it visits, "
                    "roots included")
    tc = [f for f in prog.functions.values() if f["n"] == "tree_cse"
          and f.get("body")]
    if len(tc) != 1:
        raise AnalysisBroken("tree_cse not found")
    lams = [n for n in walk(tc[0]["body"]) if n.get("k") == "lambda"
            and any(m.get("k") == "mcall" and m.get("n") == "insert"
                    and "excluded_symbols" in show(m.get("o") or {})
                    for m in walk(n.get("b") or {}))]
    if not lams:
        raise AnalysisBroken("tree_cse: no traversal reserves symbol names")
    for lam in lams:
        ps = {p_["n"] for p_ in lam.get("params", ())}
        ins = [m for m in walk(lam.get("b") or {})
               if m.get("k") == "mcall" and m.get("n") == "insert"
               and "excluded_symbols" in show(m.get("o") or {})]
        on_node = [m for m in ins if m.get("a") and any(
            y.get("k") == "ref" and y.get("n") in ps
            for y in walk(m["a"][0]))]
        R.instance("R13.6", "tree_cse@%s" % lam.get("l"), sample={
            "reservations": [show(m)[:50] for m in ins]})
        if not on_node:
            R.violation(
                "R13.6", "tree_cse", prog.loc(tc[0], ins[0].get("l")),
                "tree_cse reserves symbol names only for children (`%s`), "
                "not for the node being visited: a bare symbol that is "
                "itself an output is not reserved, a replacement can get "
                "its name and the reduced expressions then confuse the "
                "two" % show(ins[0])[:50])


MANIFEST = dict(
    technique="reset-completeness dataflow (must-write before may-read, with "
              "guard discharge) over init()/call(), ordering typestate for "
              "address-captured storage, definite assignment per handler",
    text="Decides, for both evaluator instantiations and for all histories "
         "of initialisations (including ones that threw): every member the "
         "handlers or call() can read is re-initialised by init() before it "
         "can be read (or is read only under a condition over re-initialised "
         "members), the buffer whose element addresses the CSE closures "
         "capture is never reallocated after a closure exists, and no "
         "handler leaves result_ unassigned. These are necessary conditions "
         "of 're-initialising behaves like a fresh evaluator' and of closures "
         "reading live storage. Does not decide the values computed nor that "
         "cse() is faithful.",
    note="The complex instantiation is parsed through the analysis-only TU "
         "fixtures/tu/instantiate.cpp.",
    ref="§2 C13",
)
