"""Finite abstract domain of SymEngine numbers for engine E3.

A point is a number *kind* refined by a value class.  Predicates of the
number classes (is_zero, is_positive, is_one, ...) are not tabulated: their
bodies are interpreted, the domain only gives meaning to comparisons of the
value member with the literals -1, 0, 1 and to a handful of constructors.
"""
from .absint import Domain, TOP, Interp
from .program import walk, show, short, strip_type

NS = "SymEngine::"
KINDS = ["Integer", "Rational", "Complex", "RealDouble", "ComplexDouble",
         "Infty", "NaN"]
# value classes: interval w.r.t. the points -1, 0, 1
VC = {
    "Integer": ["lt-1", "-1", "0", "1", "gt1"],
    "Rational": ["lt-1", "(-1,0)", "(0,1)", "gt1"],
    "RealDouble": ["neg", "0", "pos"],
    "Complex": ["re0", "re!=0"],
    "ComplexDouble": ["im!=0"],
    "Infty": ["+", "-", "zoo"],
    "NaN": ["nan"],
}
SIGN = {"lt-1": -1, "-1": -1, "(-1,0)": -1, "neg": -1, "0": 0, "(0,1)": 1,
        "1": 1, "gt1": 1, "pos": 1, "+": 1, "-": -1, "zoo": 0}


class AbsNum:
    __slots__ = ("kind", "vc")

    def __init__(self, kind, vc):
        self.kind = kind
        self.vc = vc

    def __repr__(self):
        return "%s[%s]" % (self.kind, self.vc)

    def __eq__(self, o):
        return isinstance(o, AbsNum) and (self.kind, self.vc) == (o.kind,
                                                                  o.vc)

    def __hash__(self):
        return hash((self.kind, self.vc))

    @property
    def cls(self):
        return NS + self.kind

    def sign(self):
        return SIGN.get(self.vc)

    def is_real(self):
        return self.kind in ("Integer", "Rational", "RealDouble")

    def is_finite(self):
        return self.kind not in ("Infty", "NaN")

    def is_exact(self):
        return self.kind in ("Integer", "Rational", "Complex")

    def is_float(self):
        return self.kind in ("RealDouble", "ComplexDouble")

    def singleton(self):
        """denotes exactly one value"""
        return (self.kind == "Integer" and self.vc in ("-1", "0", "1")) or \
            self.kind in ("NaN",) or self.kind == "Infty"


def all_points(kinds=KINDS):
    return [AbsNum(k, v) for k in kinds for v in VC[k]]


def int_point(n):
    n = int(n)
    return AbsNum("Integer", "lt-1" if n < -1 else "gt1" if n > 1 else str(n))


def cmp_lit(vc, op, lit):
    """vc <op> lit for lit in {-1,0,1}: True/False/None"""
    rng = {"lt-1": (-9, -1.5), "-1": (-1, -1), "(-1,0)": (-0.9, -0.1),
           "0": (0, 0), "(0,1)": (0.1, 0.9), "1": (1, 1), "gt1": (1.5, 9),
           "neg": (-9, -0.1), "pos": (0.1, 9)}.get(vc)
    if rng is None:
        return None
    lo, hi = rng
    if vc == "neg" and lit == -1 or vc == "pos" and lit == 1:
        return None if op in ("==", "!=", "<", ">", "<=", ">=") else None
    res = {
        "==": (True if lo == hi == lit else False if (hi < lit or lo > lit)
               else None),
        "<": True if hi < lit else False if lo >= lit else None,
        ">": True if lo > lit else False if hi <= lit else None,
        "<=": True if hi <= lit else False if lo > lit else None,
        ">=": True if lo >= lit else False if hi < lit else None,
    }
    if op == "!=":
        r = res["=="]
        return None if r is None else (not r)
    return res.get(op)


class Handler:
    """opaque result: a kind-specific arithmetic routine was reached"""
    __slots__ = ("qn", "this", "args", "usr")

    def __init__(self, qn, this, args, usr=None):
        self.qn = qn
        self.this = this
        self.args = tuple(args)
        self.usr = usr

    def __repr__(self):
        return "%s(this=%r; %s)" % (short(self.qn), self.this,
                                    ", ".join(repr(a) for a in self.args))

    def __eq__(self, o):
        return isinstance(o, Handler) and (self.qn, self.this, self.args) \
            == (o.qn, o.this, o.args)

    def __hash__(self):
        return hash((self.qn, self.this, self.args))


GLOBALS = {
    "SymEngine::Nan": AbsNum("NaN", "nan"),
    "SymEngine::zero": AbsNum("Integer", "0"),
    "SymEngine::one": AbsNum("Integer", "1"),
    "SymEngine::minus_one": AbsNum("Integer", "-1"),
    "SymEngine::two": AbsNum("Integer", "gt1"),
    "SymEngine::Inf": AbsNum("Infty", "+"),
    "SymEngine::NegInf": AbsNum("Infty", "-"),
    "SymEngine::ComplexInf": AbsNum("Infty", "zoo"),
    "SymEngine::I": AbsNum("Complex", "re0"),
}
DISPATCH = {"add", "sub", "rsub", "mul", "div", "rdiv", "pow", "rpow"}
PREDS = {"is_zero", "is_one", "is_minus_one", "is_positive", "is_negative",
         "is_complex", "is_exact", "is_positive_infinity",
         "is_negative_infinity", "is_unsigned_infinity", "is_re_zero"}
FREE_INLINE = {"is_a_Number", "is_a_Complex", "is_number_and_zero",
               "addnum", "subnum", "mulnum", "divnum", "pownum"}


def dir_to_infty(v):
    """Infty point for a direction value"""
    if isinstance(v, AbsNum) and v.is_real() and v.sign() is not None:
        return AbsNum("Infty", {1: "+", -1: "-", 0: "zoo"}[v.sign()])
    return TOP


class NumDomain(Domain):
    def __init__(self, prog):
        self.prog = prog
        self.kind_code = {}
        for k in KINDS:
            c = prog.classes.get(NS + k)
            if not c:
                continue
            for s in c.get("statics", ()):
                if s["n"] == "type_code_id" and s.get("i") \
                        and s["i"].get("k") == "ref":
                    self.kind_code[k] = int(s["i"].get("v", -1))

    # ------------------------------------------------------------ inlining
    def inline(self, I, call, env):
        k = call.get("k")
        if k == "mcall":
            nm = call.get("n")
            recv = I.eval(call.get("o"), env)
            if isinstance(recv, AbsNum) and nm == "mul" \
                    and recv.kind == "Integer" \
                    and recv.vc in ("-1", "0", "1") \
                    and len(call.get("a", ())) == 1:
                a0 = I.eval(call["a"][0], env)
                if isinstance(a0, AbsNum) and a0.kind == "Integer" \
                        and a0.vc in ("-1", "0", "1"):
                    return None         # sign arithmetic, see value()
            if isinstance(recv, AbsNum) and nm in DISPATCH \
                    and I.cur_depth >= I.max_depth - 1:
                from .absint import AbsThrow
                raise AbsThrow("DelegationCycle(NotImplemented)", True)
            if isinstance(recv, AbsNum) and (nm in DISPATCH or nm in PREDS):
                u = self.prog.find_method(recv.cls, nm,
                                          len(call.get("a", ())))
                f = self.prog.functions.get(u)
                if f is not None and f.get("body"):
                    args = [I.eval(a, env) for a in call.get("a", ())]
                    return f, recv, args
            return None
        if k == "call" and call.get("n") in FREE_INLINE:
            f = self.prog.functions.get(call.get("u"))
            if f is not None and f.get("body"):
                return f, TOP, [I.eval(a, env) for a in call.get("a", ())]
        if k == "call":
            # small boolean helpers of the library applied to an abstract
            # number (e.g. a file-local `is_ordered_number(x)`)
            f = self.prog.functions.get(call.get("u"))
            if f is not None and f.get("body") and not f.get("cls") \
                    and strip_type(f.get("ret") or "") == "bool" \
                    and "/symengine/" in (f.get("file") or "") \
                    and (f.get("file") or "").endswith(".cpp") \
                    and sum(1 for _ in walk(f["body"])) < 80:
                args = [I.eval(a, env) for a in call.get("a", ())]
                if any(isinstance(a, AbsNum) for a in args):
                    return f, TOP, args
        return None

    # ------------------------------------------------------------ atoms
    def atom(self, I, e, env):
        k = e.get("k")
        if k == "call" and e.get("n") == "is_a" and e.get("ta") \
                and e.get("a"):
            v = I.eval(e["a"][0], env)
            if isinstance(v, AbsNum):
                return v.cls == strip_type(e["ta"][0])
            return None
        if k == "call" and e.get("n") == "eq" and len(e.get("a", ())) == 2:
            a, b = I.eval(e["a"][0], env), I.eval(e["a"][1], env)
            if isinstance(a, AbsNum) and isinstance(b, AbsNum):
                if a.kind != b.kind:
                    return False
                if a.vc != b.vc:
                    return False
                if a.singleton():
                    return True
            return None
        if k in ("bin", "op") and e.get("op") in ("==", "!=", "<", ">", "<=",
                                                  ">=") \
                and len(e.get("a", ())) == 2:
            a, b = e["a"]
            return self._compare(I, a, e["op"], b, env)
        return None

    def _lit(self, e):
        while e is not None and e.get("k") in ("ctor", "cast", "defarg") \
                and len(e.get("a", ())) == 1:
            e = e["a"][0]
        if e is None:
            return None
        if e.get("k") == "lit" and e.get("t") in ("int", "float"):
            try:
                return float(e["v"])
            except ValueError:
                return None
        if e.get("k") == "un" and e.get("op") == "-":
            v = self._lit(e["a"][0])
            return None if v is None else -v
        if e.get("k") == "ref" and e.get("d") == "enum":
            return float(e.get("v", 0))
        return None

    def _compare(self, I, a, op, b, env):
        swap = {"<": ">", ">": "<", "<=": ">=", ">=": "<=", "==": "==",
                "!=": "!="}
        la, lb = self._lit(a), self._lit(b)
        if la is not None and lb is not None:
            return {"==": la == lb, "!=": la != lb, "<": la < lb,
                    ">": la > lb, "<=": la <= lb, ">=": la >= lb}[op]
        if la is not None:
            a, b, la, lb, op = b, a, lb, la, swap[op]
        if lb is None:
            return None
        # a is `value member of an abstract number` or a type code
        if a.get("k") == "mcall" and a.get("n") == "get_type_code":
            v = I.eval(a.get("o"), env)
            if isinstance(v, AbsNum) and v.kind in self.kind_code:
                ca = float(self.kind_code[v.kind])
                return {"==": ca == lb, "!=": ca != lb, "<": ca < lb,
                        ">": ca > lb, "<=": ca <= lb, ">=": ca >= lb}[op]
            return None
        if (a.get("k") == "mem" and a.get("m") == "i") or (
                a.get("k") == "mcall" and a.get("n") in (
                    "as_integer_class", "as_rational_class", "as_double")):
            v = I.eval(a.get("o"), env)
            if isinstance(v, AbsNum) and v.kind in ("Integer", "Rational",
                                                    "RealDouble") \
                    and lb in (-1.0, 0.0, 1.0):
                return cmp_lit(v.vc, op, int(lb))
            if isinstance(v, AbsNum) and v.kind == "ComplexDouble" \
                    and lb == 0.0 and op in ("==", "!="):
                return op == "!="
        return None

    # ------------------------------------------------------------ values
    def value(self, I, e, env):
        k = e.get("k")
        if k == "ref" and e.get("d") == "global":
            return GLOBALS.get(e.get("q"), TOP)
        if k == "mem" and e.get("m") == "_direction":
            v = I.eval(e.get("o"), env)
            if isinstance(v, AbsNum) and v.kind == "Infty":
                return AbsNum("Integer", {"+": "1", "-": "-1",
                                          "zoo": "0"}[v.vc])
            return TOP
        if k == "mcall" and e.get("n") == "get_direction":
            v = I.eval(e.get("o"), env)
            if isinstance(v, AbsNum) and v.kind == "Infty":
                return AbsNum("Integer", {"+": "1", "-": "-1",
                                          "zoo": "0"}[v.vc])
            return TOP
        if k == "call":
            n = e.get("n")
            a = e.get("a", [])
            if n == "integer" and len(a) == 1:
                lit = self._lit(a[0])
                if lit is not None:
                    return int_point(lit)
            if n == "infty" and len(a) == 1:
                lit = self._lit(a[0])
                if lit is not None:
                    return dir_to_infty(int_point(lit))
                return dir_to_infty(I.eval(a[0], env))
            if n == "make_rcp" and e.get("ta") and strip_type(
                    e["ta"][0]) == NS + "Infty" and len(a) == 1:
                return dir_to_infty(I.eval(a[0], env))
            if e.get("u"):
                args = [I.eval(x, env) for x in a]
                return Handler(self.prog.name_of(e["u"]), TOP, args,
                               e["u"])
        if k == "mcall":
            recv = I.eval(e.get("o"), env)
            args = [I.eval(x, env) for x in e.get("a", ())]
            nm = e.get("n")
            # sign arithmetic on singleton directions
            if nm == "mul" and isinstance(recv, AbsNum) and len(args) == 1 \
                    and isinstance(args[0], AbsNum) \
                    and recv.kind == "Integer" and args[0].kind == "Integer" \
                    and recv.vc in ("-1", "0", "1") \
                    and args[0].vc in ("-1", "0", "1"):
                return int_point(int(recv.vc) * int(args[0].vc))
            if e.get("u"):
                return Handler(self.prog.name_of(e["u"]), recv, args,
                               e["u"])
        if k == "ctor" and len(e.get("a", ())) == 1:
            return I.eval(e["a"][0], env)
        return TOP
