"""C17 — the parser implements conventional syntax (decimal literals and the
function-name tables; precedence lives in generated LALR tables and is not
decided here).

R17.1 every string->integer conversion reachable from Parser::parse_numeric
      uses the constant base 10.
R17.2 every key of the parser's literal name tables is bound to the library
      function that the conventional alias relation names.
R17.3 every key of the parser's constant table is bound to the conventional
      constant.
"""
from selib.program import strip_type,  walk, show, short
from selib.tables import string_tables
from selib.build import AnalysisBroken

# (function name) -> index of the base argument
BASE_ARG = {"strtol": 2, "strtoll": 2, "strtoul": 2, "strtoull": 2,
            "strtoimax": 2, "strtoumax": 2, "stoi": 2, "stol": 2, "stoll": 2,
            "stoul": 2, "stoull": 2, "mpz_set_str": 2, "mpz_init_set_str": 2,
            "fmpz_set_str": 2, "mpq_set_str": 2,
            # gmp.h defines the mpz_* names as macros for these
            "__gmpz_set_str": 2, "__gmpz_init_set_str": 2,
            "__gmpq_set_str": 2, "__gmpf_set_str": 2}
CTOR_BASE = {"SymEngine::mpz_wrapper": 1, "SymEngine::mpq_wrapper": 1,
             "__gmp_expr<__mpz_struct[1], __mpz_struct[1]>": 1}

LONG_RELATIONAL = {"Equality": "Eq", "Unequality": "Ne", "GreaterThan": "Ge",
                   "StrictGreaterThan": "Gt", "LessThan": "Le",
                   "StrictLessThan": "Lt"}
CONNECTIVES = {"Not", "And", "Or", "Xor", "Xnor", "Nand", "Nor"}
# conventional names of constants (the oracle for R17.3)
CONSTANTS = {"e": "E", "E": "E", "pi": "pi", "I": "I", "oo": "Inf",
             "inf": "Inf", "zoo": "ComplexInf", "nan": "Nan",
             "True": "boolTrue", "False": "boolFalse",
             "EulerGamma": "EulerGamma", "Catalan": "Catalan",
             "GoldenRatio": "GoldenRatio"}


def expected_callee(key):
    """conventional alias relation: table key -> library function name"""
    if key in LONG_RELATIONAL:
        return LONG_RELATIONAL[key]
    if key in CONNECTIVES:
        return "logical_" + key.lower()
    if key == "ln":
        return "log"
    if key.startswith("arc") and len(key) > 3:
        return "a" + key[3:]
    return key


def lit_value(n):
    while n is not None and n.get("k") in ("defarg", "cast"):
        n = n["a"][0] if n.get("a") else None
    if n is not None and n.get("k") == "lit" and n.get("t") == "int":
        return str(n.get("v"))
    return None


def reachable(prog, root, depth=4):
    seen = {root["u"]: root}
    frontier = [root]
    for _ in range(depth):
        nxt = []
        for f in frontier:
            for n in walk(f["body"]):
                u = n.get("u")
                if n.get("k") in ("call", "mcall", "ctor", "op") and u \
                        and u in prog.functions and u not in seen:
                    g = prog.functions[u]
                    if g.get("file", "").startswith("/usr"):
                        continue
                    seen[u] = g
                    nxt.append(g)
        frontier = nxt
    return list(seen.values())


def run(loader, R, tier):
    prog = loader()
    R.explanation = (
        "Table and call-site rules on the resolved AST of parser.cpp: "
        "R17.1 base argument of every string->integer conversion reachable "
        "from Parser::parse_numeric is the literal 10; R17.2/R17.3 each "
        "literal key of the parser's function/constant tables is bound to "
        "the declaration the conventional alias relation names (arcX->aX, "
        "ln->log, long relational names, logical connectives). Decides the "
        "literal-reading and name-mapping clauses only; precedence, "
        "associativity and implicit multiplication live in generated LALR/"
        "re2c tables and are not decided.")
    R.rule("R17.1", "string->integer conversions under parse_numeric use "
                    "base 10")
    R.rule("R17.2", "function-table key bound to the conventionally named "
                    "library function")
    R.rule("R17.3", "constant-table key bound to the conventional constant")
    R.rule("R17.4", "a strtol result is used only where errno != ERANGE "
                    "holds, with errno cleared before the call")
    R.trusted += ["alias relation arcX->aX, ln->log, Equality->Eq ..., "
                  "And->logical_and ... (the conventional naming, ~15 "
                  "lines)"]
    R.assumptions += ["the generated tokenizer hands parse_numeric exactly "
                      "the NUMERIC token text"]

    from selib.numlit import literal_rules
    literal_rules(prog, R, "R17.1", "R17.4")

    # ---------------------------------------------------------- R17.5
    # an exact literal is converted from its text: an Integer built from a
    # floating-point intermediate loses every digit beyond 2^53
    R.rule("R17.5", "the parser never builds an Integer from a "
                    "floating-point intermediate")
    nint = 0
    for u, f in sorted(prog.functions.items(), key=lambda kv: kv[1]["qn"]):
        if f.get("cls") != "SymEngine::Parser" or not f.get("body") \
                or f.get("dependent"):
            continue
        for n in walk(f["body"]):
            if not (n.get("k") == "call" and n.get("n") in (
                    "integer", "rational") and n.get("a")):
                continue
            nint += 1
            key = "%s@%s" % (short(f["qn"]), n.get("l"))
            fl = [x for a in n["a"] for x in walk(a)
                  if x.get("k") in ("ref", "mem", "call", "mcall")
                  and strip_type(x.get("t") or "") in (
                      "double", "float", "long double")]
            R.instance("R17.5", key, sample={"call": show(n)[:80]})
            if fl:
                R.violation(
                    "R17.5", short(f["qn"]), prog.loc(f, n.get("l")),
                    "%s builds an exact number from the floating-point "
                    "value `%s` (`%s`): digits beyond the 53-bit mantissa "
                    "are rounded away, so a long integer literal becomes a "
                    "different integer" % (short(f["qn"]),
                                           show(fl[0])[:30], show(n)[:60]))
    R.floor("exact-number constructions in the parser", nint, 1)

    # ---------------------------------------------------------- R17.6
    # an IMPLICIT_MUL token ("2x", "3pi") is split by parse_implicit_mul
    # into (number, identifier-or-one); `one` is the sentinel for "no
    # identifier part".  A grammar action that builds its value from the
    # tuple must use both components unless the path it is on establishes
    # that the dropped component IS the sentinel (the neutral element):
    # any other test lets a consumed identifier vanish from the value.
    R.rule("R17.6", "grammar actions use both halves of a split "
                    "IMPLICIT_MUL token unless the dropped half is `one`")
    from selib import sym as _sym
    n6 = 0
    for f in prog.fn_by_qn("yy::parser::parse"):
        if not f.get("body"):
            continue
        tups = {v["n"] for d in walk(f["body"]) if d.get("k") == "decl"
                for v in d.get("v", ())
                if any(c.get("n") == "parse_implicit_mul"
                       for c in walk(v.get("i") or {})
                       if c.get("k") in ("call", "mcall"))}

        alias = {}   # local initialised from get<i>(tup) -> {i}

        def comps(e):
            out = set()
            for c in walk(e):
                if c.get("k") == "call" and c.get("n") == "get" \
                        and c.get("a") and c["a"][-1].get("k") == "ref" \
                        and c["a"][-1].get("n") in tups:
                    s = show(c)
                    out.add(0 if s.startswith("get<0") else
                            1 if s.startswith("get<1") else s)
                elif c.get("k") == "ref" and c.get("n") in alias:
                    out |= alias[c["n"]]
            return out
        for d in walk(f["body"]):
            if d.get("k") == "decl":
                for v in d.get("v", ()):
                    if v["n"] not in tups and v.get("i"):
                        cs_ = comps(v["i"])
                        if cs_:
                            alias[v["n"]] = cs_

        def cb6(n, guards, line, f=f):
            nonlocal n6
            if not (n.get("k") == "op" and n.get("op") == "="
                    and len(n.get("a", ())) == 2
                    and show(n["a"][0]).startswith("yylhs")):
                return
            used = comps(n["a"][1])
            if not used:
                return
            n6 += 1
            key = "implicit_mul#%d" % n6
            neutral = set()
            for g in guards:
                if len(g) != 2 or not isinstance(g[0], dict):
                    continue
                c, pol = g
                if c.get("k") == "call" and c.get("n") in ("neq", "eq") \
                        and len(c.get("a", ())) == 2 \
                        and (c["n"] == "eq") == bool(pol):
                    sides = [show(a) for a in c["a"]]
                    if any(s.lstrip("*(").startswith("one") or
                           s.endswith("one") for s in sides):
                        neutral |= comps(c)
            R.instance("R17.6", key, sample={
                "line": line, "uses": sorted(map(str, used)),
                "known_one": sorted(map(str, neutral))})
            for i in (0, 1):
                if i not in used and i not in neutral:
                    R.violation(
                        "R17.6", "IMPLICIT_MUL:drops:%s" % (
                            "identifier" if i else "number"),
                        prog.loc(f, line),
                        "a grammar action builds its value `%s` from a split "
                        "IMPLICIT_MUL token without its %s part, on a path "
                        "that does not establish that part to be `one` (the "
                        "sentinel parse_implicit_mul returns for an absent "
                        "identifier): a consumed identifier such as the "
                        "constant in \"2pi^2\" vanishes from the result" % (
                            show(n["a"][1])[:70],
                            "identifier" if i else "numeric"))
        _sym.visit_guarded(f["body"], cb6)
    R.floor("grammar actions over a split IMPLICIT_MUL token", n6, 3)

    # ---------------------------------------------------------- R17.2
    fnames = set()
    for u, f in prog.functions.items():
        if f["qn"].startswith("SymEngine::") and "cls" not in f:
            fnames.add(f["n"])
    for u, h in prog.decls.items():
        if h.get("qn", "").startswith("SymEngine::") and "cls" not in h:
            fnames.add(h["n"])
    entries = 0
    srcs = prog.fn_by_qn("SymEngine::init_parser_single_arg_functions") \
        + prog.fn_by_qn("SymEngine::Parser::functionify")
    if len(srcs) < 2:
        raise AnalysisBroken("parser table anchors not found")
    for f in srcs:
        for table, es in string_tables(f).items():
            for key, tgt, line in es:
                if tgt.get("k") == "ref" and tgt.get("d") == "fn":
                    callee = prog.header(tgt["u"]).get("n")
                elif tgt.get("k") == "lambda":
                    cs = [c for c in walk(tgt["b"]) if c.get("k") == "call"
                          and c.get("n")]
                    callee = cs[-1]["n"] if cs else None
                else:
                    callee = None
                entries += 1
                ikey = "%s[%s]" % (table, key)
                exp = expected_callee(key)
                R.instance("R17.2", ikey, sample={"key": key,
                                                  "bound_to": callee})
                if callee is None:
                    R.undecided_obligation("R17.2", ikey,
                                           "target is not a function "
                                           "reference: " + show(tgt)[:60])
                    continue
                if callee == exp:
                    continue
                if exp in fnames:
                    R.violation(
                        "R17.2", ikey, prog.loc(f, line),
                        "parser table `%s` binds the name \"%s\" to %s(), "
                        "but the library function conventionally denoted "
                        "by that name is %s()" % (table, key, callee, exp))
                else:
                    R.undecided_obligation(
                        "R17.2", ikey, "no library function named %s; "
                        "alias to %s not judged" % (exp, callee))
    R.floor("parser function-table entries", entries, 80)

    # ---------------------------------------------------------- R17.3
    pid = prog.one_fn("SymEngine::Parser::parse_identifier")
    cents = 0
    for table, es in string_tables(pid).items():
        for key, tgt, line in es:
            cents += 1
            ikey = "%s[%s]" % (table, key)
            name = tgt.get("n") if tgt.get("k") == "ref" else None
            R.instance("R17.3", ikey, sample={"key": key, "bound_to": name})
            exp = CONSTANTS.get(key)
            if exp is None or name is None:
                R.undecided_obligation("R17.3", ikey,
                                       "no conventional constant for key")
                continue
            if name != exp:
                R.violation("R17.3", ikey, prog.loc(pid, line),
                            "parser constant \"%s\" is bound to %s, "
                            "conventionally %s" % (key, name, exp))
    R.floor("parser constant-table entries", cents, 10)


MANIFEST = dict(
    technique="call-site rule (constant base argument) + literal table "
              "resolution over the type-checked AST of parser.cpp",
    text="Decides two clauses of C17 for all inputs by inspecting the "
         "parser's code shape: integer literals are converted with the "
         "constant base 10 at every conversion reachable from "
         "parse_numeric, and every name in the parser's function and "
         "constant tables resolves to the library function/constant the "
         "conventional alias relation names. Precedence, associativity, "
         "implicit multiplication and whitespace live in generated "
         "bison/re2c tables and are NOT decided (not applicable to this "
         "technique).",
    note="Trusted: the alias relation (conventional naming) and that the "
         "tokenizer passes the NUMERIC token text unchanged.",
    ref="§2 C17",
)
