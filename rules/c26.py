"""C26 — matrix predicates are sound (protocol clauses only).

R26.1 definite assignment: every handler of every visitor under
      symengine/matrices/ (the eight tribool predicates, size, trace,
      transpose, conjugate) that is reachable from the static parameter type
      of the visitor's apply() assigns the result member on every
      non-throwing path.  A path that leaves it untouched returns the answer
      of a previously visited operand as the answer for this node.
R26.2 Kleene monotonicity: each predicate handler, interpreted under every
      assignment of true/false/indeterminate to its three-valued sub-answers
      (loops over the operands unrolled once and twice), never turns an
      indeterminate sub-answer into a definite answer that differs from the
      one it gives when the sub-answer is known.
The value-preservation half of the property (matrix add/mul/Hadamard/
transpose/trace against the dense computation) and the merge rules are not
decided.
"""
from selib.program import walk, show, short, strip_type
from selib.visitors import Visitors, MustAssign
from selib.build import AnalysisBroken
from rules.c34 import result_member


def run(loader, R, tier):
    prog = loader()
    V = Visitors(prog)
    from selib import tri
    R.explanation = (
        "Visitor classes defined under symengine/matrices/ are taken from "
        "the resolved dispatch tables.  R26.1 is a definite-assignment "
        "analysis of the result member over every reachable handler.  R26.2 "
        "interprets every tribool handler (engine E3 with bounded loop "
        "unrolling, selib/tri.py) under all assignments of its three-valued "
        "sub-answers and checks monotonicity in the information order.  Both "
        "are necessary conditions of 'a predicate never gives an answer "
        "contradicted by the concrete matrix'; they do not use matrix "
        "values, so they do not decide that a definite answer is the right "
        "one, nor the value-preservation clause.")
    R.rule("R26.1", "result definitely assigned in every reachable handler "
                    "of the matrix visitors")
    R.rule("R26.2", "matrix predicate handlers are monotone in their "
                    "three-valued sub-answers")
    nvis = nh = nmono = 0
    for vis in V.visitors():
        if "/matrices/" not in (prog.classes.get(vis, {}).get("file") or ""):
            continue
        mem, applyf, pre = result_member(prog, V, vis)
        if not mem or applyf is None:
            continue
        nvis += 1
        is_tri = strip_type(applyf.get("ret", "")) == "SymEngine::tribool"
        pcls = strip_type(applyf["params"][0]["t"]) if applyf.get(
            "params") else "SymEngine::Basic"
        MA = MustAssign(prog, mem)
        own = short(vis)
        for h, Xs in sorted(V.by_handler(vis).items()):
            reach = [x for x in Xs if prog.derives(x, pcls)]
            f = prog.functions.get(h)
            if not reach or f is None or not f.get("params"):
                continue
            nh += 1
            key = "%s::bvisit(%s)" % (short(vis), short(f["params"][0]["t"]))
            R.instance("R26.1", key, sample={"handler": key, "member": mem,
                                             "reachable_classes": len(reach)})
            bad = MA.unassigned_exits(f)
            if bad and not pre:
                R.violation(
                    "R26.1", key, prog.loc(f, bad[0] if bad[0] != "end"
                                           else None),
                    "%s (reached for %s) can finish without assigning `%s`: "
                    "apply() then returns what a previously visited operand "
                    "left there" % (key, ", ".join(short(x)
                                                   for x in reach[:3]), mem))
            if not is_tri:
                continue
            for unroll in (1, 2):
                meta = {}
                lv = tri.leaves(prog, f, mem, limit=30000, unroll=unroll,
                                own=None, meta=meta)
                if lv is None:
                    R.undecided_obligation("R26.2", key, "explosion")
                    break
                ntri = max((len([k for k in a if k.startswith("tri:")])
                            for a, _o in lv), default=0)
                rs = [tri.result_of(o, mem) for _a, o in lv]
                if not ntri or not any(r in ("T", "F") for r in rs):
                    break
                if unroll == 1:
                    nmono += 1
                R.instance("R26.2", "%s/%d" % (key, unroll), sample={
                    "handler": key, "loop_iterations": unroll,
                    "sub_answers": ntri, "assignments": len(lv)})
                badm = tri.nonmonotone(lv, mem)
                for a, r, b, r2, k in badm[:1]:
                    names = {"T": "true", "F": "false", "I": "indeterminate"}
                    R.violation(
                        "R26.2", key, prog.loc(f),
                        "%s answers %s when the sub-query `%s` is %s but "
                        "the definite answer %s when that sub-query is "
                        "indeterminate: an unknown operand cannot support a "
                        "definite answer that differs from the one given "
                        "when the operand is known" % (
                            key, names[r], k[4:], names[a[k]], names[r2]))
                if badm or not any(n.get("k") == "forr"
                                   for n in walk(f["body"])):
                    break
    R.floor("matrix visitors", nvis, 10)
    R.floor("reachable matrix handlers", nh, 60)
    R.floor("matrix handlers combining three-valued sub-answers", nmono, 8)


MANIFEST = dict(
    technique="definite-assignment analysis over the resolved (visitor, "
              "class) dispatch table + finite-domain abstract interpretation "
              "of the predicate handlers with bounded loop unrolling (Kleene "
              "monotonicity)",
    text="Decides two necessary conditions of the predicate-soundness clause "
         "for all matrix-expression trees: every reachable handler of the "
         "eleven visitors under symengine/matrices/ assigns its result on "
         "all non-throwing paths (no stale answer of a previous operand), "
         "and every tribool predicate handler is monotone in its "
         "three-valued sub-answers (an indeterminate operand never yields a "
         "definite answer that differs from the one given when the operand "
         "is known). Does not decide that a definite answer agrees with the "
         "concrete matrix, nor the value-preservation clause (matrix add/"
         "mul/Hadamard/transpose/trace against the dense computation), nor "
         "the merge rules.",
    note="The same two analyses run over the scalar query visitors under "
         "C34 (R34.2, R34.5).",
    ref="§17 C26 (claimed late in the build phase)",
)
