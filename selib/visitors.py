"""Visitor dispatch tables (engine E4a) and the definite-assignment rule for
visitor result members (engine E2c)."""
from collections import defaultdict

from .program import walk, show, short, strip_type
from .build import AnalysisBroken


class Visitors:
    def __init__(self, prog):
        self.prog = prog
        # visitor class -> {visited class qn: handler usr}
        self.table = defaultdict(dict)
        # visitor class -> base given as 2nd template argument
        self.layer_base = {}
        for u, f in prog.functions.items():
            if f.get("n") != "visit":
                continue
            cls = f.get("cls", "")
            if not cls.startswith("SymEngine::BaseVisitor<"):
                continue
            k = prog.classes.get(cls)
            if not k or k.get("tk") != "inst" or not k.get("ta"):
                continue
            V = strip_type(k["ta"][0])
            if len(k["ta"]) > 1:
                self.layer_base[V] = strip_type(k["ta"][1])
            ps = f.get("params", [])
            if len(ps) != 1:
                continue
            X = strip_type(ps[0]["t"])
            h = None
            for n in walk(f["body"]):
                if n.get("k") == "mcall" and n.get("n") == "bvisit":
                    h = n.get("u")
            if h:
                self.table[V][X] = h

    def visitors(self):
        return sorted(self.table)

    def handlers(self, V):
        return self.table.get(V, {})

    def by_handler(self, V):
        out = defaultdict(list)
        for X, h in self.handlers(V).items():
            out[h].append(X)
        return out


# --------------------------------------------------------------------------
# definite assignment
class MustAssign:
    """Does every non-throwing path through a handler assign the visitor's
    result member?  Accepted ways to assign, enumerated from the code base:
      * `member = ...`                       (plain assignment)
      * a call of another method of the visitor that itself always assigns
      * `e.accept(*this)` / `e->accept(*this)` / `apply(e)` (by induction
        over handlers: the nested dispatch assigns)
    """

    def __init__(self, prog, member, extra_assign_calls=(),
                 nonempty_loops=True):
        self.prog = prog
        self.member = member
        self.memo = {}
        self.extra = set(extra_assign_calls)
        self.nonempty_loops = nonempty_loops

    def is_member(self, e):
        return e.get("k") == "mem" and e.get("m") == self.member

    def expr_assigns(self, e, depth=0):
        """does evaluating e (fully) assign the member"""
        for n in walk(e):
            k = n.get("k")
            if k in ("bin", "op") and n.get("op") == "=" and n.get("a") \
                    and self.is_member(n["a"][0]):
                return True
            if k == "mcall":
                nm = n.get("n")
                if nm in ("accept",) and n.get("a") and self._is_this_arg(
                        n["a"][0]):
                    return True
                o = n.get("o") or {}
                on_this = o.get("k") == "this" or (
                    o.get("k") == "call" and o.get("n") == "down_cast")
                if on_this and nm in ("apply",) + tuple(self.extra):
                    return True
                if on_this and n.get("u") in self.prog.functions \
                        and depth < 6:
                    if self.fn_assigns(n["u"], depth + 1):
                        return True
            if k == "lambda":
                continue
        return False

    def _is_this_arg(self, a):
        # accept(*this)
        if a.get("k") == "un" and a.get("op") == "*" \
                and a["a"][0].get("k") == "this":
            return True
        if a.get("k") == "call" and a.get("n") == "down_cast":
            return True
        if a.get("k") == "cast":
            return self._is_this_arg(a["a"][0])
        return False

    def fn_assigns(self, usr, depth=0):
        if usr in self.memo:
            return self.memo[usr]
        self.memo[usr] = True       # cycles: assume assigning (induction)
        f = self.prog.functions.get(usr)
        if not f or not f.get("body"):
            self.memo[usr] = False
            return False
        bad = self.unassigned_exits(f, depth)
        self.memo[usr] = not bad
        return not bad

    def unassigned_exits(self, f, depth=0):
        """lines of returns / end-of-body reached with the member possibly
        unassigned"""
        bad = []
        breaks = []

        def run(s, st):
            """st: True if assigned on every path reaching s.
            returns st after s, or None if s never falls through"""
            if s is None:
                return st
            k = s.get("k")
            if k == "{}":
                for x in s.get("s", ()):
                    st = run(x, st)
                    if st is None:
                        return None
                return st
            if k == "if":
                if s.get("init"):
                    st = run(s["init"], st)
                if s.get("c") and self.expr_assigns(s["c"], depth):
                    st = True
                if s.get("constexpr"):
                    pass
                a = run(s.get("t"), st)
                b = run(s.get("e"), st) if s.get("e") else st
                if a is None:
                    return b
                if b is None:
                    return a
                return a and b
            if k == "return":
                if s.get("e") and self.expr_assigns(s["e"], depth):
                    st = True
                if not st:
                    bad.append(s.get("l"))
                return None
            if k == "expr":
                e = s.get("e") or {}
                if e.get("k") == "throw":
                    return None
                if self.expr_assigns(e, depth):
                    return True
                return st
            if k == "decl":
                for v in s.get("v", ()):
                    if v.get("i") and self.expr_assigns(v["i"], depth):
                        st = True
                return st
            if k in ("for", "while", "forr"):
                if k == "for" and s.get("init"):
                    st = run(s["init"], st)
                # exits inside the body are checked; a range-for whose body
                # assigns on every path counts as assigning (the child
                # containers of canonical n-ary nodes are non-empty)
                brk = []
                breaks.append(brk)
                after = run(s.get("b"), st)
                breaks.pop()
                if k == "forr" and self.nonempty_loops:
                    outs = [x for x in brk] + (
                        [after] if after is not None else [])
                    if outs and all(outs):
                        return True
                return st
            if k == "do":
                breaks.append([])
                r = run(s.get("b"), st)
                breaks.pop()
                return r if r is not None else st
            if k == "switch":
                body = s.get("b") or {}
                stmts = body.get("s", []) if body.get("k") == "{}" else [body]
                brk = []
                breaks.append(brk)
                cur = None
                has_default = False
                for x in stmts:
                    inner = x
                    is_label = False
                    while inner.get("k") in ("case", "default"):
                        is_label = True
                        if inner["k"] == "default":
                            has_default = True
                        inner = inner.get("b") or {"k": "null"}
                    if is_label:
                        cur = st if cur is None else (cur and st)
                        x = inner
                    if cur is None:
                        continue
                    cur = run(x, cur)
                breaks.pop()
                outs = list(brk)
                if cur is not None:
                    outs.append(cur)
                if not has_default:
                    outs.append(st)
                if not outs:
                    return None
                return all(outs)
            if k == "break":
                if breaks:
                    breaks[-1].append(st)
                    return None
                return st
            if k == "continue":
                return st
            if k == "try":
                a = run(s.get("b"), st)
                outs = [a]
                for h in s.get("h", ()):
                    outs.append(run(h.get("b"), st))
                outs = [o for o in outs if o is not None]
                if not outs:
                    return None
                return all(outs)
            if k in ("case", "default", "label"):
                return run(s.get("b"), st)
            return st

        end = run(f["body"], False)
        if end is not None and not end:
            bad.append("end")
        return bad
