#include <symengine/basic.h>
#include <symengine/functions.h>
#include <symengine/symbol.h>
#include <symengine/eval_double.h>
#include <symengine/real_double.h>
#include <symengine/subs.h>
#include <iostream>
using namespace SymEngine;
int main(){
    RCP<const Basic> x = symbol("x");
    auto e = acot(x);
    std::cout << "acot(-1) [constructor] = " << acot(integer(-1))->__str__() << " = " << eval_double(*acot(integer(-1))) << "\n";
    map_basic_basic d; d[x] = real_double(-1.0);
    std::cout << "acot(x).subs(x=-1.0)   = " << e->subs(d)->__str__() << "\n";
    std::cout << "acot(-2) [stays symbolic] eval_double = " << eval_double(*acot(integer(-2))) << "   (pi - atan(1/2) = " << 3.141592653589793 - std::atan(0.5) << ", -atan(1/2) = " << -std::atan(0.5) << ")\n";
    std::cout << "acot(-sqrt(3)) [constructor] = " << acot(mul(integer(-1), sqrt(integer(3))))->__str__() << "\n";
    return 0;
}
