"""Engine E3 — finite-domain abstract interpretation of small guard-structured
functions (if/else/return/throw, && || !, calls).

The engine owns control flow, environments, three-valued conditions and
call inlining; a *domain* object supplies the meaning of atoms and values
over a finite set of abstract objects.  Every outcome carries `definite`:
True only if every branch condition on its path evaluated to a definite
truth value.  Rules report a violation only for definite outcomes, so loops,
unknown calls and unknown atoms can only produce "no claim", never an alarm.
"""
from .program import walk, show, short, strip_type
from .build import AnalysisBroken

UNKNOWN = None
MAX_OUTCOMES = 4096


class AbsThrow(Exception):
    """an inlined callee throws on every path"""

    def __init__(self, value, definite):
        self.value = value
        self.definite = definite


class Unknown:
    """explicit unknown value (distinct from Python None = void)"""
    def __repr__(self):
        return "?"


TOP = Unknown()


class Outcome:
    __slots__ = ("kind", "value", "definite", "path", "line", "fn", "env")

    def __init__(self, kind, value, definite, path, line, fn, env=None):
        self.kind = kind            # 'return' | 'throw' | 'end'
        self.value = value
        self.definite = definite
        self.path = path            # [(text, bool)]
        self.line = line
        self.fn = fn
        self.env = env              # environment at the exit (member writes
                                    # appear as "this.<member>")

    def __repr__(self):
        return "%s(%r%s @%s)" % (self.kind, self.value,
                                 "" if self.definite else " ~", self.line)


class Domain:
    """override in rules"""

    def atom(self, I, e, env):
        """truth value of boolean atom e: True / False / None (unknown)"""
        return None

    def value(self, I, e, env):
        """abstract value of expression e, or TOP"""
        return TOP

    def inline(self, I, call, env):
        """return (fn, this_value, [arg values]) to interpret the callee, or
        None to treat the call as an opaque value/atom"""
        return None

    def thrown(self, I, e, env):
        """abstract description of a thrown exception"""
        t = e.get("t") or "?"
        return short(strip_type(t))


class Interp:
    def __init__(self, prog, domain, max_depth=8):
        self.prog = prog
        self.dom = domain
        self.max_depth = max_depth
        self.cur_depth = 0

    # ------------------------------------------------------------ public
    def run(self, fn, this=TOP, args=(), depth=0):
        """all outcomes of fn applied to abstract `this` and `args`"""
        env = {"this": this}
        for p, a in zip(fn.get("params", ()), args):
            env[p["n"]] = a
        for p in fn.get("params", ())[len(args):]:
            env[p["n"]] = TOP
        outs = []
        st = State(env, True, [])
        rest = self._block(fn["body"], [st], outs, fn, depth)
        for s in rest:
            outs.append(Outcome("end", None, s.definite, s.path, None, fn,
                                s.env))
        return outs

    # ------------------------------------------------------------ values
    def eval(self, e, env, depth=0):
        """abstract value of expression e"""
        if e is None:
            return TOP
        k = e.get("k")
        if k == "ref":
            if e.get("d") in ("param", "local") and e["n"] in env:
                v = env[e["n"]]
                if isinstance(v, Lazy):
                    return self.eval(v.expr, v.env, depth)
                return v
            return self.dom.value(self, e, env)
        if k == "this":
            return env.get("this", TOP)
        if k == "mem" and (e.get("o") or {}).get("k") == "this" \
                and ("this." + e.get("m", "")) in env:
            return env["this." + e["m"]]
        if k in ("un", "op") and e.get("op") in ("*", "->") \
                and len(e.get("a", ())) == 1:
            return self.eval(e["a"][0], env, depth)
        if k == "cast":
            return self.eval(e["a"][0], env, depth)
        if k == "call" and e.get("n") in ("down_cast", "rcp_static_cast",
                                          "rcp_dynamic_cast", "move",
                                          "forward", "ptrFromRef", "outArg") \
                and len(e.get("a", ())) == 1:
            return self.eval(e["a"][0], env, depth)
        if k == "ctor" and len(e.get("a", ())) == 1 and (
                "SymEngine::RCP<" in e.get("t", "")
                or "SymEngine::Ptr<" in e.get("t", "")):
            return self.eval(e["a"][0], env, depth)
        if k == "mcall" and e.get("n") in ("rcp_from_this",
                                           "rcp_from_this_cast", "get",
                                           "ptr"):
            return self.eval(e.get("o"), env, depth)
        if k in ("defarg", "definit") and e.get("a"):
            return self.eval(e["a"][0], env, depth)
        if k == "?:":
            c = self.cond(e["a"][0], env, depth)
            if c is True:
                return self.eval(e["a"][1], env, depth)
            if c is False:
                return self.eval(e["a"][2], env, depth)
            return TOP
        if k in ("call", "mcall") and depth < self.max_depth:
            self.cur_depth = depth
            inl = self.dom.inline(self, e, env)
            if inl is not None:
                fn, th, args = inl
                outs = self.run(fn, th, args, depth + 1)
                rets = [o for o in outs if o.kind == "return"]
                if outs and all(o.kind == "throw" for o in outs):
                    raise AbsThrow(outs[0].value,
                                   all(o.definite for o in outs))
                if len(outs) == 1 and rets and rets[0].definite:
                    return rets[0].value
                vals = {repr(o.value) for o in rets}
                if rets and len(vals) == 1 and all(
                        o.kind == "return" for o in outs):
                    return rets[0].value
                return TOP
        return self.dom.value(self, e, env)

    def cond(self, e, env, depth=0):
        """three-valued truth of boolean expression e"""
        if e is None:
            return None
        k = e.get("k")
        if k == "lit":
            if e.get("t") == "bool":
                return bool(e.get("v"))
            if e.get("t") == "int":
                return str(e.get("v")) != "0"
        if k == "bin" and e.get("op") == "&&":
            a = self.cond(e["a"][0], env, depth)
            if a is False:
                return False
            b = self.cond(e["a"][1], env, depth)
            if b is False:
                return False
            if a is True and b is True:
                return True
            return None
        if k == "bin" and e.get("op") == "||":
            a = self.cond(e["a"][0], env, depth)
            if a is True:
                return True
            b = self.cond(e["a"][1], env, depth)
            if b is True:
                return True
            if a is False and b is False:
                return False
            return None
        if k == "un" and e.get("op") == "!":
            a = self.cond(e["a"][0], env, depth)
            return None if a is None else (not a)
        if k == "?:":
            c = self.cond(e["a"][0], env, depth)
            if c is True:
                return self.cond(e["a"][1], env, depth)
            if c is False:
                return self.cond(e["a"][2], env, depth)
            a = self.cond(e["a"][1], env, depth)
            b = self.cond(e["a"][2], env, depth)
            return a if a == b else None
        if k == "ref" and e.get("d") in ("local", "param") \
                and e["n"] in env:
            v = env[e["n"]]
            if isinstance(v, Lazy):
                return self.cond(v.expr, v.env, depth)
            if isinstance(v, bool):
                return v
        if k == "mem" and (e.get("o") or {}).get("k") == "this" \
                and isinstance(env.get("this." + e.get("m", "")), bool):
            return env["this." + e["m"]]
        if k == "cast" or (k == "ctor" and len(e.get("a", ())) == 1):
            return self.cond(e["a"][0], env, depth)
        if k in ("call", "mcall") and depth < self.max_depth:
            inl = self.dom.inline(self, e, env)
            if inl is not None:
                fn, th, args = inl
                outs = self.run(fn, th, args, depth + 1)
                vals = set()
                for o in outs:
                    if o.kind != "return" or not o.definite \
                            or not isinstance(o.value, bool):
                        return None
                    vals.add(o.value)
                if len(vals) == 1:
                    return vals.pop()
                return None
        r = self.dom.atom(self, e, env)
        if r is None and k in ("call", "mcall", "ref", "mem"):
            v = self.eval(e, env, depth) if k != "call" else TOP
            if isinstance(v, bool):
                return v
        if r is None and k in ("bin", "op") and e.get("op") in ("==", "!=") \
                and len(e.get("a", ())) == 2:
            # comparison of two boolean-valued predicates
            def boolish(x):
                while x is not None and x.get("k") == "cast":
                    x = x["a"][0]
                return x is not None and (
                    x.get("k") in ("call", "mcall")
                    or (x.get("k") == "un" and x.get("op") == "!")
                    or (x.get("k") == "lit" and x.get("t") == "bool"))
            if boolish(e["a"][0]) and boolish(e["a"][1]):
                a = self.cond(e["a"][0], env, depth)
                b = self.cond(e["a"][1], env, depth)
                if a is not None and b is not None:
                    return (a == b) if e["op"] == "==" else (a != b)
        return r

    # ------------------------------------------------------------ control
    def _split(self, states, c, fn, depth):
        t, f = [], []
        for s in states:
            s.env = dict(s.env)     # a condition may increment a counter
            try:
                v = self.cond(c, s.env, depth)
            except AbsThrow:
                v = None
            txt = show(c)[:80]
            if v is True:
                t.append(s.extend(txt, True, True))
            elif v is False:
                f.append(s.extend(txt, False, True))
            else:
                t.append(s.extend(txt, True, False))
                f.append(s.extend(txt, False, False))
        return t, f

    def _decl(self, s, st, depth):
        for v in s.get("v", ()):
            if v.get("i") is None:
                st.env[v["n"]] = TOP
            else:
                t = strip_type(v.get("t", ""))
                if t == "bool":
                    val = self.cond(v["i"], st.env, depth)
                    st.env[v["n"]] = val if val is not None \
                        else Lazy(v["i"], st.env)
                else:
                    val = self.eval(v["i"], st.env, depth)
                    st.env[v["n"]] = val if val is not TOP \
                        else Lazy(v["i"], st.env)

    def _block(self, s, states, outs, fn, depth):
        if s is None or not states:
            return states
        parked = [st for st in states if st.flow]
        if parked:
            # states that left the current iteration of an unrolled loop
            # skip everything up to the end of the loop body
            states = [st for st in states if not st.flow]
            return self._block1(s, states, outs, fn, depth) + parked \
                if states else parked
        return self._block1(s, states, outs, fn, depth)

    def _block1(self, s, states, outs, fn, depth):
        if len(outs) > MAX_OUTCOMES:
            raise AnalysisBroken("abstract interpretation: outcome "
                                 "explosion in " + fn.get("qn", "?"))
        k = s.get("k")
        if k == "{}":
            for x in s.get("s", ()):
                states = self._block(x, states, outs, fn, depth)
                if not states:
                    break
            return states
        if k == "if":
            if s.get("init"):
                states = self._block(s["init"], states, outs, fn, depth)
            t, f = self._split(states, s.get("c"), fn, depth)
            rt = self._block(s.get("t"), t, outs, fn, depth)
            rf = self._block(s.get("e"), f, outs, fn, depth) \
                if s.get("e") else f
            return rt + rf
        if k == "return":
            for st in states:
                e = s.get("e")
                try:
                    if e is None:
                        v = None
                    else:
                        rt = strip_type(fn.get("ret", ""))
                        if rt == "bool":
                            v = self.cond(e, st.env, depth)
                            if v is None:
                                v = TOP
                        else:
                            v = self.eval(e, st.env, depth)
                except AbsThrow as t:
                    outs.append(Outcome("throw", t.value,
                                        st.definite and t.definite, st.path,
                                        s.get("l"), fn))
                    continue
                outs.append(Outcome("return", v, st.definite, st.path,
                                    s.get("l"), fn, st.env))
            return []
        if k == "expr":
            e = s.get("e") or {}
            if e.get("k") == "throw":
                for st in states:
                    outs.append(Outcome("throw", self.dom.thrown(
                        self, e, st.env), st.definite, st.path, s.get("l"),
                        fn))
                return []
            # a domain may give a call statement an effect on the
            # environment (e.g. child.accept(*this) overwrites the result)
            eff = getattr(self.dom, "effect", None)
            if eff is not None:
                done = False
                for st in states:
                    upd = eff(self, e, st.env)
                    if upd is not None:
                        st.env = dict(st.env)
                        st.env.update(upd)
                        done = True
                if done:
                    return states
            # assignment to a local or to a member of *this
            if e.get("k") in ("bin", "op") and e.get("op") == "=" \
                    and len(e.get("a", ())) == 2:
                lhs = e["a"][0]
                name = None
                if lhs.get("k") == "ref" and lhs.get("d") == "local":
                    name = lhs["n"]
                elif lhs.get("k") == "mem" and (lhs.get("o") or {}).get(
                        "k") == "this":
                    name = "this." + lhs["m"]
                if name:
                    keep = []
                    isb = strip_type(e.get("ot") or "") == "bool"
                    for st in states:
                        st.env = dict(st.env)
                        try:
                            if isb:
                                c = self.cond(e["a"][1], st.env, depth)
                                st.env[name] = c if c is not None \
                                    else Lazy(e["a"][1], dict(st.env))
                            else:
                                st.env[name] = self.eval(e["a"][1], st.env,
                                                         depth)
                            keep.append(st)
                        except AbsThrow as t:
                            outs.append(Outcome(
                                "throw", t.value, st.definite and t.definite,
                                st.path, s.get("l"), fn))
                    return keep
                return states
            if e.get("k") == "un" and e.get("op") in ("++", "--") \
                    and e["a"][0].get("k") == "ref" \
                    and e["a"][0].get("d") == "local":
                nm = e["a"][0]["n"]
                for st in states:
                    st.env = dict(st.env)
                    v = st.env.get(nm)
                    st.env[nm] = v + (1 if e["op"] == "++" else -1) \
                        if isinstance(v, int) and not isinstance(v, bool) \
                        else TOP
                return states
            # a call statement: member calls on *this are inlined for their
            # effect on the members (e.g. error(), check_power())
            if e.get("k") == "mcall" and (e.get("o") or {}).get("k") \
                    == "this" and depth < self.max_depth:
                g = self.prog.functions.get(e.get("u"))
                if g is not None and g.get("body"):
                    res = []
                    for st in states:
                        env2 = {k2: v2 for k2, v2 in st.env.items()
                                if k2 == "this" or k2.startswith("this.")
                                or k2 == "__iter"}
                        for p, a in zip(g.get("params", ()), e.get("a", ())):
                            try:
                                env2[p["n"]] = self.eval(a, st.env, depth)
                            except AbsThrow:
                                env2[p["n"]] = TOP
                        sub = []
                        inner = self._block(g["body"], [State(
                            env2, st.definite, st.path)], sub, g, depth + 1)
                        for o in sub:
                            if o.kind == "throw":
                                outs.append(o)
                            else:
                                inner.append(State(o.env or env2, o.definite,
                                                   o.path))
                        for st2 in inner:
                            env3 = dict(st.env)
                            for k2, v2 in st2.env.items():
                                if k2.startswith("this."):
                                    env3[k2] = v2
                            res.append(State(env3, st2.definite, st2.path))
                    return res
            return states
        if k == "decl":
            keep = []
            for st in states:
                st.env = dict(st.env)
                try:
                    self._decl(s, st, depth)
                    keep.append(st)
                except AbsThrow as t:
                    outs.append(Outcome("throw", t.value,
                                        st.definite and t.definite, st.path,
                                        s.get("l"), fn))
            return keep
        if k == "decl-unused":
            for st in states:
                for v in s.get("v", ()):
                    if v.get("i") is None:
                        st.env[v["n"]] = TOP
                    else:
                        t = strip_type(v.get("t", ""))
                        if t == "bool":
                            val = self.cond(v["i"], st.env, depth)
                            st.env[v["n"]] = val if val is not None \
                                else Lazy(v["i"], st.env)
                        else:
                            val = self.eval(v["i"], st.env, depth)
                            st.env[v["n"]] = val if val is not TOP \
                                else Lazy(v["i"], st.env)
            return states
        if k == "forr" and getattr(self, "unroll", 0) \
                and (s.get("v") or {}).get("n"):
            # exactly `unroll` iterations (an assumption of the caller): the
            # loop variable is an opaque per-iteration object and "__iter"
            # lets the domain key its atoms per iteration
            var = s["v"]["n"]
            cur, done = states, []
            for i in range(self.unroll):
                nxt = []
                for st in cur:
                    st = st.copy()
                    st.env[var] = ("iter", s.get("l"), i)
                    st.env["__iter"] = st.env.get("__iter", ()) + (
                        (s.get("l"), i),)
                    nxt.append(st)
                res = self._block(s.get("b"), nxt, outs, fn, depth)
                cur = []
                for st in res:
                    st.env = dict(st.env)
                    st.env["__iter"] = st.env["__iter"][:-1]
                    if st.flow == "break":
                        st.flow = None
                        done.append(st)
                    else:
                        st.flow = None
                        cur.append(st)
            return done + cur
        if k in ("break", "continue") and getattr(self, "unroll", 0):
            res = []
            for st in states:
                st = st.copy()
                st.flow = k
                res.append(st)
            return res
        if k in ("for", "while", "forr", "do", "switch", "try", "goto",
                 "label"):
            # not interpreted: everything after is indefinite; returns
            # inside are collected as indefinite outcomes
            ind = [st.extend("<%s>" % k, True, False) for st in states]
            inner = self._block(s.get("b"), [x.copy() for x in ind], outs,
                                fn, depth)
            return ind + [x for x in inner]
        if k in ("break", "continue"):
            return states
        if k in ("case", "default"):
            return self._block(s.get("b"), states, outs, fn, depth)
        return states


class Lazy:
    """unevaluated initialiser (atoms over it are asked later)"""
    __slots__ = ("expr", "env")

    def __init__(self, expr, env):
        self.expr = expr
        self.env = env

    def __repr__(self):
        return "lazy(%s)" % show(self.expr)[:40]


class State:
    __slots__ = ("env", "definite", "path", "flow")

    def __init__(self, env, definite, path, flow=None):
        self.env = env
        self.definite = definite
        self.path = path
        self.flow = flow            # None | 'break' | 'continue' (only set
                                    # inside an unrolled loop)

    def extend(self, txt, pol, definite):
        return State(self.env, self.definite and definite,
                     self.path + [(txt, pol)], self.flow)

    def copy(self):
        return State(dict(self.env), self.definite, list(self.path),
                     self.flow)
