"""C39 — structural queries are accurate.

R39.1 get_args() exposes every child: for every concrete Basic class each
      data member holding sub-expressions (RCP<const T>, or a container of
      them) is read by the class's final get_args() overrider.  The generic
      queries (free_symbols, has_symbol, atoms, function_symbols) see exactly
      get_args().
R39.2 the generic traversals enumerate children through get_args() and
      recurse on each of them.
R39.3 binder agreement: a class for which FreeSymbolsVisitor has a dedicated
      (binding-aware) handler needs one in HasSymbolVisitor too, otherwise
      has_symbol and free_symbols disagree on its bound variables.
R39.4 definite assignment of the result member in every reachable handler of
      CoeffVisitor (the visitor object is reused across the terms of a sum).
"""
import re

from selib import sym
from selib.program import walk, show, short, strip_type
from selib.visitors import Visitors, MustAssign
from selib.build import AnalysisBroken

BASIC = "SymEngine::Basic"
SKIP_DECL = {BASIC, "SymEngine::EnableRCPFromThis<SymEngine::Basic>"}
# opaque atoms by design: get_args() is empty although the object stores its
# generator(s); outside the property's quantifier ("functions, derivatives,
# substitutions and sets")
OPAQUE = {
    "SymEngine::UIntPoly": "univariate polynomial: an atom whose generator "
                           "is not exposed as an argument (by design)",
    "SymEngine::URatPoly": "as UIntPoly",
    "SymEngine::UExprPoly": "as UIntPoly",
    "SymEngine::MIntPoly": "multivariate polynomial: as UIntPoly",
    "SymEngine::MExprPoly": "as MIntPoly",
}
TRAVERSALS = ["SymEngine::preorder_traversal", "SymEngine::postorder_traversal",
              "SymEngine::preorder_traversal_stop",
              "SymEngine::postorder_traversal_stop"]
LEAF_HANDLERS = {"SymEngine::Symbol", "SymEngine::FunctionSymbol",
                 "SymEngine::Basic"}


def holds_children(t):
    t = (t or "").replace(" ", "")
    return bool(re.search(r"RCP<const(SymEngine::)?\w+", t))


def run(loader, R, tier):
    prog = loader()
    P = sym.Paths(prog)
    V = Visitors(prog)
    R.explanation = (
        "R39.1 joins, for each of the concrete expression classes, the data "
        "members whose type holds sub-expressions with the members read "
        "(through accessors and helper methods) by the final get_args() "
        "overrider: a member that is not exposed is invisible to "
        "free_symbols / has_symbol / atoms / function_symbols, which only "
        "walk get_args(). R39.2 checks that the four generic traversals "
        "call get_args() and recurse. R39.3 compares the dispatch tables of "
        "FreeSymbolsVisitor and HasSymbolVisitor for binding-aware handlers. "
        "R39.4 is definite assignment for CoeffVisitor. Decides completeness "
        "of the child enumeration and agreement on binders; does not decide "
        "the bound-variable arithmetic inside the Subs handler nor that "
        "coeff() reconstructs a polynomial.")
    for rid, t in (("R39.1", "get_args() reads every child-holding member"),
                   ("R39.2", "generic traversals enumerate get_args() and "
                             "recurse"),
                   ("R39.3", "binding-aware handlers agree between "
                             "free_symbols and has_symbol"),
                   ("R39.4", "CoeffVisitor result definitely assigned")):
        R.rule(rid, t)
    for c, why in OPAQUE.items():
        R.exception(c, "R39.1: " + why)

    # ---------------------------------------------------------------- R39.1
    n1 = 0
    for cls in prog.concrete_subclasses(BASIC, include_self=False):
        flds = [(c, f) for c, f in prog.fields(cls)
                if c not in SKIP_DECL and holds_children(f["t"])]
        if not flds:
            continue
        u = prog.find_method(cls, "get_args", 0)
        f = prog.functions.get(u) if u else None
        if f is None:
            raise AnalysisBroken("%s: get_args() has no body" % cls)
        env = {}
        for x in walk(f["body"]):
            if x.get("k") == "decl":
                sym.bind_locals(x, P, env)
        rd = {r[1][0] for r in P.reads(f["body"], env)
              if r[0] == "this" and r[1]}
        for x in walk(f["body"]):
            if x.get("k") == "mcall" and (x.get("o") or {}).get("k") \
                    == "this" and x.get("u") in prog.functions:
                g = prog.functions[x["u"]]
                rd |= {r[1][0] for r in P.reads(g["body"], {})
                       if r[0] == "this" and r[1]}
        n1 += 1
        missing = [fd["n"] for c, fd in flds if fd["n"] not in rd]
        R.instance("R39.1", short(cls), sample={
            "class": short(cls), "child_members": [fd["n"] for _, fd in flds],
            "get_args": short(f["qn"])})
        if missing and cls not in OPAQUE:
            R.violation(
                "R39.1", short(cls), prog.loc(f),
                "%s stores sub-expressions in member(s) %s that %s does not "
                "return: symbols and atoms inside them are invisible to "
                "free_symbols/has_symbol/atoms/function_symbols" % (
                    short(cls), missing, short(f["qn"])))
    R.floor("classes with child-holding members", n1, 80)

    # ---------------------------------------------------------------- R39.2
    for qn in TRAVERSALS:
        fs = prog.fn_by_qn(qn)
        if not fs:
            raise AnalysisBroken("traversal %s vanished" % qn)
        for f in fs:
            names = [n.get("n") for n in walk(f["body"])
                     if n.get("k") in ("call", "mcall")]
            loops = [n for n in walk(f["body"]) if n.get("k") in (
                "for", "forr", "while")]
            rec_in_loop = any(
                x.get("k") == "call" and x.get("u") == f["u"]
                for lp in loops for x in walk(lp))
            ok = "get_args" in names and "accept" in names and rec_in_loop
            R.instance("R39.2", short(qn), sample={"calls": names[:6],
                                                   "recurses_in_loop":
                                                   rec_in_loop})
            if not ok:
                R.violation(
                    "R39.2", short(qn), prog.loc(f),
                    "%s does not visit the node, enumerate get_args() and "
                    "recurse on every argument (calls: %s)" % (short(qn),
                                                               names[:6]))

    # ---------------------------------------------------------------- R39.3
    FS, HS = "SymEngine::FreeSymbolsVisitor", "SymEngine::HasSymbolVisitor"
    for v in (FS, HS):
        if v not in V.table:
            raise AnalysisBroken("visitor %s has no dispatch table" % v)

    def dedicated(v):
        out = {}
        for h, Xs in V.by_handler(v).items():
            f = prog.functions.get(h)
            if f and f.get("params"):
                pt = strip_type(f["params"][0]["t"])
                if pt not in LEAF_HANDLERS:
                    out[pt] = f
        return out
    dfs, dhs = dedicated(FS), dedicated(HS)
    R.instance("R39.3", "dispatch tables", sample={
        "free_symbols_dedicated": sorted(short(x) for x in dfs),
        "has_symbol_dedicated": sorted(short(x) for x in dhs)})
    def binds(f):
        """a binding-aware handler removes symbols from its result or asks
        the node for its bound variables"""
        return any((n.get("k") == "mcall" and n.get("n") in (
            "erase", "get_variables", "get_symbols"))
            for n in walk(f["body"]))
    for X, f in sorted(dfs.items()):
        if not binds(f):
            continue        # a traversal fast path, judged by R39.6
        R.instance("R39.3", short(X))
        if X not in dhs:
            R.violation(
                "R39.3", short(X), prog.loc(f),
                "FreeSymbolsVisitor treats %s specially (bound variables) "
                "but HasSymbolVisitor walks it like any node: has_symbol "
                "reports a symbol that free_symbols does not contain" %
                short(X))
    if not dfs:
        raise AnalysisBroken("FreeSymbolsVisitor has no binding-aware "
                             "handler any more")
    # a binding-aware handler removes the bound variables from what the body
    # contributes; the body must therefore be traversed in isolation (a
    # fresh visitor / the free function), not through *this: the visitor's
    # visited-subexpression cache is shared state, and marking the bound
    # occurrences as visited hides later free occurrences of the same
    # symbol or sub-tree
    fields = {fd["n"] for _, fd in prog.fields(FS)}
    for X, f in sorted(dfs.items()):
        # only erasures from the visitor's own (shared) result member: a
        # local set filled by an isolated traversal is the accepted idiom
        erases = [n for n in walk(f["body"]) if n.get("k") == "mcall"
                  and n.get("n") == "erase"
                  and (n.get("o") or {}).get("k") == "mem"
                  and ((n["o"].get("o") or {}).get("k") in (None, "this"))]
        if not erases:
            continue
        R.instance("R39.3", "isolation:" + short(X))
        for n in walk(f["body"]):
            if n.get("k") == "mcall" and n.get("n") in ("accept", "apply"):
                args = n.get("a", ())
                through_this = (n.get("n") == "apply" and (
                    n.get("o") or {}).get("k") == "this") or any(
                    y.get("k") == "this" for a in args for y in walk(a))
                if through_this:
                    R.violation(
                        "R39.3", "isolation:" + short(X),
                        prog.loc(f, n.get("l")),
                        "FreeSymbolsVisitor::bvisit(%s) removes bound "
                        "variables from its result but traverses the bound "
                        "body through *this (`%s`): the shared visited-"
                        "cache then hides free occurrences of the same "
                        "symbols outside the binder" % (short(X),
                                                        show(n)[:50]))

    # ---------------------------------------------------------------- R39.8
    # binder classes (frozen table, each read in the source): the node binds
    # one of its own children as a variable.  free_symbols must have a
    # binding-aware handler for each (R39.3 then demands one in has_symbol)
    R.rule("R39.8", "every binder class has a binding-aware free_symbols "
                    "handler")
    BINDERS = {"SymEngine::Subs": "substituted variables",
               "SymEngine::ConditionSet": "{sym | condition}",
               "SymEngine::ImageSet": "{expr | sym in base}"}
    for X, why in sorted(BINDERS.items()):
        if X not in prog.classes:
            raise AnalysisBroken("binder class %s vanished" % X)
        f = dfs.get(X)
        ok = f is not None and binds(f)
        R.instance("R39.8", short(X), sample={"class": short(X),
                                              "binds": why,
                                              "binding_aware_handler": ok})
        if not ok:
            R.violation(
                "R39.8", short(X), prog.loc(
                    prog.functions[prog.find_method(FS, "apply")]),
                "%s binds a variable (%s) but FreeSymbolsVisitor has no "
                "binding-aware handler for it: the bound variable is "
                "reported as a free symbol" % (short(X), why))

    # ---------------------------------------------------------------- R39.7
    # the needle classes: coeff() admits a Symbol or a FunctionSymbol as the
    # generator and asks has_symbol about it; HasSymbolVisitor must compare
    # the needle at every class coeff() admits (FunctionSymbol is not a
    # subclass of Symbol, so the Symbol handler does not cover it)
    R.rule("R39.7", "has_symbol compares the needle at every class that "
                    "coeff() admits as a generator")
    cf = [f for f in prog.fn_by_qn("SymEngine::coeff")
          if len(f.get("params", ())) == 3]
    if len(cf) != 1:
        raise AnalysisBroken("coeff(b, x, n) not found")
    admitted = set()
    for n in walk(cf[0]["body"]):
        if n.get("k") == "call" and n.get("n") == "is_a" and n.get("ta") \
                and n.get("a") and any(
                    y.get("k") == "ref" and y.get("d") == "param"
                    and y.get("n") == cf[0]["params"][1]["n"]
                    for y in walk(n["a"][0])):
            admitted.add(strip_type(n["ta"][0]))
    if not admitted:
        raise AnalysisBroken("coeff(): no admitted generator classes found")
    for X in sorted(admitted):
        h = V.handlers(HS).get(X)
        f = prog.functions.get(h) if h else None
        compares = f is not None and any(
            n.get("k") in ("call", "mcall") and n.get("n") in ("eq",
                                                               "__eq__")
            for n in walk(f["body"]))
        R.instance("R39.7", short(X), sample={
            "class": short(X), "handler": short(f["qn"]) + "(" + short(
                f["params"][0]["t"]) + ")" if f else None,
            "compares_needle": compares})
        if not compares:
            R.violation(
                "R39.7", short(X), prog.loc(f) if f else prog.loc(cf[0]),
                "coeff() admits a %s as generator, but the handler "
                "HasSymbolVisitor uses for a %s never compares it with the "
                "needle: has_symbol(e, %s) is false for every e, and "
                "coeff(e, %s, 0) returns terms that contain the generator"
                % (short(X), short(X), short(X).lower(),
                   short(X).lower()))

    # ---------------------------------------------------------------- R39.6
    # dedicated traversal handlers of FreeSymbolsVisitor (fast paths that
    # walk a dictionary instead of get_args()): every child is visited, and
    # the visited-cache test that guards a child's visit is about that very
    # child (an exponent skipped because its *base* was seen before loses
    # the exponent's symbols)
    R.rule("R39.6", "a dedicated free_symbols handler visits every child, "
                    "each under a cache test about that child only")
    from selib import sym as _sym6
    child_members = {}
    for cls in prog.concrete_subclasses(BASIC, include_self=False):
        def symbolic(t):
            # members that hold numbers only cannot contain symbols
            m = re.search(r"RCP<const\s*(SymEngine::)?(\w+)", t or "")
            return not (m and prog.derives("SymEngine::" + m.group(2),
                                           "SymEngine::Number"))
        child_members[cls] = [fd["n"] for c_, fd in prog.fields(cls)
                              if c_ not in SKIP_DECL
                              and holds_children(fd["t"])
                              and symbolic(fd["t"])]
    n6 = 0
    for X, f in sorted(dfs.items()):
        if binds(f):
            continue
        n6 += 1
        key = "FreeSymbolsVisitor::bvisit(%s)" % short(X)
        accepts = [n for n in walk(f["body"]) if n.get("k") == "mcall"
                   and n.get("n") in ("accept", "apply")]
        has_children = any(child_members.get(c) for c in
                           prog.concrete_subclasses(X, include_self=True))
        R.instance("R39.6", key, sample={"handler": key,
                                         "child_visits": len(accepts)})
        if has_children and not accepts and "get_args" not in show(
                f["body"]):
            R.violation(
                "R39.6", key, prog.loc(f),
                "%s visits none of the children of a %s: their symbols are "
                "missing from free_symbols" % (key, short(X)))
            continue
        # iterators bound to v.insert(<child>)
        ins = {}
        for d in walk(f["body"]):
            if d.get("k") == "decl":
                for v_ in d.get("v", ()):
                    i = v_.get("i")
                    while i is not None and i.get("k") in ("cast", "ctor") \
                            and len(i.get("a", ())) == 1:
                        i = i["a"][0]
                    if i is not None and i.get("k") == "mcall" \
                            and i.get("n") == "insert" and i.get("a"):
                        ins[v_["n"]] = show(i["a"][0]).replace(
                            "->rcp_from_this()", "").replace(
                            ".rcp_from_this()", "").strip("*() ")

        def cb6(n, guards, line, f=f, key=key, ins=ins):
            if not (n.get("k") == "mcall" and n.get("n") == "accept"):
                return
            child = show(n.get("o") or {}).replace("->", "").strip("*() ")
            for g in _sym6.flatten_guards(guards):
                if g[0] == "case":
                    continue
                for y in walk(g[0]):
                    if y.get("k") == "ref" and y.get("n") in ins:
                        other = ins[y["n"]].replace("->", "")
                        if other and other != child:
                            R.violation(
                                "R39.6", key, prog.loc(f, n.get("l")),
                                "%s visits `%s` only if `%s` had not been "
                                "seen before: when the same %s occurs a "
                                "second time, `%s` is skipped and its "
                                "symbols are missing from free_symbols" % (
                                    key, child, other, other, child))
                            return
        _sym6.visit_guarded(f["body"], cb6)
    R.info["dedicated_traversal_handlers"] = n6

    # ---------------------------------------------------------------- R39.4
    CV = "SymEngine::CoeffVisitor"
    if CV not in V.table:
        raise AnalysisBroken("CoeffVisitor has no dispatch table")
    MA = MustAssign(prog, "coeff_")
    nh = 0
    for h, Xs in sorted(V.by_handler(CV).items()):
        f = prog.functions.get(h)
        if f is None:
            raise AnalysisBroken("handler without body: " + prog.name_of(h))
        nh += 1
        key = "CoeffVisitor::bvisit(%s)" % short(f["params"][0]["t"])
        R.instance("R39.4", key)
        bad = MA.unassigned_exits(f)
        if bad:
            R.violation(
                "R39.4", key, prog.loc(f, bad[0] if bad[0] != "end" else None),
                "%s (reached for %s) can finish without assigning coeff_: "
                "the visitor is reused for every term of a sum, so the "
                "coefficient of the previous term is added again" % (
                    key, ", ".join(short(x) for x in Xs[:4])))
    R.floor("CoeffVisitor handlers", nh, 5)

    stop_protocol(prog, R)


def stop_protocol(prog, R):
    """R39.5: `stop_ = true` in a StopVisitor aborts the whole traversal (not
    just the current subtree), so it may only be set once the answer no
    longer depends on the nodes that have not been visited: on the way to
    every `stop_ = true` the handler has assigned the result member."""
    R.rule("R39.5", "a stop visitor aborts the traversal only after "
                    "assigning its answer")
    STOP = "SymEngine::StopVisitor"
    nst = 0
    for cls in sorted(prog.classes):
        if cls == STOP or not prog.derives(cls, STOP) \
                or cls.startswith("SymEngine::BaseVisitor<"):
            continue
        u = prog.find_method(cls, "apply")
        af = prog.functions.get(u) if u else None
        if af is None or not af.get("body"):
            continue
        mem = None
        for n in walk(af["body"]):
            if n.get("k") == "return" and n.get("e"):
                e = n["e"]
                while e.get("k") in ("cast", "ctor") and len(
                        e.get("a", ())) == 1:
                    e = e["a"][0]
                if e.get("k") == "mem" and (e.get("o") or {}).get("k") \
                        == "this":
                    mem = e["m"]
        if not mem:
            continue

        def assigns(st, name):
            e = st.get("e") if st.get("k") == "expr" else None
            return bool(e and e.get("k") in ("bin", "op")
                        and e.get("op") == "=" and e.get("a")
                        and e["a"][0].get("k") == "mem"
                        and e["a"][0].get("m") == name)

        def scan(stmts, have, f):
            nonlocal nst
            for st in stmts:
                if assigns(st, mem):
                    have = True
                elif assigns(st, "stop_"):
                    rhs = st["e"]["a"][1]
                    if rhs.get("k") == "lit" and str(rhs.get("v")).lower() \
                            in ("true", "1"):
                        nst += 1
                        key = "%s::%s(%s)" % (short(cls), f["n"], short(
                            f["params"][0]["t"]) if f.get("params") else "")
                        R.instance("R39.5", key + "@%s" % st.get("l"))
                        if not have:
                            R.violation(
                                "R39.5", key, prog.loc(f, st.get("l")),
                                "%s sets stop_ = true on a path where it "
                                "has not assigned `%s`: the flag aborts the "
                                "whole pre-order traversal, so every node "
                                "after this one is skipped and the answer "
                                "is the one left by the nodes visited so "
                                "far" % (key, mem))
                elif st.get("k") == "{}":
                    scan(st.get("s", ()), have, f)
                elif st.get("k") in ("if", "for", "forr", "while", "do"):
                    for part in ("t", "e", "b"):
                        b = st.get(part)
                        if b:
                            scan(b.get("s", [b]) if b.get("k") == "{}"
                                 else [b], have, f)
        for fu in prog.by_class.get(cls, ()):
            f = prog.functions[fu]
            if f["n"] in ("bvisit", "visit") and f.get("body") \
                    and not f.get("dependent"):
                scan(f["body"].get("s", ()), False, f)
    R.floor("stop_ = true sites in stop visitors", nst, 5)


MANIFEST = dict(
    technique="table join between child-holding data members and the "
              "members read by each class's get_args() (access-path "
              "footprint), callee/recursion check of the generic traversals, "
              "sibling dispatch-table agreement, definite assignment",
    text="Decides for every expression class that get_args() exposes every "
         "member that holds sub-expressions — the necessary condition for "
         "free_symbols, has_symbol, atoms and function_symbols (which only "
         "walk get_args()) to see every occurrence; that the generic "
         "traversals enumerate get_args() and recurse; that has_symbol "
         "treats binders like free_symbols does; and that CoeffVisitor "
         "assigns its result in every handler. Does not decide the "
         "bound-variable set arithmetic nor that coeff() reconstructs the "
         "polynomial.",
    note="Polynomial classes are opaque atoms by design (named exemptions).",
    ref="§2 C39",
)
