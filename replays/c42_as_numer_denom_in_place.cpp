// C42: basic_as_numer_denom with the numerator handle aliasing the input
#include <symengine/cwrapper.h>
#include <stdio.h>
#include <string.h>
int main(){
    basic r, d;
    basic_new_stack(r); basic_new_stack(d);
    rational_set_si(r, 3, 4);                 /* r is the only owner of 3/4 */
    CWRAPPER_OUTPUT_TYPE rc = basic_as_numer_denom(r, d, r);   /* in place */
    char *n = basic_str(r), *m = basic_str(d);
    printf("rc=%d numer=%s denom=%s  (expected 3 and 4)\n", (int)rc, n, m);
    int ok = strcmp(n, "3") == 0 && strcmp(m, "4") == 0;
    basic_str_free(n); basic_str_free(m);
    return ok ? 0 : 1;
}
