#include <symengine/cwrapper.h>
#include <cstdio>
#include <unistd.h>
#include <sys/wait.h>
#include <functional>
static int run(const char *name, std::function<int()> f)
{
    fflush(stdout);
    pid_t p = fork();
    if (p == 0) { int rc = f(); printf("%-44s returned code %d\n", name, rc); fflush(stdout); _exit(0); }
    int st; waitpid(p, &st, 0);
    if (WIFSIGNALED(st)) { printf("%-44s killed by signal %d\n", name, WTERMSIG(st)); return 1; }
    return 0;
}
int main()
{
    int bad = 0;
    bad += run("vecbasic_get(v[1 element], 1000000)", [] {
        CVecBasic *v = vecbasic_new(); basic x, r; basic_new_stack(x); basic_new_stack(r); symbol_set(x, "x");
        vecbasic_push_back(v, x);
        int rc = vecbasic_get(v, 1000000, r);
        if (rc == 0) { char *s = basic_str(r); (void)s; } return rc; });
    bad += run("vecbasic_erase(v[1 element], 7)", [] {
        CVecBasic *v = vecbasic_new(); basic x; basic_new_stack(x); symbol_set(x, "x");
        vecbasic_push_back(v, x);
        return (int)vecbasic_erase(v, 7); });
    bad += run("dense_matrix_get_basic(2x2, 5, 5)", [] {
        CDenseMatrix *m = dense_matrix_new_rows_cols(2, 2); basic z, r; basic_new_stack(z); basic_new_stack(r); integer_set_si(z, 0);
        for (int i = 0; i < 2; i++) for (int j = 0; j < 2; j++) dense_matrix_set_basic(m, i, j, z);
        int rc = dense_matrix_get_basic(r, m, 500000, 500000);
        if (rc == 0) { char *s = basic_str(r); (void)s; } return rc; });
    return bad;
}
