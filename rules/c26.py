"""C26 — matrix predicates are sound (protocol clauses only).

R26.1 definite assignment: every handler of every visitor under
      symengine/matrices/ (the eight tribool predicates, size, trace,
      transpose, conjugate) that is reachable from the static parameter type
      of the visitor's apply() assigns the result member on every
      non-throwing path.  A path that leaves it untouched returns the answer
      of a previously visited operand as the answer for this node.
R26.2 Kleene monotonicity: each predicate handler, interpreted under every
      assignment of true/false/indeterminate to its three-valued sub-answers
      (loops over the operands unrolled once and twice), never turns an
      indeterminate sub-answer into a definite answer that differs from the
      one it gives when the sub-answer is known.
R26.3 a scalar coefficient folded over the operands of a matrix factory
      (`scalar = mul(scalar, ...)`) is never overwritten inside the loop.
R26.4 every result returned after the fold carries that coefficient, unless
      the path establishes it to be neutral or the result to be a zero matrix.
The rest of the value-preservation half of the property (entries of matrix
add/mul/Hadamard/transpose/trace against the dense computation, sizes of
absorbed products) and the merge rules are not decided.
"""
from selib.program import walk, show, short, strip_type
from selib.visitors import Visitors, MustAssign
from selib.build import AnalysisBroken
from rules.c34 import result_member


def run(loader, R, tier):
    prog = loader()
    V = Visitors(prog)
    from selib import tri
    R.explanation = (
        "Visitor classes defined under symengine/matrices/ are taken from "
        "the resolved dispatch tables.  R26.1 is a definite-assignment "
        "analysis of the result member over every reachable handler.  R26.2 "
        "interprets every tribool handler (engine E3 with bounded loop "
        "unrolling, selib/tri.py) under all assignments of its three-valued "
        "sub-answers and checks monotonicity in the information order.  Both "
        "are necessary conditions of 'a predicate never gives an answer "
        "contradicted by the concrete matrix'; they do not use matrix "
        "values, so they do not decide that a definite answer is the right "
        "one.  R26.3/R26.4 are the structural part of the value clause that "
        "is visible in the code: the scalar coefficient of a product is "
        "folded, never overwritten, and reaches every result; the entries "
        "themselves are not decided.")
    R.rule("R26.1", "result definitely assigned in every reachable handler "
                    "of the matrix visitors")
    R.rule("R26.2", "matrix predicate handlers are monotone in their "
                    "three-valued sub-answers")
    nvis = nh = nmono = 0
    for vis in V.visitors():
        if "/matrices/" not in (prog.classes.get(vis, {}).get("file") or ""):
            continue
        mem, applyf, pre = result_member(prog, V, vis)
        if not mem or applyf is None:
            continue
        nvis += 1
        is_tri = strip_type(applyf.get("ret", "")) == "SymEngine::tribool"
        pcls = strip_type(applyf["params"][0]["t"]) if applyf.get(
            "params") else "SymEngine::Basic"
        MA = MustAssign(prog, mem)
        own = short(vis)
        for h, Xs in sorted(V.by_handler(vis).items()):
            reach = [x for x in Xs if prog.derives(x, pcls)]
            f = prog.functions.get(h)
            if not reach or f is None or not f.get("params"):
                continue
            nh += 1
            key = "%s::bvisit(%s)" % (short(vis), short(f["params"][0]["t"]))
            R.instance("R26.1", key, sample={"handler": key, "member": mem,
                                             "reachable_classes": len(reach)})
            bad = MA.unassigned_exits(f)
            if bad and not pre:
                R.violation(
                    "R26.1", key, prog.loc(f, bad[0] if bad[0] != "end"
                                           else None),
                    "%s (reached for %s) can finish without assigning `%s`: "
                    "apply() then returns what a previously visited operand "
                    "left there" % (key, ", ".join(short(x)
                                                   for x in reach[:3]), mem))
            if not is_tri:
                continue
            for unroll in (1, 2):
                meta = {}
                lv = tri.leaves(prog, f, mem, limit=30000, unroll=unroll,
                                own=None, meta=meta)
                if lv is None:
                    R.undecided_obligation("R26.2", key, "explosion")
                    break
                ntri = max((len([k for k in a if k.startswith("tri:")])
                            for a, _o in lv), default=0)
                rs = [tri.result_of(o, mem) for _a, o in lv]
                if not ntri or not any(r in ("T", "F") for r in rs):
                    break
                if unroll == 1:
                    nmono += 1
                R.instance("R26.2", "%s/%d" % (key, unroll), sample={
                    "handler": key, "loop_iterations": unroll,
                    "sub_answers": ntri, "assignments": len(lv)})
                badm = tri.nonmonotone(lv, mem)
                for a, r, b, r2, k in badm[:1]:
                    names = {"T": "true", "F": "false", "I": "indeterminate"}
                    R.violation(
                        "R26.2", key, prog.loc(f),
                        "%s answers %s when the sub-query `%s` is %s but "
                        "the definite answer %s when that sub-query is "
                        "indeterminate: an unknown operand cannot support a "
                        "definite answer that differs from the one given "
                        "when the operand is known" % (
                            key, names[r], k[4:], names[a[k]], names[r2]))
                if badm or not any(n.get("k") == "forr"
                                   for n in walk(f["body"])):
                    break
    # ------------------------------------------------------ R26.3 / R26.4
    # scalar coefficients of the matrix factories: a local initialised with
    # the neutral element (one/zero) and folded in a loop over the operands
    # (`scalar = mul(scalar, ...)`) is the coefficient of the result.
    # R26.3: every assignment to it inside a loop is a fold (reads it) --
    # an overwrite loses the coefficient gathered from earlier operands.
    # R26.4: every return after the folding loop uses it, or is reached
    # only where it is established to be the neutral element, or returns an
    # operand established to be a ZeroMatrix (zero absorbs the coefficient).
    from selib import sym as _sym
    R.rule("R26.3", "a coefficient accumulated over the operands of a "
                    "matrix factory is only ever folded, never overwritten")
    R.rule("R26.4", "every result of a matrix factory carries the "
                    "accumulated coefficient unless it is neutral or "
                    "absorbed")
    LOOPS = ("forr", "for", "while", "do")
    nacc = 0
    for u, f in sorted(prog.functions.items(), key=lambda kv: kv[1]["qn"]):
        if "/symengine/matrices/" not in (f.get("file") or "") \
                or not f.get("body") or f.get("dependent") \
                or f.get("tk") == "pattern":
            continue
        accs = {}
        for d in walk(f["body"]):
            if d.get("k") != "decl":
                continue
            for v in d.get("v", ()):
                if "RCP<const SymEngine::Basic>" not in (v.get("t") or "") \
                        and "RCP<const SymEngine::Number>" not in (
                            v.get("t") or ""):
                    continue
                g = [x.get("q") for x in walk(v.get("i") or {})
                     if x.get("k") == "ref" and x.get("d") == "global"]
                if g and g[0] in ("SymEngine::one", "SymEngine::zero") \
                        and len(g) == 1:
                    accs[v["n"]] = (g[0], d.get("l"))
        for acc, (neutral, dl) in sorted(accs.items()):
            asg = []   # (line, reads_acc, loop_line)
            for lp in walk(f["body"]):
                if lp.get("k") not in LOOPS:
                    continue
                for n in walk(lp.get("b") or {}):
                    if n.get("k") == "op" and n.get("op") == "=" \
                            and len(n.get("a", ())) == 2 \
                            and n["a"][0].get("k") == "ref" \
                            and n["a"][0].get("n") == acc:
                        reads = any(x.get("k") == "ref" and x.get("n") == acc
                                    for x in walk(n["a"][1]))
                        asg.append((n.get("l"), reads, lp.get("l")))
            if not any(r for _, r, _ in asg):
                continue        # not a folded coefficient
            nacc += 1
            key = "%s:%s" % (short(f["qn"]), acc)
            R.instance("R26.3", key, sample={
                "neutral": neutral, "folds": [l for l, r, _ in asg if r],
                "overwrites": [l for l, r, _ in asg if not r]})
            for l, r, _ in asg:
                if not r:
                    R.violation(
                        "R26.3", key, prog.loc(f, l),
                        "%s assigns the coefficient `%s` inside the operand "
                        "loop from a value that does not contain its "
                        "previous value, although other branches fold it "
                        "(`%s = mul(%s, ...)`): the coefficient gathered "
                        "from the operands before this one is lost, e.g. "
                        "3*(2*A)*B becomes 2*A*B" % (
                            short(f["qn"]), acc, acc, acc))
            last_loop = max(ll for _, _, ll in asg)
            rets = {id(n["e"]): n for n in walk(f["body"])
                    if n.get("k") == "return" and n.get("e")
                    and (n.get("l") or 0) > last_loop}
            nret = [0]
            # locals computed from the coefficient carry it
            carriers = {acc}
            grew = True
            while grew:
                grew = False
                for d in walk(f["body"]):
                    if d.get("k") == "decl":
                        for v in d.get("v", ()):
                            if v["n"] not in carriers and any(
                                    x.get("k") == "ref"
                                    and x.get("n") in carriers
                                    for x in walk(v.get("i") or {})):
                                carriers.add(v["n"])
                                grew = True
                    elif d.get("k") == "op" and d.get("op") == "=" \
                            and len(d.get("a", ())) == 2 \
                            and d["a"][0].get("k") == "ref" \
                            and d["a"][0].get("n") not in carriers \
                            and any(x.get("k") == "ref"
                                    and x.get("n") in carriers
                                    for x in walk(d["a"][1])):
                        carriers.add(d["a"][0]["n"])
                        grew = True

            def cb4(n, guards, line, f=f, acc=acc, key=key, rets=rets,
                    neutral=neutral, nret=nret, carriers=carriers):
                if id(n) not in rets:
                    return
                nret[0] += 1
                if any(x.get("k") == "ref" and x.get("n") in carriers
                       for x in walk(n)):
                    return
                for g in _sym.flatten_guards(guards):
                    if len(g) != 2 or not isinstance(g[0], dict):
                        continue
                    c, pol = g
                    if c.get("k") == "call" and c.get("n") in ("eq", "neq") \
                            and (c["n"] == "eq") == bool(pol) \
                            and any(x.get("k") == "ref" and x.get("n") == acc
                                    for x in walk(c)) \
                            and any(x.get("k") == "ref"
                                    and x.get("q") == neutral
                                    for x in walk(c)):
                        return
                    if c.get("k") == "call" and c.get("n") == "is_a" and pol \
                            and any("ZeroMatrix" in t
                                    for t in c.get("ta", ())):
                        return
                R.violation(
                    "R26.4", "%s:return@%s" % (key, show(n)[:40]),
                    prog.loc(f, line),
                    "%s returns `%s` without the accumulated coefficient "
                    "`%s`, on a path that does not establish it to be %s "
                    "(nor the result to be a zero matrix): a scalar factor "
                    "of the product is dropped" % (
                        short(f["qn"]), show(n)[:50], acc,
                        neutral.split("::")[-1]))
            _sym.visit_guarded(f["body"], cb4)
            R.instance("R26.4", key, sample={"returns_after_fold": nret[0]})
    R.floor("folded coefficients in the matrix factories", nacc, 1)

    R.floor("matrix visitors", nvis, 10)
    R.floor("reachable matrix handlers", nh, 60)
    R.floor("matrix handlers combining three-valued sub-answers", nmono, 8)


MANIFEST = dict(
    technique="definite-assignment analysis over the resolved (visitor, "
              "class) dispatch table + finite-domain abstract interpretation "
              "of the predicate handlers with bounded loop unrolling (Kleene "
              "monotonicity)",
    text="Decides two necessary conditions of the predicate-soundness clause "
         "for all matrix-expression trees: every reachable handler of the "
         "eleven visitors under symengine/matrices/ assigns its result on "
         "all non-throwing paths (no stale answer of a previous operand), "
         "and every tribool predicate handler is monotone in its "
         "three-valued sub-answers (an indeterminate operand never yields a "
         "definite answer that differs from the one given when the operand "
         "is known). Of the value clause it decides one structural part: "
         "the scalar coefficient a matrix factory folds over its operands "
         "is never overwritten inside the operand loop (R26.3) and every "
         "result returned after the fold carries it unless it is "
         "established to be neutral or the result is a zero matrix (R26.4). "
         "Does not decide that a definite answer agrees with the concrete "
         "matrix, nor the rest of the value-preservation clause (entries of "
         "matrix add/mul/Hadamard/transpose/trace against the dense "
         "computation, sizes of absorbed products), nor the merge rules.",
    note="The same two analyses run over the scalar query visitors under "
         "C34 (R34.2, R34.5).",
    ref="§17 C26 (claimed late in the build phase)",
)
