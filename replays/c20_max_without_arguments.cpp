#include <symengine/basic.h>
#include <symengine/functions.h>
#include <symengine/eval_double.h>
#include <symengine/symengine_config.h>
#include <iostream>
using namespace SymEngine;
int main(){
  std::string s; s.push_back(1);
  uint16_t a=SYMENGINE_MAJOR_VERSION,b=SYMENGINE_MINOR_VERSION;
  s.append((char*)&a,2); s.append((char*)&b,2);
  uint64_t addr=5; s.append((char*)&addr,8); s.push_back(1); s.push_back((char)SYMENGINE_MAX);
  uint64_t n=0; s.append((char*)&n,8);
  try { auto e=Basic::loads(s); std::cout<<e->__str__()<<std::endl; std::cout<<eval_double(*e)<<std::endl; }
  catch(SymEngineException&ex){std::cout<<"lib exc "<<ex.what()<<std::endl;}
  return 0; }
