// which node classes misbehave when built from an empty container (as the
// archive loaders build them, without validation)?
#include <symengine/basic.h>
#include <symengine/add.h>
#include <symengine/mul.h>
#include <symengine/logic.h>
#include <symengine/sets.h>
#include <symengine/functions.h>
#include <symengine/symbol.h>
#include <symengine/eval_double.h>
#include <symengine/printers.h>
#include <symengine/derivative.h>
#include <symengine/visitor.h>
#include <symengine/subs.h>
#include <symengine/assumptions.h>
#include <symengine/test_visitors.h>
#include <symengine/simplify.h>
#include <iostream>
#include <functional>
#include <unistd.h>
#include <sys/wait.h>
using namespace SymEngine;
void probe(const char *name, std::function<RCP<const Basic>()> mk){
    for (int op = 0; op < 14; op++) {
        pid_t p = fork();
        if (p == 0) {
            alarm(5);
            try {
                RCP<const Basic> e = mk();
                if (op == 0) (void)e->__str__();
                if (op == 1) (void)e->hash();
                if (op == 2) (void)e->__cmp__(*mk());
                if (op == 3) (void)latex(*e);
                if (op == 4) (void)eval_double(*e);
                if (op == 5) (void)e->diff(symbol("x"));
                if (op == 6) (void)expand(e);
                if (op == 7) (void)e->subs({{symbol("x"), integer(2)}});
                if (op == 8) (void)ccode(*e);
                if (op == 9) (void)mathml(*e);
                if (op == 10) (void)is_positive(*e);
                if (op == 11) (void)free_symbols(*e);
                if (op == 12) (void)simplify(e);
                if (op == 13) (void)unicode(*e);
            } catch (std::exception &ex) { _exit(2); }
            _exit(0);
        }
        int st; waitpid(p, &st, 0);
        const char *ops[] = {"str", "hash", "cmp", "latex","eval_double","diff","expand","subs","ccode","mathml","is_positive","free_symbols","simplify","unicode"};
        if (WIFSIGNALED(st)) std::cout << name << ": " << ops[op] << (WTERMSIG(st) == 14 ? " HANG, killed after 5 s, signal " : " SIGNAL ") << WTERMSIG(st) << std::endl;
        else if (WEXITSTATUS(st) == 2) std::cout << name << ": " << ops[op] << " exception\n";
    }
}
int main(){
    probe("And{}", []{ return make_rcp<const And>(set_boolean{}); });
    probe("Or{}", []{ return make_rcp<const Or>(set_boolean{}); });
    probe("Xor{}", []{ return make_rcp<const Xor>(vec_boolean{}); });
    probe("Piecewise{}", []{ return make_rcp<const Piecewise>(PiecewiseVec{}); });
    probe("Union{}", []{ return make_rcp<const Union>(set_set{}); });
    probe("FiniteSet{}", []{ return make_rcp<const FiniteSet>(set_basic{}); });
    probe("Max{}", []{ return make_rcp<const Max>(vec_basic{}); });
    probe("Min{}", []{ return make_rcp<const Min>(vec_basic{}); });
    probe("Mul{1,{}}", []{ return make_rcp<const Mul>(one, map_basic_basic{}); });
    probe("Add{0,{}}", []{ return make_rcp<const Add>(zero, umap_basic_num{}); });
    probe("Derivative{x,{}}", []{ return make_rcp<const Derivative>(symbol("x"), multiset_basic{}); });
    probe("Subs{x,{}}", []{ return make_rcp<const Subs>(symbol("x"), map_basic_basic{}); });
    probe("LeviCivita{}", []{ return make_rcp<const LeviCivita>(vec_basic{}); });
    probe("FunctionSymbol f()", []{ return make_rcp<const FunctionSymbol>("f", vec_basic{}); });
    probe("Tuple{}", []{ return make_rcp<const Tuple>(vec_basic{}); });
    probe("Intersection{}", []{ return make_rcp<const Intersection>(set_set{}); });
    std::cout << "done\n";
    return 0;
}
