#!/bin/sh
# usage: tools/mkmut.sh PROP name "expect line"   (takes the diff currently in /tmp/mut, stores it, resets /tmp/mut)
set -e
d=/verif/fixtures/mutants/$1
mkdir -p $d
{ echo "# expect: $3"; [ -n "$4" ] && echo "# note: $4"; git -C /tmp/mut diff; } > $d/$2.diff
git -C /tmp/mut checkout -q -- .
grep -c '^@@' $d/$2.diff
