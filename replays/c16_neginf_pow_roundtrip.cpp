#include <symengine/printers.h>
#include <symengine/parser.h>
#include <symengine/pow.h>
#include <symengine/mul.h>
#include <symengine/infinity.h>
#include <symengine/symbol.h>
#include <iostream>
using namespace SymEngine;
int main(){
    RCP<const Basic> x = symbol("x");
    int bad = 0;
    for (RCP<const Basic> e : {pow(NegInf, x), pow(Inf, x), pow(ComplexInf, x), mul(x, pow(NegInf, x))}) {
        std::string s = str(*e);
        RCP<const Basic> r = parse(s);
        bool ok = eq(*r, *e);
        std::cout << "str = " << s << "   parse(str) = " << str(*r) << "   round trip " << (ok ? "ok" : "FAILS") << "\n";
        bad += !ok;
    }
    return bad;
}
