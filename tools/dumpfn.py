#!/usr/bin/env python3
"""debug helper: ./tools/dumpfn.py <qualified-name-regex> — renders IR bodies"""
import re, sys, os
sys.path.insert(0, os.path.dirname(os.path.dirname(os.path.abspath(__file__))))
from selib.program import *

def pstmt(s,ind=0,out=print):
    pad='  '*ind
    if s is None: return
    k=s.get('k')
    if k=='{}':
        for x in s['s']: pstmt(x,ind,out)
    elif k=='if':
        out(pad+'if '+show(s['c'])+'   #'+str(s.get('l'))); pstmt(s['t'],ind+1,out)
        if s.get('e'): out(pad+'else'); pstmt(s['e'],ind+1,out)
    elif k=='return': out(pad+'return '+show(s.get('e'))+'   #'+str(s.get('l')))
    elif k=='expr': out(pad+show(s['e'])+'   #'+str(s.get('l')))
    elif k=='decl':
        for v in s['v']: out(pad+'decl '+v['n']+' : '+short(v['t'])+' = '+show(v.get('i')))
    elif k in('for','while','do'):
        out(pad+k+' '+show(s.get('c'))); pstmt(s['b'],ind+1,out)
    elif k=='forr':
        out(pad+'forr '+str(s['v'] and s['v']['n'])+' in '+show(s['r'])+' :: '+short(s['rt'])); pstmt(s['b'],ind+1,out)
    elif k=='switch':
        out(pad+'switch '+show(s['c'])); pstmt(s['b'],ind+1,out)
    elif k=='case':
        out(pad+'case '+show(s['v'])+':'); pstmt(s['b'],ind+1,out)
    elif k=='default':
        out(pad+'default:'); pstmt(s['b'],ind+1,out)
    elif k=='try':
        out(pad+'try'); pstmt(s['b'],ind+1,out)
        for h in s['h']:
            out(pad+'catch '+short(h['t'])); pstmt(h['b'],ind+1,out)
    else: out(pad+'<'+k+'>')

if __name__=='__main__':
    P=Program.load(sys.argv[2] if len(sys.argv)>2 else 'default')
    rx=re.compile(sys.argv[1])
    for u,f in P.functions.items():
        if rx.search(f['qn']):
            print('==',short(f['qn']),'(',', '.join(short(p['t'])+' '+p['n'] for p in f['params']),')',P.loc(f), f.get('tk',''))
            pstmt(f['body'],1)
