"""C05 — exact number arithmetic is normalised; division by zero is guarded.

R5.1 raw-rational sources: the only functions that write the numerator or
     denominator of a rational_class in place (bypassing canonicalisation)
     are a frozen, reasoned table; the backend's two-integer constructor
     canonicalises.
R5.2 demotion guards: every Rational is constructed under `den != 1`, every
     Complex under `im != 0`.
R5.3 zero-divisor guards: every division by an integer_class/rational_class
     value in Integer/Rational/Complex members, and every two-argument
     rational construction anywhere, is dominated by a zero test of the
     divisor whose zero edge leaves; in the number classes the zero edge
     returns Nan or ComplexInf.
"""
from selib import sym
from selib.program import walk, show, short, strip_type
from selib.build import AnalysisBroken

MPZ = {"SymEngine::mpz_wrapper"}
MPQ = {"SymEngine::mpq_wrapper"}
NUMCLS = ("SymEngine::Integer", "SymEngine::Rational", "SymEngine::Complex")

# functions allowed to write num/den of a rational in place, with the reason
# the result is canonical (confirmed by reading; frozen instances)
RAW_WRITERS = {
    "SymEngine::Rational::powrat":
        "num**e / den**e of a canonical rational is in lowest terms with "
        "positive denominator",
    "SymEngine::Rational::nth_root":
        "exact n-th roots of coprime num/den are coprime; root(den) > 1 "
        "because a Rational never has den == 1",
    "SymEngine::harmonic":
        "1/i**m: numerator 1, positive denominator",
    "SymEngine::trig_simplify":
        "numerator replaced by a mod b: gcd(a mod b, b) = gcd(a, b) = 1",
    "SymEngine::get_num": "accessor itself",
    "SymEngine::get_den": "accessor itself",
}
# two-argument rational constructions whose denominator is non-zero for a
# reason that is not a dominating test (one named site each)
NONZERO_DEN = {
    "SymEngine::bernoulli": "denominator m + 1 with unsigned m",
    "SymEngine::harmonic": "denominator is the loop index starting at 1",
    "SymEngine::Rational::rpowrat":
        "denominator is get_den(i) of a canonical rational (> 0)",
    "SymEngine::Rational::powrat":
        "divisor val = i**e of a non-zero canonical rational",
    "SymEngine::polygamma":
        "den is 2, 3 or 4: every other value left through the else-if "
        "chain above the construction",
}
DIV_NONZERO = {
    "SymEngine::Rational::powrat":
        "1 / val where val = i**e and a Rational is never zero",
}


def names_in(e):
    out = set()
    for n in walk(e):
        if n.get("k") == "ref":
            out.add(n["n"])
        elif n.get("k") == "mem":
            o = n.get("o") or {}
            if o.get("k") == "this":
                out.add("this." + n["m"])
            # other.i : name of base comes from the ref below
        elif n.get("k") == "this":
            out.add("this")
    return out


def is_zero_lit(e):
    if e is None:
        return False
    if e.get("k") == "lit" and str(e.get("v")) in ("0", "0.0"):
        return True
    if e.get("k") == "ctor" and len(e.get("a", ())) == 1:
        return is_zero_lit(e["a"][0])
    if e.get("k") == "cast":
        return is_zero_lit(e["a"][0])
    return False


def nonzero_literal(e):
    """expression is a non-zero constant (literal, ctor of one, *one ...)"""
    if e is None:
        return False
    k = e.get("k")
    if k == "lit":
        return str(e.get("v")) not in ("0", "0.0")
    if k in ("ctor", "cast", "defarg") and len(e.get("a", ())) == 1:
        return nonzero_literal(e["a"][0])
    if k == "mcall" and e.get("n") == "as_integer_class":
        return nonzero_literal(e.get("o"))
    if k in ("un", "op") and e.get("op") == "*" and len(e.get("a", ())) == 1:
        return nonzero_literal(e["a"][0])
    if k == "call" and e.get("n") == "down_cast" and e.get("a"):
        return nonzero_literal(e["a"][0])
    if k == "ref" and e.get("d") == "global" and e.get("q") in (
            "SymEngine::one", "SymEngine::minus_one", "SymEngine::two"):
        return True
    return False


def zero_tests(facts):
    """[(names mentioned, polarity meaning 'is zero')] from guard facts"""
    out = []
    for g in facts:
        if g[0] == "case":
            continue
        c, pol = g
        k = c.get("k")
        if k in ("bin", "op") and c.get("op") in ("==", "!=") \
                and len(c.get("a", ())) == 2:
            a, b = c["a"]
            for x, y in ((a, b), (b, a)):
                if is_zero_lit(y):
                    iszero = pol if c["op"] == "==" else not pol
                    out.append((names_in(x), iszero))
        elif k == "mcall" and c.get("n") == "is_zero":
            out.append((names_in(c.get("o")), pol))
    return out


def divisor_names(e, f):
    """names the divisor expression depends on; locals are expanded through
    their initialisers once"""
    ns = names_in(e)
    more = set()
    for n in walk(f["body"]):
        if n.get("k") == "decl":
            for v in n.get("v", ()):
                if v["n"] in ns and v.get("i"):
                    more |= names_in(v["i"])
    return ns, more


def guarded_nonzero(e, guards, f):
    facts = sym.flatten_guards(guards)
    ns, _ = divisor_names(e, f)
    for names, iszero in zero_tests(facts):
        if not iszero and names & ns:
            return True
    return False


def zero_edge_returns(f, divisor_ns):
    """for number classes: the branch taken when the divisor is zero returns
    only Nan / ComplexInf.  Returns list of offending return lines."""
    bad = []

    def visit(s):
        if not isinstance(s, dict):
            return
        if s.get("k") == "if":
            zt = zero_tests([(s.get("c"), True)])
            for names, iszero in zt:
                if names & divisor_ns:
                    br = s.get("t") if iszero else s.get("e")
                    if br is not None:
                        for n in walk(br):
                            if n.get("k") == "return" and n.get("e"):
                                e = n["e"]
                                while e.get("k") in ("ctor", "cast") \
                                        and len(e.get("a", ())) == 1:
                                    e = e["a"][0]
                                if not (e.get("k") == "ref" and e.get("q") in
                                        ("SymEngine::Nan",
                                         "SymEngine::ComplexInf")):
                                    bad.append((n.get("l"), show(e)))
        for key in ("t", "e", "b"):
            visit(s.get(key))
        for x in s.get("s", []) if isinstance(s.get("s"), list) else []:
            visit(x)
    visit(f["body"])
    return bad


def run(loader, R, tier):
    prog = loader()
    R.explanation = (
        "Typestate/dominance rules on Integer, Rational, Complex and every "
        "rational_class construction in the library: who may write a "
        "rational's numerator/denominator in place (frozen table), "
        "demotion guards before every Rational/Complex construction, and "
        "zero tests dominating every division and every two-integer "
        "rational construction, with the zero edge returning Nan or "
        "ComplexInf in the number classes. Decides the normalisation and "
        "division-by-zero clauses, not that + - * / compute the "
        "mathematical result (delegated to GMP).")
    for rid, t in (
            ("R5.1", "in-place writers of num/den are the frozen table; "
                     "backend two-integer constructor canonicalises"),
            ("R5.2", "Rational built only under den != 1, Complex only under "
                     "im != 0"),
            ("R5.3a", "divisions by integer_class/rational_class values "
                      "dominated by a zero test"),
            ("R5.3b", "two-argument rational constructions have a non-zero "
                      "denominator by a dominating test or literal"),
            ("R5.3c", "zero edge returns Nan / ComplexInf")):
        R.rule(rid, t)
    R.trusted += ["GMP arithmetic on canonical operands yields canonical "
                  "results", "RAW_WRITERS / NONZERO_DEN tables (one reasoned "
                  "line per named function)"]
    for k, v in RAW_WRITERS.items():
        if not k.endswith(("get_num", "get_den")):
            R.exception(k, "R5.1: " + v)
    for k, v in NONZERO_DEN.items():
        R.exception(k, "R5.3: " + v)

    # ---------------------------------------------------------------- R5.1
    # backend constructor canonicalises?
    ctor_ok = None
    for u, f in prog.functions.items():
        if f.get("ctor") and f.get("cls") == "SymEngine::mpq_wrapper" \
                and len(f.get("params", ())) == 2 and all(
                    "mpz_wrapper" in p["t"] for p in f["params"]):
            ctor_ok = any(n.get("k") == "call" and (n.get("n") or "")
                          .endswith("mpq_canonicalize")
                          for n in walk(f["body"]))
            R.instance("R5.1", "mpq_wrapper(mpz,mpz)", sample={
                "canonicalises": ctor_ok, "where": prog.loc(f)})
    if ctor_ok is None:
        raise AnalysisBroken("mpq_wrapper(mpz, mpz) constructor not found")
    writers = {}
    for u, f in prog.functions.items():
        if f.get("dependent") or f.get("tk") == "pattern" \
                or not f.get("body"):
            continue
        if f["file"].endswith(("mp_wrapper.h", "mp_class.h")):
            continue
        for n in walk(f["body"]):
            if n.get("k") == "op" and n.get("op", "").endswith("=") \
                    and n["op"] not in ("==", "!=", "<=", ">=") \
                    and n.get("a"):
                a0 = n["a"][0]
                if a0.get("k") == "call" and a0.get("n") in ("get_num",
                                                             "get_den"):
                    writers.setdefault(f["qn"], []).append(
                        (n.get("l"), show(n)[:80]))
            if n.get("k") != "call" or not n.get("a"):
                continue
            h = prog.header(n.get("u", ""))
            ps = h.get("params", [])
            for i, a in enumerate(n["a"]):
                if a.get("k") == "call" and a.get("n") in ("get_num",
                                                           "get_den"):
                    # passed to a non-const reference parameter?
                    if i < len(ps) and ps[i]["t"].endswith("&") \
                            and not ps[i]["t"].startswith("const "):
                        writers.setdefault(f["qn"], []).append(
                            (n.get("l"), show(n)[:80]))
    # R5.1b role preservation inside the raw writers: the component written
    # in place must derive from the *same* component of a canonical rational
    # through a sign- and coprimality-preserving operation (power, root).  A
    # denominator written from a numerator (or negated) has an unknown sign
    # and must be normalised under a test of the written value's own
    # denominator, or by canonicalize().
    def acc_of(e):
        while e is not None and e.get("k") in ("cast",):
            e = e["a"][0]
        if e is not None and e.get("k") == "call" and e.get("n") in (
                "get_num", "get_den") and e.get("a"):
            return e["n"][4:], show(e["a"][0])
        return None, None

    def den_sign_tests(f, v):
        """does f test the sign of get_den(v) / call canonicalize(v)?"""
        for n in walk(f["body"]):
            if n.get("k") == "call" and n.get("n") == "canonicalize" \
                    and n.get("a") and show(n["a"][0]) == v:
                return True
            if n.get("k") in ("if", "?:"):
                c = n.get("c") if n.get("k") == "if" else n["a"][0]
                t = show(c)
                if "get_den(%s)" % v in t and ("<" in t or ">" in t
                                              or "mp_sign" in t
                                              or "sign" in t):
                    return True
        return False

    nrole = 0
    for u, f in prog.functions.items():
        if f.get("dependent") or f.get("tk") == "pattern" \
                or not f.get("body") or f["qn"] not in writers:
            continue
        if f["file"].endswith(("mp_wrapper.h", "mp_class.h")):
            continue
        for n in walk(f["body"]):
            tgt = src = None
            how = None
            if n.get("k") == "call" and n.get("n") in ("mp_pow_ui", "mp_root",
                                                       "mp_abs") \
                    and len(n.get("a", ())) >= 2:
                tgt = acc_of(n["a"][0])
                src = acc_of(n["a"][1])
                how = n["n"]
            elif n.get("k") == "op" and n.get("op") == "=" and n.get("a"):
                tgt = acc_of(n["a"][0])
                rhs = n["a"][1]
                while rhs.get("k") == "cast":
                    rhs = rhs["a"][0]
                src = acc_of(rhs)
                how = "="
                if rhs.get("k") in ("un", "op") and rhs.get("op") == "-" \
                        and len(rhs.get("a", ())) == 1:
                    how = "negate"
                    src = acc_of(rhs["a"][0])
            if not tgt or tgt[0] is None:
                continue
            nrole += 1
            key = "%s@%s" % (short(f["qn"]), n.get("l"))
            R.instance("R5.1", "role:" + key, sample={
                "site": show(n)[:80], "target": tgt[0],
                "source": src[0] if src else None, "op": how})
            bad = None
            if tgt[0] == "den":
                if how == "negate":
                    bad = "the denominator is negated"
                elif src and src[0] == "num":
                    bad = "the denominator is computed from a numerator " \
                          "(sign unknown)"
            if tgt[0] == "num" and src and src[0] == "den" \
                    and how in ("mp_pow_ui", "mp_root"):
                bad = "the numerator is computed from a denominator: the " \
                      "roles of the components are swapped"
            if bad and not den_sign_tests(f, tgt[1]):
                R.violation(
                    "R5.1", "role:" + short(f["qn"]), prog.loc(f, n.get("l")),
                    "%s: in `%s` %s and no test of the sign of get_den(%s) "
                    "(or canonicalize) normalises the result before it is "
                    "passed on as canonical" % (short(f["qn"]), show(n)[:70],
                                                bad, tgt[1]))
    R.floor("in-place component writes classified", nrole, 5)
    for qn, sites in sorted(writers.items()):
        R.instance("R5.1", qn, sample={"function": qn, "sites": sites[:3]})
        if qn not in RAW_WRITERS:
            f = prog.fn_by_qn(qn)[0]
            R.violation(
                "R5.1", short(qn), prog.loc(f, sites[0][0]),
                "%s writes the numerator/denominator of a rational_class in "
                "place (%s): the value bypasses canonicalisation and is not "
                "in the table of reasoned exceptions" % (short(qn),
                                                         sites[0][1]))
    R.floor("in-place num/den writers", len(writers), 2)
    if not ctor_ok:
        # then explicit canonicalize() is the required transition
        for u, f in prog.functions.items():
            if f.get("dependent") or not f.get("body"):
                continue
            for n in walk(f["body"]):
                if n.get("k") == "ctor" and strip_type(n.get("t", "")) in MPQ \
                        and len(n.get("a", ())) == 2:
                    if not any(c.get("k") == "call" and c.get("n")
                               == "canonicalize" for c in walk(f["body"])):
                        R.violation(
                            "R5.1", short(f["qn"]), prog.loc(f, n.get("l")),
                            "two-integer rational construction without "
                            "canonicalize() and the backend constructor "
                            "does not canonicalise")

    # ---------------------------------------------------------------- R5.2
    nsites = 0
    for u, f in prog.functions.items():
        if f.get("dependent") or f.get("tk") == "pattern" \
                or not f.get("body"):
            continue

        def cb(n, guards, line, f=f):
            nonlocal nsites
            if n.get("k") != "call" or n.get("n") != "make_rcp" \
                    or not n.get("ta"):
                return
            K = strip_type(n["ta"][0])
            if K not in ("SymEngine::Rational", "SymEngine::Complex"):
                return
            nsites += 1
            key = "%s@%s" % (short(f["qn"]), n.get("l"))
            R.instance("R5.2", key, sample={"site": show(n)[:90]})
            facts = sym.flatten_guards(guards)
            if K == "SymEngine::Rational":
                arg = n["a"][0]
                # own member negated (Rational::neg)
                if f["qn"] == "SymEngine::Rational::neg":
                    return
                if f["qn"] == "SymEngine::Rational::nth_root":
                    R.exception(f["qn"], "R5.2: " + RAW_WRITERS[f["qn"]])
                    return
                ns, more = divisor_names(arg, f)
                ok = False
                for g in facts:
                    if g[0] == "case":
                        continue
                    c, pol = g
                    if c.get("k") in ("bin", "op") and c.get("op") == "==" \
                            and not pol and "get_den" in show(c) \
                            and any(is_one(x) for x in c["a"]) \
                            and (names_in(c) & (ns | more)):
                        ok = True
                if not ok:
                    R.violation(
                        "R5.2", short(f["qn"]), prog.loc(f, n.get("l")),
                        "%s constructs a Rational without a dominating "
                        "`get_den(x) == 1` test taking the false edge: a "
                        "rational with denominator 1 is not demoted to "
                        "Integer" % short(f["qn"]))
            else:
                im = n["a"][1] if len(n.get("a", ())) > 1 else None
                ns = names_in(im) if im else set()
                ok = False
                for names, iszero in zero_tests(facts):
                    if not iszero and names & ns:
                        ok = True
                if not ok:
                    R.violation(
                        "R5.2", short(f["qn"]), prog.loc(f, n.get("l")),
                        "%s constructs a Complex without a dominating "
                        "`get_num(im) == 0` test taking the false edge: a "
                        "zero imaginary part is not demoted to a real "
                        "number" % short(f["qn"]))
        sym.visit_guarded(f["body"], cb)
    R.floor("Rational/Complex construction sites", nsites, 5)

    # --------------------------------------------------------------- R5.3
    ndiv = 0
    nctor = 0
    for u, f in prog.functions.items():
        if f.get("dependent") or f.get("tk") == "pattern" \
                or not f.get("body"):
            continue
        if f["file"].endswith(("mp_wrapper.h", "mp_class.h",
                               "mp_wrapper.cpp")):
            continue
        in_num = f.get("cls") in NUMCLS

        def cb3(n, guards, line, f=f, in_num=in_num):
            nonlocal ndiv, nctor
            k = n.get("k")
            if in_num and k == "op" and n.get("op") in ("/", "/=") \
                    and len(n.get("a", ())) == 2:
                h = prog.header(n.get("u", ""))
                pts = [strip_type(p["t"]) for p in h.get("params", [])]
                if not any(t in MPZ | MPQ for t in pts):
                    return
                d = n["a"][1]
                ndiv += 1
                key = "%s@%s" % (short(f["qn"]), n.get("l"))
                R.instance("R5.3a", key, sample={"division": show(n)[:90]})
                if nonzero_literal(d):
                    return
                if f["qn"] in DIV_NONZERO:
                    return
                if not guarded_nonzero(d, guards, f):
                    R.violation(
                        "R5.3a", short(f["qn"]), prog.loc(f, n.get("l")),
                        "%s divides by `%s` without a dominating zero test "
                        "of that value: GMP division by zero is a SIGFPE"
                        % (short(f["qn"]), show(d)[:60]))
                else:
                    ns, _ = divisor_names(d, f)
                    for line2, txt in zero_edge_returns(f, ns):
                        R.instance("R5.3c", key + ":" + str(line2))
                        R.violation(
                            "R5.3c", short(f["qn"]), prog.loc(f, line2),
                            "%s returns `%s` on the zero-divisor edge; the "
                            "property requires zoo (ComplexInf) or nan"
                            % (short(f["qn"]), txt))
                    R.instance("R5.3c", key)
            if k == "ctor" and strip_type(n.get("t", "")) in MPQ \
                    and len(n.get("a", ())) == 2:
                h = prog.header(n.get("u", ""))
                pts = [strip_type(p["t"]) for p in h.get("params", [])]
                if len(pts) != 2 or "basic_string" in pts[0]:
                    return
                d = n["a"][1]
                nctor += 1
                key = "%s@%s" % (short(f["qn"]), n.get("l"))
                R.instance("R5.3b", key, sample={"ctor": show(n)[:90]})
                if nonzero_literal(d):
                    return
                if f["qn"] in NONZERO_DEN:
                    return
                if not guarded_nonzero(d, guards, f):
                    R.violation(
                        "R5.3b", short(f["qn"]), prog.loc(f, n.get("l")),
                        "%s builds rational_class(%s) whose denominator is "
                        "not dominated by a zero test: canonicalisation "
                        "divides by it (SIGFPE for 0)"
                        % (short(f["qn"]), ", ".join(show(a)[:30]
                                                     for a in n["a"])))
        sym.visit_guarded(f["body"], cb3)
    R.floor("divisions in number classes", ndiv, 8)
    R.floor("two-argument rational constructions", nctor, 6)

    # ---------------------------------------------------------------- R5.5
    truncating_ops(prog, R)

    # ---------------------------------------------------------------- R5.6
    # a binary number operation guards a fast path with a test of *both*
    # operands; a conjunction that tests the same operand twice (copy and
    # paste) leaves the other operand unchecked
    R.rule("R5.6", "no condition in the exact number classes repeats an "
                   "operand test verbatim inside one && / || chain")
    ncond = 0
    ndup_control = 0
    for u, f in sorted(prog.functions.items(), key=lambda kv: kv[1]["qn"]):
        control = f["qn"].startswith("verif_positive::")
        if not f.get("body") or f.get("dependent") or not (
                control or f.get("cls") in NUMCLS):
            continue
        seen_nodes = set()
        for n in walk(f["body"]):
            if n.get("k") != "bin" or n.get("op") not in ("&&", "||") \
                    or id(n) in seen_nodes:
                continue
            ops = []

            def flat(x, op=n["op"]):
                if x.get("k") == "bin" and x.get("op") == op:
                    seen_nodes.add(id(x))
                    for a in x["a"]:
                        flat(a)
                else:
                    ops.append(x)
            flat(n)
            ncond += 1
            texts = [show(o) for o in ops]
            dup = [t for t in set(texts) if texts.count(t) > 1
                   and any(y.get("k") in ("call", "mcall")
                           for o in ops if show(o) == t for y in walk(o))]
            if control:
                ndup_control += len(dup)
                continue
            R.instance("R5.6", "%s@%s" % (short(f["qn"]), n.get("l")))
            if dup:
                R.violation(
                    "R5.6", short(f["qn"]), prog.loc(f, n.get("l")),
                    "%s tests `%s` twice in one `%s` chain: the second "
                    "occurrence was meant for the other operand, which is "
                    "now unchecked (e.g. a machine-word fast path taken "
                    "for a divisor that does not fit a machine word)" % (
                        short(f["qn"]), dup[0][:60], n["op"]))
    R.floor("&&/|| chains in the number classes", ncond, 6)
    R.floor("positive control (verif_positive::both_fit) recognised",
            ndup_control, 1)

    # ---------------------------------------------------------------- R5.4
    R.rule("R5.4", "Integer and Rational overloads of the Complex arithmetic "
                   "members have the same operator signature")
    sibling_overloads(prog, R)


def sibling_overloads(prog, R, rid="R5.4"):
    """R5.4: the Integer and the Rational overload of each Complex arithmetic
    member (addcomp, subcomp, rsubcomp, mulcomp, divcomp, rdivcomp, ...) are
    the same formula — the Integer is only widened to a rational first — so
    their operator signatures over (real_, imaginary_, other) must agree.  A
    sign or operand slip in one of two siblings is a contradiction between
    them (no oracle needed)."""
    from collections import Counter
    cls = "SymEngine::Complex"
    groups = {}
    for u, f in prog.functions.items():
        if f.get("cls") != cls or not f.get("body") or f.get("dependent") \
                or len(f.get("params", ())) != 1:
            continue
        pt = strip_type(f["params"][0]["t"])
        if pt in ("SymEngine::Integer", "SymEngine::Rational"):
            groups.setdefault(f["n"], {})[pt] = f

    def role(x, pname):
        while x is not None and x.get("k") in ("cast", "ctor") \
                and len([a for a in x.get("a", ())
                         if a.get("k") != "defarg"]) >= 1 \
                and x.get("k") == "cast":
            x = x["a"][0]
        if x is None:
            return "?"
        if x.get("k") == "mem" and (x.get("o") is None
                                    or x["o"].get("k") == "this"):
            return x.get("m")
        names = {y.get("n") for y in walk(x) if y.get("k") == "ref"}
        mems = {y.get("m") for y in walk(x) if y.get("k") == "mem"
                and (y.get("o") is None or y["o"].get("k") == "this")}
        if pname in names and not mems:
            return "OTHER"
        if x.get("k") == "lit":
            return "lit"
        return "expr"

    def sig(f):
        pname = f["params"][0]["n"]
        c = Counter()
        for n in walk(f["body"]):
            if n.get("k") in ("bin", "op") and n.get("op") in (
                    "+", "-", "*", "/") and len(n.get("a", ())) == 2:
                c[(n["op"], role(n["a"][0], pname),
                   role(n["a"][1], pname))] += 1
            elif n.get("k") in ("un", "op") and n.get("op") == "-" \
                    and len(n.get("a", ())) == 1:
                c[("neg", role(n["a"][0], pname))] += 1
            elif n.get("k") == "call" and n.get("u") \
                    and (prog.header(n["u"]).get("cls") == cls
                         or prog.header(n["u"]).get("n") in (
                             "from_mpq", "from_two_nums")):
                c[("call", prog.header(n["u"]).get("n"))] += 1
            elif n.get("k") == "ref" and n.get("d") == "global":
                c[("const", n.get("n"))] += 1
        return c
    npairs = 0
    for name, g in sorted(groups.items()):
        if len(g) != 2:
            continue
        fi, fr = g["SymEngine::Integer"], g["SymEngine::Rational"]
        si, sr = sig(fi), sig(fr)
        # a sibling that simply delegates to the other one is fine
        if not any(k[0] in ("+", "-", "*", "/", "neg") for k in si) \
                or not any(k[0] in ("+", "-", "*", "/", "neg") for k in sr):
            continue
        npairs += 1
        R.instance(rid, "Complex::" + name, sample={
            "method": name,
            "signature": sorted("%s x%d" % (" ".join(k), v)
                                for k, v in sr.items())[:8]})
        if si != sr:
            only_i = sorted(" ".join(k) for k in (si - sr))
            only_r = sorted(" ".join(k) for k in (sr - si))
            R.violation(
                rid, "Complex::" + name, prog.loc(fr),
                "Complex::%s(const Rational&) and Complex::%s(const "
                "Integer&) are the same formula but differ: only in the "
                "Integer overload {%s}, only in the Rational overload {%s}"
                % (name, name, "; ".join(only_i), "; ".join(only_r)))
    R.floor("Integer/Rational sibling overloads of Complex compared",
            npairs, 5)


def is_one(e):
    if e is None:
        return False
    if e.get("k") == "lit" and str(e.get("v")) == "1":
        return True
    if e.get("k") in ("ctor", "cast") and len(e.get("a", ())) == 1:
        return is_one(e["a"][0])
    return False


def truncating_ops(prog, R):
    """R5.5: the built-in % (and / used as a quotient for %-style case
    analysis) truncates towards zero.  In the exact number classes a residue
    of a possibly negative machine integer taken from an Integer (as_int())
    must come from the floored helpers (mod_f, fdiv_*), or the operand must
    be known non-negative."""
    R.rule("R5.5", "no built-in % on a signed value taken from an Integer "
                   "in the exact number classes (floored helpers only)")
    SIGNED = ("long", "int", "long long", "short", "signed char")
    nsite = 0
    ncontrol = 0
    for u, f in sorted(prog.functions.items(), key=lambda kv: kv[1]["qn"]):
        control = f["qn"].startswith("verif_positive::")
        if not f.get("body") or f.get("dependent") or not (
                control or f.get("cls") in NUMCLS):
            continue
        # locals initialised from as_int()
        from_int = set()
        for n in walk(f["body"]):
            if n.get("k") == "decl":
                for v in n.get("v", ()):
                    if v.get("i") is not None and any(
                            y.get("k") == "mcall" and y.get("n") == "as_int"
                            for y in walk(v["i"])):
                        from_int.add(v["n"])

        def cb(n, guards, line, f=f, control=control, from_int=from_int):
            nonlocal nsite, ncontrol
            if not (n.get("k") in ("bin", "op") and n.get("op") in (
                    "%", "%=") and len(n.get("a", ())) == 2):
                return
            lhs = n["a"][0]
            tainted = any(
                (y.get("k") == "mcall" and y.get("n") == "as_int")
                or (y.get("k") == "ref" and y.get("n") in from_int)
                for y in walk(lhs))
            signed = any(strip_type(y.get("t") or "") in SIGNED
                         for y in walk(lhs) if y.get("k") == "ref") or any(
                y.get("k") == "mcall" and y.get("n") == "as_int"
                for y in walk(lhs))
            if not (tainted and signed):
                return
            nonneg = False
            for g in sym.flatten_guards(guards):
                if g[0] == "case":
                    continue
                c, pol = g
                if c.get("k") in ("bin", "op") and c.get("op") in (
                        ">=", ">", "<", "<=") and show(lhs)[:20] in show(c):
                    t = show(c).replace(" ", "")
                    if pol and (">=0" in t or ">0" in t):
                        nonneg = True
                    if (not pol) and ("<0" in t):
                        nonneg = True
            key = "%s@%s" % (short(f["qn"]), n.get("l"))
            if control:
                if not nonneg:
                    ncontrol += 1
                return
            nsite += 1
            R.instance("R5.5", key, sample={"expr": show(n)[:60],
                                            "operand_nonnegative": nonneg})
            if not nonneg:
                R.violation(
                    "R5.5", short(f["qn"]), prog.loc(f, n.get("l")),
                    "%s computes `%s` with the built-in %%: for a negative "
                    "operand the result is negative (truncation towards "
                    "zero), so a case analysis on the residue picks the "
                    "wrong class; the floored helper mod_f gives the "
                    "residue in [0, m)" % (short(f["qn"]), show(n)[:50]))
        sym.visit_guarded(f["body"], cb)
    R.floor("positive control (verif_positive::residue_of_exponent) "
            "recognised", ncontrol, 1)


MANIFEST = dict(
    technique="intraprocedural typestate / guard-dominance rules on the "
              "number classes and on every rational_class construction",
    text="Decides the normalisation and division-by-zero clauses of C05 on "
         "all paths: the only in-place writers of a rational's numerator/"
         "denominator are three reasoned functions and the backend "
         "constructor canonicalises; Rational objects are only built under "
         "den != 1 and Complex under im != 0; every division by an exact "
         "value in Integer/Rational/Complex and every two-integer rational "
         "construction in the library is dominated by a zero test (or a "
         "non-zero literal / reasoned exception) and the zero edge returns "
         "zoo or nan. Does not decide that + - * / and powers compute the "
         "mathematical value (GMP, value-level).",
    note="Trusted: GMP; the exception tables RAW_WRITERS / NONZERO_DEN (one "
         "named function each with its reason, listed in the evidence).",
    ref="§2 C05",
)
