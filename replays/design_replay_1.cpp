#include <symengine/basic.h>
#include <symengine/add.h>
#include <symengine/mul.h>
#include <symengine/pow.h>
#include <symengine/real_double.h>
#include <symengine/complex_double.h>
#include <symengine/infinity.h>
#include <symengine/nan.h>
#include <symengine/logic.h>
#include <symengine/functions.h>
#include <symengine/parser.h>
#include <symengine/series_generic.h>
#include <symengine/matrix_expressions.h>
#include <symengine/polys/uratpoly.h>
#include <symengine/polys/msymenginepoly.h>
#include <symengine/cwrapper.h>
#include <symengine/lambda_double.h>
#include <symengine/printers.h>
#include <iostream>
#include <cmath>
using namespace SymEngine;
#define TRY(label, expr) try { std::cout << label << ": " << (expr) << std::endl; } catch (std::exception &e) { std::cout << label << ": EXC " << e.what() << std::endl; }
int main(){
  auto p0 = real_double(0.0), m0 = real_double(-0.0);
  std::cout << "C01 eq(0.0,-0.0)=" << eq(*p0,*m0) << " hash equal=" << (p0->hash()==m0->hash()) << "\n";
  set_basic sb; sb.insert(p0); sb.insert(m0); std::cout << "   set_basic size " << sb.size() << "\n";
  auto n1 = real_double(std::nan("")), n2 = real_double(std::nan(""));
  std::cout << "C02 nan cmp " << n1->__cmp__(*n2) << " " << n2->__cmp__(*n1) << " vs 1.0: " << n1->__cmp__(*real_double(1.0)) << " " << real_double(1.0)->__cmp__(*n1) << " eq(n1,n2)=" << eq(*n1,*n2) << "\n";
  TRY("C29 Le(1,1.0)", *Le(integer(1), real_double(1.0)));
  TRY("C29 Lt(1.0,1)", *Lt(real_double(1.0), integer(1)));
  TRY("C29 Le(0.0,-0.0)", *Le(real_double(0.0), real_double(-0.0)));
  TRY("C17 parse 010", *parse("010"));
  TRY("C17 parse 0x10", *parse("0x10"));
  TRY("C17 parse 08", *parse("08"));
  TRY("C06 oo+nan", *addnum(Inf, Nan));
  TRY("C06 nan+oo", *addnum(Nan, Inf));
  TRY("C06 oo/nan", *divnum(Inf, Nan));
  TRY("C06 nan/oo", *divnum(Nan, Inf));
  TRY("C06 oo*nan", *mulnum(Inf, Nan));
  TRY("C06 add(oo,nan)", *add(Inf, Nan));
  TRY("C06 add(nan,oo)", *add(Nan, Inf));
  TRY("C06 oo*(1+I)", *mulnum(Inf, Complex::from_two_nums(*integer(1), *integer(1))));
  TRY("C05 (1/2)/(1+I)", *divnum(Rational::from_two_ints(1,2), Complex::from_two_nums(*integer(1), *integer(1))));
  TRY("C05 2/(1+I)", *divnum(integer(2), Complex::from_two_nums(*integer(1), *integer(1))));
  {
    auto c = Complex::from_two_nums(*integer(1), *integer(2));
    auto s = sign(c);
    std::cout << "C03 sign(1+2I) = " << *s << " type Sign? " << is_a<Sign>(*s);
    if (is_a<Sign>(*s)) std::cout << " canonical=" << down_cast<const Sign&>(*s).is_canonical(down_cast<const Sign&>(*s).get_arg());
    std::cout << "\n";
  }
  {
    auto i = symbol("i"), j = symbol("j");
    auto k = kronecker_delta(i, j);
    std::string st = k->__str__();
    auto back = parse(st);
    std::cout << "C16 str=" << st << " roundtrip eq=" << eq(*k, *back) << " back type FunctionSymbol=" << is_a<FunctionSymbol>(*back) << "\n";
  }
  {
    auto x = symbol("x"), y = symbol("y");
    auto s1 = UnivariateSeries::series(add(x, integer(1)), "x", 5);
    auto s2 = UnivariateSeries::series(add(y, integer(1)), "y", 5);
    std::cout << "C02 series eq=" << eq(*s1,*s2) << " cmp=" << s1->__cmp__(*s2) << " " << s2->__cmp__(*s1) << " hash eq=" << (s1->hash()==s2->hash()) << "\n";
    set_basic s; s.insert(s1); s.insert(s2); std::cout << "   set size " << s.size() << "\n";
  }
  {
    basic s; basic_new_stack(s);
    rational_set_si(s, 2, 4);
    char *c = basic_str(s); std::cout << "C05 rational_set_si(2,4) = " << c << "\n"; basic_str_free(c);
    basic t; basic_new_stack(t); rational_set_si(t, 1, 2);
    std::cout << "   eq with 1/2: " << basic_eq(s,t) << "\n";
  }
  {
    auto x = symbol("x");
    RCP<const Basic> p = URatPoly::from_dict(x, {{0, rational_class(1,2)}, {1, rational_class(3)}});
    try { std::string d = p->dumps(); std::cout << "C19 URatPoly dumps ok len " << d.size() << "\n"; auto q = Basic::loads(d); std::cout << "   loads eq=" << eq(*p,*q) << "\n"; } catch (std::exception &e) { std::cout << "C19 EXC " << e.what() << "\n"; }
  }
  {
    auto x = symbol("x"), y = symbol("y");
    auto a = MIntPoly::from_dict({x}, {{{0}, 3_z}});
    auto b = MIntPoly::from_dict({y}, {{{0}, 3_z}});
    std::cout << "C01 mpoly eq=" << eq(*a,*b) << " hash eq=" << (a->hash()==b->hash()) << " cmp=" << a->__cmp__(*b) << "\n";
  }
  {
    auto A = matrix_symbol("A"), B = matrix_symbol("B");
    auto m1 = matrix_mul({integer(2), A, B});
    auto m2 = matrix_mul({symbol("x"), A, B});
    std::cout << "C02 MatrixMul types " << type_code_name(m1->get_type_code()) << " " << type_code_name(m2->get_type_code()) << std::flush;
    std::cout << " cmp=" << m1->__cmp__(*m2) << " " << m2->__cmp__(*m1) << "\n";
  }
  return 0;
}
