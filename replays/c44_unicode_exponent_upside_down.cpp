#include <symengine/basic.h>
#include <symengine/add.h>
#include <symengine/mul.h>
#include <symengine/pow.h>
#include <symengine/logic.h>
#include <symengine/sets.h>
#include <symengine/functions.h>
#include <symengine/symbol.h>
#include <symengine/printers.h>
#include <iostream>
using namespace SymEngine;
int main(){
    RCP<const Basic> x = symbol("x"), y = symbol("y"), z = symbol("z");
    std::cout << "unicode(x**(y/z)):\n" << unicode(*pow(x, div(y, z))) << "\n\n";
    std::cout << "unicode(x**(2/3)):\n" << unicode(*pow(x, rational(2,3))) << "\n\n";
    auto nt = logical_not(logical_and({Lt(x, y), Lt(y, z)}));
    std::cout << "sbml(Not(And(x<y, y<z))) = " << sbml(*nt) << "\n";
    std::cout << "sbml(And(x<y, y<z)) = " << sbml(*logical_and({Lt(x, y), Lt(y, z)})) << "\n";
    std::cout << "latex(Interval(1/2, oo)) = " << latex(*interval(rational(1,2), Inf, false, true)) << "\n";
    return 0;
}
