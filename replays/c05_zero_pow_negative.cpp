#include <symengine/integer.h>
#include <symengine/rational.h>
#include <symengine/complex.h>
#include <symengine/pow.h>
#include <iostream>
#include <unistd.h>
#include <sys/wait.h>
using namespace SymEngine;
template<class F> void run(const char*name, F f){ std::cout<<name<<": "<<std::flush; pid_t p=fork(); if(!p){ try{ std::cout<<f()<<std::endl; }catch(std::exception&e){ std::cout<<"exception "<<e.what()<<std::endl;} _exit(0);} int st; waitpid(p,&st,0); if(WIFSIGNALED(st)) std::cout<<"SIGNAL "<<WTERMSIG(st)<<std::endl; }
int main(){
  run("pownum(0,-1)", []{ return pownum(integer(0), integer(-1))->__str__(); });
  run("pow(0,-1)", []{ return pow(integer(0), integer(-1))->__str__(); });
  run("pownum(0,-3)", []{ return integer(0)->pow(*integer(-3))->__str__(); });
  run("(1/2)/(1+I)", []{ return divnum(Rational::from_two_ints(1,2), Complex::from_two_nums(*integer(1),*integer(1)))->__str__(); });
  run("(0+0I powcomp) I**-1", []{ return Complex::from_two_nums(*integer(0),*integer(1))->pow(*integer(-1))->__str__(); });
}
