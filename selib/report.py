"""Result collection, known-findings filter, evidence and exit protocol."""
import json
import os
import sys
import time

from . import build

KNOWN = os.path.join(build.VERIF, "known_findings.json")
EVID = os.environ.get("VERIF_EVIDENCE_DIR") or (
    os.path.join(build.WORK, "selftest-evidence")
    if os.environ.get("VERIF_SELFTEST") else
    os.path.join(build.VERIF, "evidence"))
REPLAY = os.path.join(EVID, "replay")


def load_known():
    if not os.path.exists(KNOWN):
        return []
    return json.load(open(KNOWN)).get("findings", [])


class Result:
    """one run of one property's rules"""

    def __init__(self, prop, tier):
        self.prop = prop
        self.tier = tier
        self.t0 = time.time()
        self.violations = []     # dicts: rule, key, where, what, detail
        self.instances = {}      # rule -> count of instances checked
        self.nontrivial = {}     # rule -> set of distinct nontrivial instances
        self.samples = []
        self.undecided = []
        self.info = {}
        self.assumptions = []
        self.exceptions = []
        self.floors = []         # (name, got, want)
        self.explanation = ""
        self.exhaustive = False
        self.rules = {}
        self.trusted = []
        self.fixtures = []

    # ------------------------------------------------------------ recording
    def rule(self, rid, text):
        self.rules[rid] = text
        self.instances.setdefault(rid, 0)
        self.nontrivial.setdefault(rid, set())

    def instance(self, rid, key, nontrivial=True, sample=None):
        self.instances[rid] = self.instances.get(rid, 0) + 1
        if nontrivial:
            self.nontrivial.setdefault(rid, set()).add(key)
        if sample is not None and sum(
                1 for s in self.samples if s.get("rule") == rid) < 6:
            s = {"rule": rid, "instance": key}
            if isinstance(sample, dict):
                s.update(sample)
            else:
                s["detail"] = sample
            self.samples.append(s)

    def violation(self, rid, key, where, what, detail=None):
        self.violations.append({"rule": rid, "key": "%s:%s" % (rid, key),
                                "where": where, "what": what,
                                "detail": detail})

    def floor(self, name, got, want):
        """vacuity guard.  `want` is the instance count confirmed by hand on
        the pinned tree; the check fails as analysis-broken only below 75 %
        of it (exact for counts <= 3), so that an ordinary refactor which
        removes a few instances does not trip it while a rule that stops
        matching still does."""
        eff = want if want <= 3 else max(3, int(want * 0.75))
        self.floors.append((name, got, eff))

    def undecided_obligation(self, rid, key, why):
        self.undecided.append({"rule": rid, "instance": key, "why": why})

    def exception(self, symbol, reason):
        self.exceptions.append({"symbol": symbol, "reason": reason})

    # ------------------------------------------------------------ finishing
    def finish(self, prog=None):
        """prints the verdict, writes evidence, returns exit code"""
        known = [k for k in load_known() if k.get("property") == self.prop]
        open_known = {k["key"]: k for k in known
                      if k.get("status", "open") == "open"}
        unlisted = []
        listed = []
        seen_keys = set()
        for v in self.violations:
            if v["key"] in seen_keys:
                continue
            seen_keys.add(v["key"])
            if v["key"] in open_known:
                listed.append(v)
            else:
                unlisted.append(v)
        broken = [(n, g, w) for (n, g, w) in self.floors if g < w]
        wall = round(time.time() - self.t0, 2)
        os.makedirs(REPLAY, exist_ok=True)
        replay = os.path.join(REPLAY, "%s.json" % self.prop)
        json.dump({"property": self.prop, "tier": self.tier,
                   "violations": unlisted, "known": listed,
                   "floors_broken": broken}, open(replay, "w"), indent=1)
        evaluations = sum(self.instances.values())
        distinct = sum(len(s) for s in self.nontrivial.values())
        cov = {
            "explanation": self.explanation,
            "rules": self.rules,
            "evaluations": evaluations,
            "distinct_nontrivial": distinct,
            "rule": "one evaluation = one rule instance (a class, call "
                    "site, table entry or path) decided by the rule on "
                    "this run; non-trivial = distinct instances that carry "
                    "an actual obligation (e.g. a class with >=1 hashed "
                    "member, a call site in scope of the rule)",
            "instances_per_rule": self.instances,
            "nontrivial_per_rule": {k: len(v)
                                    for k, v in self.nontrivial.items()},
            "samples": self.samples[:40] or [{"note": "no instances"}],
            "floors": [{"what": n, "got": g, "min": w}
                       for (n, g, w) in self.floors],
            "undecided_obligations": len(self.undecided),
            "undecided_sample": self.undecided[:25],
            "known_findings": [{"key": v["key"], "where": v["where"],
                                "what": v["what"]} for v in listed],
            "exceptions_applied": self.exceptions,
            "exhaustive": self.exhaustive,
            "trusted_base": self.trusted,
            "not_compiled": "code under HAVE_SYMENGINE_MPFR/MPC/FLINT/"
                            "PIRANHA/LLVM/BOOST is not part of this "
                            "configuration and outside the claim",
        }
        if self.fixtures:
            cov["fixtures"] = self.fixtures
        cov.update(self.info)
        if prog is not None:
            cov["configuration"] = prog.cfg
            cov["translation_units"] = len(prog.tus)
            cov["functions_in_fact_base"] = len(prog.functions)
            cov["re_extracted_this_run"] = len(
                prog.facts.get("extracted_now", []))
        ev = {"property_id": self.prop, "tier": self.tier,
              "seed": int(os.environ.get("VERIF_SEED", "0") or 0),
              "level": "other", "coverage": cov,
              "assumptions": self.assumptions, "wall_s": wall,
              "violations": len(unlisted)}
        os.makedirs(EVID, exist_ok=True)
        json.dump(ev, open(os.path.join(EVID, "%s.json" % self.prop), "w"),
                  indent=1, sort_keys=True)
        for v in listed:
            print("KNOWN-FINDING: property=%s %s at %s: %s"
                  % (self.prop, v["key"], v["where"], v["what"]))
        print("%s [%s]: %d rule instances (%d distinct non-trivial), "
              "%d undecided, %d known findings, %d violations, %.1fs"
              % (self.prop, self.tier, evaluations, distinct,
                 len(self.undecided), len(listed), len(unlisted), wall))
        if broken:
            for n, g, w in broken:
                print("ANALYSIS-BROKEN property=%s: %s: matched %d, floor %d"
                      % (self.prop, n, g, w))
            if not unlisted:
                return 2
        if unlisted:
            for v in unlisted:
                print("  %s at %s: %s" % (v["key"], v["where"], v["what"]))
            print("VIOLATION property=%s replay=%s" % (self.prop, replay))
            return 1
        return 0


def broken(prop, tier, msg):
    """analysis could not run: exit 2, evidence says so"""
    print("ANALYSIS-BROKEN property=%s: %s" % (prop, msg))
    os.makedirs(EVID, exist_ok=True)
    ev = {"property_id": prop, "tier": tier, "seed": 0, "level": "other",
          "coverage": {"explanation": "analysis broken: " + msg[:500],
                       "evaluations": 0, "distinct_nontrivial": 0},
          "assumptions": [], "wall_s": 0.0, "violations": 0}
    json.dump(ev, open(os.path.join(EVID, "%s.json" % prop), "w"), indent=1)
    return 2
