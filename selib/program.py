"""Indexed view of the linked facts: class hierarchy, method resolution,
class-hierarchy-analysis call graph, IR walking helpers."""
import re
from collections import defaultdict

from . import build

NS = "SymEngine::"


# --------------------------------------------------------------------- IR walk
def children(n):
    """direct child nodes (exprs and stmts) of an IR node"""
    if not isinstance(n, dict):
        return
    for key, v in n.items():
        if key in ("a", "s", "inits", "v", "h"):
            if isinstance(v, list):
                for c in v:
                    if isinstance(c, dict):
                        yield c
        elif key in ("o", "c", "t", "e", "b", "i", "init", "inc", "r", "fn",
                     "cv", "body"):
            if isinstance(v, dict):
                yield v


def walk(n):
    """pre-order over all nodes below (and including) n"""
    stack = [n]
    while stack:
        x = stack.pop()
        if not isinstance(x, dict):
            continue
        yield x
        ch = list(children(x))
        ch.reverse()
        stack.extend(ch)


CALL_KINDS = ("call", "mcall", "op", "ctor")


def calls(n):
    for x in walk(n):
        if x.get("k") in CALL_KINDS and "u" in x:
            yield x


def is_lit(n, v=None):
    if not isinstance(n, dict) or n.get("k") != "lit":
        return False
    return v is None or str(n.get("v")) == str(v)


def show(n, depth=0):
    """compact one-line rendering of an expression for reports"""
    if n is None:
        return ""
    if depth > 6:
        return "…"
    k = n.get("k")
    d = depth + 1
    if k == "lit":
        v = n.get("v")
        if n.get("t") == "str":
            return '"%s"' % v
        if n.get("t") == "bool":
            return "true" if v else "false"
        if n.get("t") == "null":
            return "nullptr"
        return str(v)
    if k == "ref":
        return n.get("n", "?")
    if k == "this":
        return "this"
    if k == "mem":
        o = n.get("o")
        if o is None or o.get("k") == "this":
            return n.get("m")
        return show(o, d) + ("->" if n.get("arrow") else ".") + n.get("m")
    if k == "call":
        name = n.get("n") or (show(n.get("fn"), d) if n.get("fn") else "?")
        ta = n.get("ta")
        if ta:
            name += "<" + ",".join(short(t) for t in ta) + ">"
        return name + "(" + ", ".join(show(a, d) for a in n.get("a", [])) + ")"
    if k == "mcall":
        return show(n.get("o"), d) + ("->" if n.get("arrow") else ".") \
            + n.get("n", "?") + "(" \
            + ", ".join(show(a, d) for a in n.get("a", [])) + ")"
    if k == "op":
        a = n.get("a", [])
        op = n.get("op")
        if op == "()":
            return show(a[0], d) + "(" + ", ".join(show(x, d)
                                                   for x in a[1:]) + ")"
        if op == "[]" and len(a) == 2:
            return show(a[0], d) + "[" + show(a[1], d) + "]"
        if op == "->" and len(a) == 1:
            return show(a[0], d) + "->"
        if len(a) == 1:
            return op + show(a[0], d)
        if len(a) == 2:
            return "(" + show(a[0], d) + " " + op + " " + show(a[1], d) + ")"
        return op + "(" + ", ".join(show(x, d) for x in a) + ")"
    if k == "bin":
        a = n.get("a", [None, None])
        if n.get("op") == "[]":
            return show(a[0], d) + "[" + show(a[1], d) + "]"
        return "(" + show(a[0], d) + " " + n.get("op") + " " + show(a[1], d) \
            + ")"
    if k == "un":
        if n.get("post"):
            return show(n["a"][0], d) + n.get("op")
        return n.get("op") + show(n["a"][0], d)
    if k == "?:":
        a = n["a"]
        return "(" + show(a[0], d) + " ? " + show(a[1], d) + " : " \
            + show(a[2], d) + ")"
    if k == "ctor":
        return short(n.get("t", "?")) + "(" \
            + ", ".join(show(a, d) for a in n.get("a", [])) + ")"
    if k == "cast":
        return n.get("ck") + "_cast<" + short(n.get("t", "")) + ">(" \
            + show(n["a"][0], d) + ")"
    if k == "throw":
        return "throw " + ", ".join(show(a, d) for a in n.get("a", []))
    if k == "lambda":
        return "[lambda]"
    if k == "new":
        return "new " + short(n.get("t", ""))
    if k == "init":
        return "{" + ", ".join(show(a, d) for a in n.get("a", [])) + "}"
    if k in ("defarg", "definit"):
        return show(n["a"][0], d) if n.get("a") else ""
    if k == "dep":
        return n.get("n", "?")
    return "<" + str(k) + ">"


def short(t):
    """drop namespaces for display"""
    return re.sub(r"\b(?:SymEngine|std)::", "", t or "")


def strip_type(t):
    """canonical type string -> bare record name (no cv, ref, ptr)"""
    t = (t or "").strip()
    changed = True
    while changed:
        changed = False
        for suf in ("&&", "&", "*"):
            if t.endswith(suf):
                t = t[:-len(suf)].strip()
                changed = True
        if t.endswith(" const"):
            t = t[:-6].strip()
            changed = True
        if t.startswith("const "):
            t = t[6:].strip()
            changed = True
    return t


RCP_RE = re.compile(r"^SymEngine::(?:RCP|Ptr)<(?:const )?(.*?)(?: const)?>$")


def rcp_target(t):
    m = RCP_RE.match(strip_type(t))
    return m.group(1).strip() if m else None


# --------------------------------------------------------------------- Program
class Program:
    def __init__(self, facts):
        self.facts = facts
        self.cfg = facts.get("cfg", "default")
        self.functions = facts["functions"]       # usr -> fn with body
        self.decls = facts["decls"]                # usr -> header
        self.classes = facts["classes"]            # qn -> class
        self.globals = facts["globals"]
        self.enums = facts.get("enums", {})        # qn -> enum definition
        self.tus = facts["tus"]
        self._index()

    @classmethod
    def load(cls, cfg="default", force=False):
        return cls(build.load_program(cfg, force=force))

    # ------------------------------------------------------------ indexing
    def _index(self):
        self.by_qn = defaultdict(list)          # qualified name -> [usr]
        self.by_class = defaultdict(list)       # class qn -> [usr] (defined)
        for u, f in self.functions.items():
            self.by_qn[f["qn"]].append(u)
            if "cls" in f:
                self.by_class[f["cls"]].append(u)
        self.subclasses = defaultdict(set)
        for qn, c in self.classes.items():
            for b in c.get("bases", ()):
                bq = b.get("qn") or strip_type(b.get("t"))
                self.subclasses[bq].add(qn)
        # overriders: base method usr -> set of overriding method usrs
        self.overriders = defaultdict(set)
        self.method_info = {}       # usr -> header-like dict from class table
        for qn, c in self.classes.items():
            for m in c.get("methods", ()):
                for o in m.get("ovr", ()):
                    self.overriders[o].add(m["u"])
                if m["u"] not in self.method_info:
                    d = {"qn": qn + "::" + m["n"], "n": m["n"], "cls": qn,
                         "from_class_table": 1}
                    for k in ("virt", "pure", "const", "ovr"):
                        if k in m:
                            d[k] = m[k]
                    if c.get("tk") == "pattern" or c.get("dependent"):
                        d["dependent"] = 1
                    self.method_info[m["u"]] = d
        for u, h in list(self.decls.items()) + list(self.functions.items()):
            for o in h.get("ovr", ()):
                self.overriders[o].add(u)
        self._all_over = {}
        self._anc = {}

    def header(self, u):
        return self.functions.get(u) or self.decls.get(u) \
            or self.method_info.get(u) or {}

    def name_of(self, u):
        h = self.header(u)
        return h.get("qn") or u

    def bases(self, qn):
        c = self.classes.get(qn)
        if not c:
            return []
        return [b.get("qn") or strip_type(b.get("t"))
                for b in c.get("bases", ())]

    def ancestors(self, qn):
        """all (transitive) base classes, nearest first, including qn"""
        if qn in self._anc:
            return self._anc[qn]
        out = [qn]
        seen = {qn}
        i = 0
        while i < len(out):
            for b in self.bases(out[i]):
                if b not in seen:
                    seen.add(b)
                    out.append(b)
            i += 1
        self._anc[qn] = out
        return out

    def derives(self, qn, base):
        return base in self.ancestors(qn)

    def descendants(self, qn):
        out = set()
        stack = [qn]
        while stack:
            x = stack.pop()
            for s in self.subclasses.get(x, ()):
                if s not in out:
                    out.add(s)
                    stack.append(s)
        return out

    def concrete_subclasses(self, base, include_self=True):
        cs = self.descendants(base)
        if include_self:
            cs = cs | {base}
        out = []
        for c in sorted(cs):
            k = self.classes.get(c)
            if not k or k.get("abstract") or k.get("tk") == "pattern" \
                    or k.get("dependent"):
                continue
            out.append(c)
        return out

    def all_overriders(self, u):
        """transitive set of methods overriding u (not including u)"""
        if u in self._all_over:
            return self._all_over[u]
        out = set()
        stack = [u]
        while stack:
            x = stack.pop()
            for o in self.overriders.get(x, ()):
                if o not in out:
                    out.add(o)
                    stack.append(o)
        self._all_over[u] = out
        return out

    def find_method(self, cls, name, nparams=None):
        """final overrider lookup: the method `name` as seen from class `cls`
        (searching cls, then its bases breadth-first).  Returns usr of the
        first *declared* method found, preferring ones with a body."""
        for c in self.ancestors(cls):
            k = self.classes.get(c)
            if not k:
                continue
            cands = [m for m in k.get("methods", ()) if m["n"] == name]
            if nparams is not None:
                cands = [m for m in cands if len(
                    self.header(m["u"]).get("params", ())) == nparams
                    or not self.header(m["u"])]
            if cands:
                for m in cands:
                    if m["u"] in self.functions:
                        return m["u"]
                return cands[0]["u"]
        return None

    def fields(self, cls, inherited=True):
        """[(declaring class, field dict)]"""
        out = []
        for c in (self.ancestors(cls) if inherited else [cls]):
            k = self.classes.get(c)
            if k:
                for f in k.get("fields", ()):
                    out.append((c, f))
        return out

    def fn_by_qn(self, qn):
        """all defined functions with that qualified name"""
        return [self.functions[u] for u in self.by_qn.get(qn, ())]

    def one_fn(self, qn):
        fs = self.fn_by_qn(qn)
        if len(fs) != 1:
            raise build.AnalysisBroken(
                "anchor function %s: expected exactly one definition, got %d"
                % (qn, len(fs)))
        return fs[0]

    def loc(self, f, line=None):
        file = f.get("file", "?")
        if file.startswith(build.REPO + "/"):
            file = file[len(build.REPO) + 1:]
        return "%s:%s" % (file, line if line else f.get("line", "?"))

    # ------------------------------------------------------------ call graph
    def callees(self, call):
        """possible targets (usrs) of a call node under CHA"""
        u = call.get("u")
        if not u:
            return set()
        out = {u}
        if call.get("v"):
            out |= self.all_overriders(u)
        return out

    def enum_value(self, qn):
        return None


def type_code_of(prog, cls):
    """SYMENGINE_X enum constant name of a Basic subclass (type_code_id)"""
    for c in prog.ancestors(cls):
        k = prog.classes.get(c)
        if not k:
            continue
        for s in k.get("statics", ()):
            if s["n"] == "type_code_id" and s.get("i"):
                i = s["i"]
                if i.get("k") == "ref" and i.get("d") == "enum":
                    return i["n"]
        # only the most-derived declaration counts
    return None
