// replay: DenseMatrix::loads accepts dimensions that do not match the element count
#include <symengine/matrix.h>
#include <symengine/basic.h>
#include <iostream>
using namespace SymEngine;
int main(){
  DenseMatrix A(1, 1, {integer(7)});
  std::string s = A.dumps();
  // layout: major(2) minor(2) row(4) col(4) ... ; little endian portable binary with 1 byte endianness header
  std::cout << "dump size " << s.size() << "\n";
  // find row/col: after 1 byte endianness flag + 2 + 2
  std::string t = s;
  unsigned big = 1000;
  memcpy(&t[1+2+2], &big, 4);
  memcpy(&t[1+2+2+4], &big, 4);
  DenseMatrix B = DenseMatrix::loads(t);
  std::cout << "loaded " << B.nrows() << "x" << B.ncols() << " with " << B.as_vec_basic().size() << " element(s)\n";
  std::cout << "get(500,500) -> " << std::flush;
  std::cout << B.get(500,500)->__str__() << "\n";
}
