#!/usr/bin/env python3
"""usage: tools/mkseedprompt.py PROP TAG  -> writes /tmp/seed/prompt_<PROP><TAG>.txt
Prompt for an independent seeding sub-agent: the property text, its own
scratch worktree /tmp/seed/<PROP><TAG>, and one-line summaries of what earlier
agents already tried for this property (taken from the agents' own meta.json
summaries under seeded/, never from the checks)."""
import json, os, sys, glob
prop, tag = sys.argv[1], sys.argv[2]
HERE = os.path.dirname(os.path.dirname(os.path.abspath(__file__)))
P = None
for l in open(os.path.join(HERE, "properties.jsonl")):
    p = json.loads(l)
    if p["id"] == prop:
        P = p
W = "/tmp/seed/%s%s" % (prop, tag)
tried = []
for mp in sorted(glob.glob(os.path.join(HERE, "seeded", "*", "meta.json"))):
    m = json.load(open(mp))
    if m.get("property") == prop and m.get("breaks"):
        tried.append("- " + m["breaks"].replace("\n", " ")[:330])
anch = P["anchors"]
mech = "; ".join("%s (%s)" % (m["name"], m["where"]) for m in anch.get("mechanism", []))
txt = f"""You are helping to evaluate a verification effort for SymEngine (a C++ computer-algebra library). Your job is to play the role of a developer who accidentally introduces a subtle bug.

Your scratch copy of the repository is the git worktree at {W} (its HEAD is the current tree). Work ONLY inside {W}. Do NOT read, list or modify anything under /repo or /verif (they are off limits; what you write must be independent of them). There is no network; everything needed is installed (g++ 12, clang 14, cmake, ninja, gmp).

## The property you must break

{P['id']} — {P['title']}

Statement: {P['statement']}

Quantifier: {P['quantifier']['text']}

Where the behaviour lives (anchors): files: {', '.join(anch['files'])}; mechanisms: {mech}

## Task

1. Read the relevant code under {W}/symengine.
2. Craft a realistic change to the library sources (under symengine/, not tests) — the kind of slip a developer could plausibly make: a refactor that drops a case, an "optimisation", a copy-paste error, a changed comparison, a missing update at one of two cooperating sites — such that the property above NO LONGER HOLDS, while
   (a) the library and the entire existing test-suite still compile,
   (b) the entire existing test-suite still passes (do not edit, delete or skip tests),
   (c) the breakage needs something specific to manifest: an unusual input or kind combination, a multi-step sequence of operations, a particular history/interleaving, or two cooperating sites that each look fine alone. It must NOT be something ordinary use would expose at once.
   Keep the change small (ideally < 25 changed lines) and natural-looking; no comments announcing the bug.
3. Write a small demonstration program demo.cpp that links against the built library, exercises the property, prints what it observed, and exits 0 if the property holds on what it tried and non-zero if it is violated. Show that it FAILS with your change and PASSES without it (save your change with `git diff > out/patch.diff`, run `git checkout -- symengine`, rebuild the library to check the unmodified tree, then `git apply out/patch.diff` again; do NOT use `git stash` — the stash is shared with other worktrees of this repository).
4. If time permits, produce a second, independent change of a different nature (different file or mechanism) with its own demo (patch2.diff, demo2.cpp, meta2.json; patch2.diff must apply to a clean HEAD, not on top of patch.diff). One good change is better than two weak ones.

## Already tried by other people (do NOT repeat these; choose a change of a different nature — another class, another mechanism, another clause of the property)

{chr(10).join(tried) if tried else '(nothing yet)'}

## Build / test commands (use exactly this build directory so everything stays inside your worktree)

    cd {W}
    cmake -G Ninja -S . -B _build -DCMAKE_BUILD_TYPE=Release -DCMAKE_CXX_FLAGS_RELEASE="-O1 -DNDEBUG" -DCMAKE_CXX_FLAGS="-Wno-error" -DBUILD_BENCHMARKS=no -DBUILD_TESTS=yes -DINTEGER_CLASS=gmp
    nice cmake --build _build -j6          # first build takes several minutes
    ctest --test-dir _build -j4 --timeout 900      # must report 100% tests passed
    g++ -std=gnu++17 -O1 -I{W} -I{W}/_build -isystem {W}/symengine/utilities/cereal/include out/demo.cpp _build/symengine/libsymengine.a -lgmp -o out/demo && ./out/demo

(The pinned configuration is: GMP integers, no MPFR/MPC/FLINT/LLVM, assertions off (-DNDEBUG), not thread-safe.)

## Deliverables — in {W}/out/

- patch.diff : `git diff` of your change (library sources only; must apply with `git apply` to a clean checkout of HEAD)
- demo.cpp : the demonstration
- meta.json : {{"property": "{prop}", "summary": "...what the change does...", "needs_to_manifest": "...the specific input/sequence/history needed...", "files_touched": [...], "test_suite": "NN/NN passed with the change", "demo_with_change": "exit code + key output", "demo_without_change": "exit code + key output"}}
- (optional) patch2.diff, demo2.cpp, meta2.json

Leave the worktree with your change applied and built. In your final message give a 5-10 line summary: what you changed, why the tests do not notice, what input exposes it, and the results of the three checks (tests pass, demo fails with, demo passes without). If you notice behaviour on the UNMODIFIED tree that already violates the property, mention it briefly at the end.
"""
os.makedirs("/tmp/seed", exist_ok=True)
out = "/tmp/seed/prompt_%s%s.txt" % (prop, tag)
open(out, "w").write(txt)
print(out, len(tried), "earlier attempts listed")
