#!/bin/bash
# One-off cross-reference (not a check): generic clang-tidy bugprone checks and
# cppcheck over the library with the real compile database.  Property-relevant
# hits are triaged by hand (DESIGN.md §13); nothing here decides a property.
DB=${1:-/verif/.work/db-default}
OUT=${2:-/tmp/crossref}
mkdir -p $OUT
CHECKS='-*,bugprone-use-after-move,bugprone-dangling-handle,bugprone-infinite-loop,bugprone-swapped-arguments,bugprone-suspicious-*,bugprone-incorrect-roundings,bugprone-integer-division,bugprone-misplaced-widening-cast,bugprone-string-constructor,bugprone-too-small-loop-variable,bugprone-undefined-memory-manipulation,bugprone-unhandled-self-assignment,bugprone-copy-constructor-init,bugprone-fold-init-type,bugprone-inaccurate-erase,bugprone-move-forwarding-reference,bugprone-multiple-statement-macro,bugprone-redundant-branch-condition,bugprone-signed-char-misuse,bugprone-sizeof-expression,bugprone-branch-clone'
ls /repo/symengine/*.cpp /repo/symengine/*/*.cpp /repo/symengine/parser/sbml/*.cpp 2>/dev/null | grep -v "/tests/\|/utilities/" | \
  xargs -P8 -I{} sh -c "clang-tidy-14 -p $DB -checks='$CHECKS' -header-filter='/repo/symengine/.*' {} 2>/dev/null | grep 'warning:' " | sort -u > $OUT/clang-tidy.txt
wc -l $OUT/clang-tidy.txt
cut -d'[' -f2 $OUT/clang-tidy.txt | sort | uniq -c | sort -rn | head -30
cppcheck --project=$DB/compile_commands.json --enable=warning,portability --inconclusive --quiet -j8 --suppress='*:*/utilities/*' 2> $OUT/cppcheck.txt
wc -l $OUT/cppcheck.txt
