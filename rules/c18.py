"""C18 — parser reuse is stateless (second sentence of the property).

R18.1 reset completeness of Parser::parse / SbmlParser::parse: every data
      member of the parser and of its tokenizer that the parsing code can
      read is (re)initialised on every path of parse() before the generated
      parser runs, unless it is
        * configuration: written only by constructors, or
        * scratch of the generated code: (may-)written inside the reader
          itself (listed as *assumed* written-before-read: that every LALR
          parse reduces the start rule / that re2c saves the marker before
          restoring it is not derivable from the generated tables).
The first sentence (no crash / hang / out-of-bounds on arbitrary bytes) is
not decided: the scanners and parsers are generated tables.
"""
from selib.program import walk, show, short, strip_type
from selib.reset import Reset, ASSIGN_OPS
from selib.build import AnalysisBroken

MUTATORS = {"insert", "emplace", "emplace_back", "push_back", "erase",
            "clear", "assign", "resize", "swap", "pop_back", "push_front",
            "emplace_front", "insert_or_assign", "try_emplace", "merge",
            "append", "reset"}

PARSERS = [
    ("SymEngine::Parser", "SymEngine::Tokenizer", "yy::parser"),
    ("SymEngine::SbmlParser", "SymEngine::SbmlTokenizer", "sbml::parser"),
]


def entry(prog, cls):
    fs = [f for f in prog.functions.values()
          if f.get("cls") == cls and f.get("n") == "parse" and f.get("body")]
    if len(fs) != 1:
        raise AnalysisBroken("%s::parse: expected one definition, got %d"
                             % (cls, len(fs)))
    return fs[0]


def member_writers(prog, RS, tracked):
    """member -> set of (function, is_constructor) that write it (assignment,
    ++/--, non-const member call)"""
    out = {}
    for u, f in prog.functions.items():
        if not f.get("body") or f.get("dependent") \
                or f.get("tk") == "pattern":
            continue
        isctor = bool(f.get("ctor")) or (
            f.get("cls") and f.get("n") == f["cls"].split("::")[-1])
        for ini in f.get("inits", ()):
            if ini.get("m") and f.get("cls") in tracked:
                out.setdefault((f["cls"], ini["m"]), set()).add(
                    (f["qn"], True))
        for n in walk(f["body"]):
            m = None
            if n.get("k") in ("bin", "op") and n.get("op") in ASSIGN_OPS \
                    and n.get("a"):
                m = RS.member(n["a"][0])
            elif n.get("k") in ("un", "op") and n.get("op") in ("++", "--") \
                    and n.get("a"):
                m = RS.member(n["a"][0])
            elif n.get("k") == "mcall" and n.get("n") in MUTATORS \
                    and (n.get("o") or {}).get("k") == "mem":
                # container members change through their mutators
                m = RS.member(n["o"])
            elif n.get("k") == "op" and n.get("op") == "[]" and n.get("a") \
                    and n["a"][0].get("k") == "mem" and "map<" in (
                        n["a"][0].get("t") or ""):
                m = RS.member(n["a"][0])    # map[key] inserts
            if m:
                out.setdefault(m, set()).add((f["qn"], isctor))
    return out


def first_access(RS, f, m):
    """'write' / 'read' / None: the first access to member m in program
    (syntactic evaluation) order of f's body; the right-hand side of an
    assignment is evaluated before its target is written"""
    res = []

    def rec(n):
        if res or not isinstance(n, dict):
            return
        k = n.get("k")
        if k in ("bin", "op") and n.get("op") == "=" \
                and len(n.get("a", ())) == 2:
            rec(n["a"][1])
            if res:
                return
            if RS.member(n["a"][0]) == m and n["a"][0].get("k") == "mem":
                res.append("write")
                return
            rec(n["a"][0])
            return
        if k == "mem" and RS.member(n) == m:
            res.append("read")
            return
        from selib.program import children
        for c in children(n):
            rec(c)
            if res:
                return
    rec(f["body"])
    return res[0] if res else None


def run(loader, R, tier):
    prog = loader()
    R.explanation = (
        "Reset-completeness dataflow (as for C13) over Parser::parse and "
        "SbmlParser::parse: the members the generated parser, its semantic "
        "actions and the scanner can read are computed transitively from the "
        "resolved bodies (parser.tab.cc, tokenizer.cpp and their SBML "
        "twins) and compared with what parse() has (re)initialised before "
        "the generated parser object runs. Decides that no parser state — "
        "including state left by a parse that threw — survives into the next "
        "input, up to the members the generated code itself writes before "
        "reading (assumed, listed). Crash safety on arbitrary bytes is not "
        "decided.")
    R.rule("R18.1", "every member read while parsing is reset by parse() "
                    "first, is constructor-only configuration, or is scratch "
                    "of the generated code")
    R.rule("R18.2", "expressions built from the input are cast to a narrower "
                    "class only under a dominating dynamic type test")
    nmem = 0
    for pcls, tcls, gen in PARSERS:
        for c in (pcls, tcls):
            if c not in prog.classes:
                raise AnalysisBroken("anchor class %s vanished" % c)
        tracked = set(prog.ancestors(pcls)) | set(prog.ancestors(tcls))
        tracked = {c for c in tracked if c in prog.classes}
        RS = Reset(prog, tracked, scope_prefixes=(gen,),
                   scope_files=("/symengine/parser/",))
        f = entry(prog, pcls)
        writers = member_writers(prog, RS, tracked)
        # members read by anything parse() calls
        allreads = {}
        for n in walk(f["body"]):
            if n.get("k") in ("call", "mcall", "ctor", "op") and n.get("u"):
                for t in RS.targets(f, n):
                    for m, gs in RS.reads(t).items():
                        allreads.setdefault(m, set()).update(gs)
        if len(allreads) < 3:
            raise AnalysisBroken("%s::parse: only %d members are read by "
                                 "the parsing code" % (short(pcls),
                                                       len(allreads)))
        # reader closure: functions reachable from the generated parser
        reader_fns = set()
        stack = []
        for n in walk(f["body"]):
            if n.get("k") in ("call", "mcall", "ctor", "op") and n.get("u"):
                h = prog.header(n["u"])
                if (h.get("cls") or "").startswith(gen):
                    stack += RS.targets(f, n)
        seen = set()
        while stack:
            u = stack.pop()
            if u in seen:
                continue
            seen.add(u)
            g = prog.functions.get(u)
            if not g or not g.get("body"):
                continue
            reader_fns.add(g["qn"])
            for n in walk(g["body"]):
                if n.get("k") in ("call", "mcall", "ctor", "op") \
                        and n.get("u"):
                    stack += RS.targets(g, n)
        if not reader_fns:
            raise AnalysisBroken("generated parser %s is not called from "
                                 "%s::parse" % (gen, short(pcls)))
        exempt = set()
        for m in sorted(allreads):
            nmem += 1
            ws = writers.get(m, set())
            non_ctor = {q for q, isctor in ws if not isctor}
            key = "%s:%s::%s" % (short(pcls), short(m[0]), m[1])
            if not non_ctor:
                cls_ = "configuration (constructor-only)"
                exempt.add(m)
            elif non_ctor & reader_fns and all(
                    first_access(RS, g, m) in ("write", None)
                    for g in prog.functions.values()
                    if g.get("body") and g["qn"] in reader_fns
                    and g["qn"] in non_ctor):
                cls_ = "scratch of the generated code (its first access in " \
                       "program order is a write; assumed written before " \
                       "read on every path): " + ", ".join(sorted(
                           short(q) for q in non_ctor & reader_fns))[:120]
                exempt.add(m)
                R.assumptions.append(
                    "%s::%s is written by the generated code before it is "
                    "read (%s)" % (short(m[0]), m[1], ", ".join(sorted(
                        short(q) for q in non_ctor & reader_fns))[:80]))
            else:
                cls_ = "must be reset by parse()"
            R.instance("R18.1", key, sample={"member": key, "class": cls_})
        # members parse() itself reads after the generated parser ran and
        # never writes: they must at least be written by the reader
        own_reads = set()
        for n in walk(f["body"]):
            if n.get("k") == "mem":
                m = RS.member(n)
                if m:
                    own_reads.add(m)
        own_writes = set()
        for n in walk(f["body"]):
            own_writes |= RS.stmt_writes(n) if n.get("k") in (
                "bin", "op", "mcall") else set()
        for m in sorted(own_reads - own_writes - set(allreads)):
            ws = {q for q, isctor in writers.get(m, set()) if not isctor}
            key = "%s:%s::%s" % (short(pcls), short(m[0]), m[1])
            nmem += 1
            if ws & reader_fns:
                R.instance("R18.1", key, sample={
                    "member": key,
                    "class": "result of the generated parser (assumed "
                             "assigned by the start rule's action): "
                             + ", ".join(sorted(short(q)
                                                for q in ws & reader_fns))})
                R.assumptions.append(
                    "%s::%s is assigned by the generated parser on every "
                    "successful parse" % (short(m[0]), m[1]))
            elif not ws:
                R.instance("R18.1", key, sample={
                    "member": key, "class": "configuration"})
            else:
                R.instance("R18.1", key)
                R.violation(
                    "R18.1", "%s:%s" % (short(pcls), m[1]), prog.loc(f),
                    "%s::parse returns member %s::%s, which neither parse() "
                    "nor the generated parser assigns: it carries over from "
                    "an earlier call" % (short(pcls), short(m[0]), m[1]))
        bad, inspected = RS.check(f["u"], exempt=exempt)
        R.info.setdefault("reader_calls", {})[short(pcls)] = [
            "%s:%s reads %d members" % x for x in inspected]
        for line, m in RS.direct_stale_reads:
            R.violation(
                "R18.1", "%s:%s" % (short(pcls), m[1]), prog.loc(f, line),
                "%s::parse reads member %s::%s (line %s) before anything in "
                "this call has (re)initialised it: the result depends on "
                "what a previous call — possibly a failed one — left there"
                % (short(pcls), short(m[0]), m[1], line))
        seenm = set()
        for line, text, m, gs in bad:
            if m in seenm:
                continue
            seenm.add(m)
            R.violation(
                "R18.1", "%s:%s" % (short(pcls), m[1]), prog.loc(f, line),
                "%s::parse runs `%s` (line %s) although member %s::%s, which "
                "the parsing code reads, has not been (re)initialised on "
                "every path of parse(): a reused parser depends on the "
                "previous input" % (short(pcls), text, line, short(m[0]),
                                    m[1]))
    R.floor("members read while parsing", nmem, 8)

    # ---------------------------------------------------------------- R18.2
    # type confusion on arbitrary input: in the parser sources (grammar
    # actions of the generated parsers, parser.cpp, SBML twins) an expression
    # built from the input is cast to a narrower class only under a
    # dominating dynamic type test of the same expression (is_a<T>,
    # is_a_Boolean, ...); an unchecked rcp_static_cast lets e.g. "x | y"
    # treat a Symbol as a Boolean (undefined behaviour, crash).
    from selib import sym as _sym
    FAMILY = {"is_a_Boolean": "SymEngine::Boolean",
              "is_a_Number": "SymEngine::Number",
              "is_a_Set": "SymEngine::Set",
              "is_a_Relational": "SymEngine::Relational"}
    ncast = 0
    for u, f in sorted(prog.functions.items(),
                       key=lambda kv: kv[1]["qn"]):
        if f.get("file", "").endswith("parser_old.cpp"):
            continue        # legacy ExpressionParser (parse_old): not one of
                            # the entry points the property names
        if "/symengine/parser/" not in f.get("file", "") \
                or f.get("dependent") or f.get("tk") == "pattern" \
                or not f.get("body"):
            continue

        def cb2(n, guards, line, f=f):
            nonlocal ncast
            if not (n.get("k") == "call" and n.get("n") in (
                    "rcp_static_cast", "down_cast") and n.get("ta")
                    and n.get("a")):
                return
            T = strip_type(n["ta"][0])
            src_t = strip_type(n["ta"][1]) if len(n["ta"]) > 1 else None
            if not T.startswith("SymEngine::") or T == "SymEngine::Basic":
                return
            if src_t and (src_t == T or prog.derives(src_t, T)):
                return                      # up-cast
            src = show(n["a"][0])
            ncast += 1
            key = "%s@%s" % (short(f["qn"]), n.get("l"))
            ok = False
            for g in _sym.flatten_guards(guards):
                if g[0] == "case":
                    continue
                c, pol = g
                if not pol or c.get("k") != "call" or not c.get("a"):
                    continue
                tested = show(c["a"][0])
                same = tested.lstrip("*") == src.lstrip("*") \
                    or tested.strip("*()") == src.strip("*()")
                if not same:
                    continue
                G = None
                if c.get("n") == "is_a" and c.get("ta"):
                    G = strip_type(c["ta"][0])
                elif c.get("n") in FAMILY:
                    G = FAMILY[c["n"]]
                if G and (G == T or prog.derives(G, T)):
                    ok = True
            R.instance("R18.2", key, sample={"cast": show(n)[:70],
                                             "guarded": ok})
            if not ok:
                R.violation(
                    "R18.2", key.rsplit("@", 1)[0], prog.loc(f, n.get("l")),
                    "%s casts `%s` (an expression built from the input) to "
                    "%s without a dominating dynamic type test: input that "
                    "puts another kind there is reinterpreted (undefined "
                    "behaviour, crash)" % (short(f["qn"]), src[:50],
                                           short(T)))
        _sym.visit_guarded(f["body"], cb2)
    R.floor("narrowing casts in the parser sources", ncast, 4)

    # ---------------------------------------------------------------- R18.3
    # hand-written parser code: a position obtained from find*() is npos when
    # nothing is found; substr/erase/at/operator[] with it throws
    # std::out_of_range (not a library exception) or reads out of bounds
    R.rule("R18.3", "string positions from find*() are tested against npos "
                    "before they are used as positions in the hand-written "
                    "parser code")
    from selib import sym as _sym3
    FIND = {"find", "rfind", "find_first_of", "find_first_not_of",
            "find_last_of", "find_last_not_of"}
    nfind = 0
    nctl = 0
    for u, f in sorted(prog.functions.items(), key=lambda kv: kv[1]["qn"]):
        control = f["qn"].startswith("verif_positive::")
        fn_ = f.get("file") or ""
        if not f.get("body") or f.get("dependent") or not (
                control or ("/symengine/parser/" in fn_
                            and not fn_.endswith((".tab.cc", ".tab.hh",
                                                  "tokenizer.cpp",
                                                  "parser_old.cpp")))):
            continue
        from_find = {}
        for d in walk(f["body"]):
            if d.get("k") == "decl":
                for v in d.get("v", ()):
                    i = v.get("i")
                    if i is not None and any(
                            x.get("k") == "mcall" and x.get("n") in FIND
                            for x in walk(i)):
                        from_find[v["n"]] = show(i)[:40]
            if d.get("k") in ("bin", "op") and d.get("op") == "=" \
                    and d.get("a") and d["a"][0].get("k") == "ref" \
                    and any(x.get("k") == "mcall" and x.get("n") in FIND
                            for x in walk(d["a"][1])):
                from_find[d["a"][0]["n"]] = show(d["a"][1])[:40]
        if not from_find:
            continue

        def cb3(n, guards, line, f=f, from_find=from_find, control=control):
            nonlocal nfind, nctl
            pos = None
            if n.get("k") == "mcall" and n.get("n") in (
                    "substr", "erase", "at") and n.get("a"):
                pos = n["a"][0]
            elif n.get("k") in ("op", "bin") and n.get("op") == "[]" \
                    and len(n.get("a", ())) == 2 and "string" in (
                        n["a"][0].get("t") or ""):
                pos = n["a"][1]
            if pos is None:
                return
            names = [x["n"] for x in walk(pos) if x.get("k") == "ref"
                     and x.get("n") in from_find]
            if not names:
                return
            ok = False
            for g in _sym3.flatten_guards(guards):
                if g[0] == "case":
                    continue
                cnd, pol = g
                t = show(cnd)
                if "npos" in t and cnd.get("k") in ("bin", "op") and (
                        (cnd.get("op") == "!=" and pol)
                        or (cnd.get("op") == "==" and not pol)) \
                        and any(nm in t for nm in names):
                    ok = True
                if any(nm in t for nm in names) and ("size()" in t
                                                     or "length()" in t) \
                        and cnd.get("op") in ("<", "<=", ">", ">="):
                    ok = True
            if control:
                nctl += 0 if ok else 1
                return
            nfind += 1
            key = "%s@%s" % (short(f["qn"]), n.get("l"))
            R.instance("R18.3", key, sample={"use": show(n)[:60],
                                             "tested": ok})
            if not ok:
                R.violation(
                    "R18.3", short(f["qn"]), prog.loc(f, n.get("l")),
                    "%s uses `%s` (from %s) as a string position in `%s` "
                    "without testing it against npos or the length: when "
                    "the search finds nothing the call throws "
                    "std::out_of_range, which escapes parse() as a "
                    "non-library exception, or indexes out of bounds" % (
                        short(f["qn"]), names[0], from_find[names[0]],
                        show(n)[:50]))
        _sym3.visit_guarded(f["body"], cb3)
    R.info["find_derived_positions_in_parser_code"] = nfind
    R.floor("positive control (verif_positive::tail_after_digits) "
            "recognised", nctl, 1)


MANIFEST = dict(
    technique="reset-completeness dataflow (must-write before may-read) "
              "over parse(), with the members read by the generated parser, "
              "its actions and the scanner computed transitively from the "
              "resolved bodies",
    text="Decides the second sentence only: for all sequences of inputs given "
         "to one Parser / SbmlParser object, including after failed parses, "
         "no member read while parsing carries over from a previous call — "
         "each is reset by parse() before the generated parser runs, is "
         "constructor-only configuration, or is scratch that the generated "
         "code writes itself (assumed written before read; listed). Crash / "
         "hang / out-of-bounds freedom on arbitrary bytes is not decided "
         "(generated scanner and LALR tables).",
    note="Members written inside the generated code are assumptions, not "
         "proofs.",
    ref="§2 C18",
)
