"""C15 — generated C code computes the expression's value (structural part).

R15.1 function names: for every function class that the C printers emit
      through the generic `name(args)` path, and whose mathematical function
      exists in C99 <math.h>, the emitted name is that C function
      (Sin -> sin, ..., ASinh -> asinh, Erf -> erf, Floor -> floor,
      Gamma -> tgamma, LogGamma -> lgamma ...).  A name that is *another*
      C math function is a wrong value; a name that is no C function is code
      that does not link.
R15.2 operators: the relational and logical node classes emit the C operator
      that defines them (== != <= < && || !).
R15.3 balanced parentheses on every structured path of every function of the
      C-family printers (necessary for the text to compile).
R15.4 definite assignment of str_ in every reachable handler.
The numeric value of the compiled code is not decided.
"""
from selib.program import walk, show, short, strip_type
from selib.visitors import Visitors, MustAssign
from selib import printers as PR
from selib import emit as EM
from selib.build import AnalysisBroken

PRINTERS = ["SymEngine::C89CodePrinter", "SymEngine::C99CodePrinter"]
FAMILY = ["SymEngine::CodePrinter", "SymEngine::C89CodePrinter",
          "SymEngine::C99CodePrinter"]
# class -> C99 <math.h> function that computes it
C99 = {"Sin": "sin", "Cos": "cos", "Tan": "tan", "ASin": "asin",
       "ACos": "acos", "ATan": "atan", "ATan2": "atan2", "Sinh": "sinh",
       "Cosh": "cosh", "Tanh": "tanh", "ASinh": "asinh", "ACosh": "acosh",
       "ATanh": "atanh", "Log": "log", "Erf": "erf", "Erfc": "erfc",
       "Floor": "floor", "Ceiling": "ceil", "Truncate": "trunc",
       "Abs": "fabs", "Gamma": "tgamma", "LogGamma": "lgamma",
       "Max": "fmax", "Min": "fmin"}
C_MATH = set(C99.values()) | {"exp", "exp2", "expm1", "log10", "log2",
                              "log1p", "sqrt", "cbrt", "pow", "hypot",
                              "gamma", "j0", "j1", "y0", "y1", "round",
                              "fmod", "remainder", "copysign", "fabs", "abs"}
OPERATORS = {"Equality": "==", "Unequality": "!=", "LessThan": "<=",
             "StrictLessThan": "<", "And": "&&", "Or": "||", "Not": "!"}
# functions whose balance depends on two loops having the same trip count
# (outside the literal-stream engine, which unrolls loops independently)
COUNT_CORRELATED = {
    "CodePrinter::bvisit(Piecewise)":
        "opens one '(' per branch in the first loop and closes vec.size() "
        "of them in a second loop over the same vector; read and confirmed",
}
GENERIC = "SymEngine::CodePrinter::bvisit(const SymEngine::Function &)"


def fsig(f):
    return "%s(%s)" % (f.get("qn"), ", ".join(p["t"] for p in f.get(
        "params", ())))


def literal_strings(f):
    return [n.get("v") for n in walk(f["body"])
            if n.get("k") == "lit" and n.get("t") == "str"]


def run(loader, R, tier):
    prog = loader()
    V = Visitors(prog)
    for p in PRINTERS:
        if p not in V.table:
            raise AnalysisBroken("printer %s has no dispatch table" % p)
    R.explanation = (
        "For the C89 and C99 printers: the dispatch table says which handler "
        "prints each node class. Classes printed by the generic "
        "CodePrinter::bvisit(const Function&) get the StrPrinter name of "
        "their type code; classes with a dedicated handler get the literal "
        "in that handler. R15.1 compares these names with the C99 <math.h> "
        "function that computes the class (24 rows); R15.2 the operator "
        "tokens of relational/logical classes; R15.3 balanced parentheses on "
        "every structured path of every function of the C printers (literal "
        "streams, engine E6); R15.4 definite assignment of str_. Decides "
        "that the emitted text names the right C function and operator and "
        "is bracket-balanced for every accepted expression; does not decide "
        "the numeric value of the compiled code (operator precedence in the "
        "emitted text, literal precision, pow special cases).")
    for rid, t in (("R15.1", "emitted function name is the C99 function of "
                             "the class"),
                   ("R15.2", "relational/logical classes emit their C "
                             "operator"),
                   ("R15.3", "parentheses balanced on every path"),
                   ("R15.4", "str_ definitely assigned")):
        R.rule(rid, t)
    R.trusted += ["the class -> C99 function table (24 rows) and the "
                  "operator table (7 rows)"]

    pf, names = PR.printer_names(prog, "SymEngine::init_str_printer_names")
    e2c = PR.enum_to_class(prog)
    c2e = {v: k for k, v in e2c.items()}

    # ---------------------------------------------------------------- R15.1
    n1 = 0
    for p in PRINTERS:
        hs = V.handlers(p)
        for cname, want in sorted(C99.items()):
            X = "SymEngine::" + cname
            h = hs.get(X)
            f = prog.functions.get(h) if h else None
            if f is None:
                continue
            n1 += 1
            key = "%s:%s" % (short(p), cname)
            if fsig(f) == GENERIC:
                enum = c2e.get(X)
                got = names.get(enum, (None,))[0]
                how = "name table"
                where = prog.loc(pf, names.get(enum, (None, None))[1])
            else:
                lits = [s for s in literal_strings(f)
                        if s and s.replace("_", "").isalnum()
                        and not s[0].isdigit()]
                got = lits[0] if lits else None
                how = short(f["qn"]) + "(" + short(strip_type(
                    f["params"][0]["t"])) + ")"
                where = prog.loc(f)
                if any(n.get("k") in ("mcall", "call")
                       and n.get("n") == "print_binary_reduction"
                       for n in walk(f["body"])) and lits:
                    got = lits[0]
            R.instance("R15.1", key, sample={"class": cname, "emitted": got,
                                             "through": how})
            if got is None:
                # rewritten before printing (RewriteTrigVisitor) or thrown
                continue
            if got != want:
                R.violation(
                    "R15.1", key, where,
                    "%s prints %s as `%s(...)` (%s); the C function that "
                    "computes it is `%s`%s" % (
                        short(p), cname, got, how, want,
                        ": `%s` is a different C library function, so the "
                        "generated code compiles and computes another value"
                        % got if got in C_MATH else
                        ": `%s` is not a C library function, so the "
                        "generated code does not link" % got))
    R.floor("(printer, class) name comparisons", n1, 40)

    # ---------------------------------------------------------------- R15.2
    n2 = 0
    for p in PRINTERS:
        hs = V.handlers(p)
        for cname, op in sorted(OPERATORS.items()):
            X = "SymEngine::" + cname
            f = prog.functions.get(hs.get(X))
            if f is None:
                continue
            n2 += 1
            key = "%s:%s" % (short(p), cname)
            toks = [s.strip().strip("()") for s in literal_strings(f)]
            toks = [t for t in toks if t and not t.replace("_", "").isalnum()]
            R.instance("R15.2", key, sample={"class": cname,
                                             "operator_literals": toks})
            if op not in toks:
                R.violation(
                    "R15.2", key, prog.loc(f),
                    "%s prints %s with the operator literal(s) %s; its C "
                    "operator is `%s`" % (short(p), cname, toks or "none",
                                          op))
            else:
                other = [t for t in toks if t in OPERATORS.values()
                         and t != op and t != "!"]
                if other and cname not in ("Not",):
                    R.violation(
                        "R15.2", key, prog.loc(f),
                        "%s prints %s with %s besides `%s`" % (
                            short(p), cname, other, op))
    R.floor("(printer, class) operator comparisons", n2, 12)

    # ---------------------------------------------------------------- R15.5
    # interval side consistency: the comparison emitted for the lower bound
    # (" > " / " >= ") is chosen by left_open, the one for the upper bound
    # (" < " / " <= ") by right_open — under a condition (if or ?:) over the
    # matching accessor.
    from selib import sym as _sym
    SIDE = {" > ": ("get_left_open", True), " >= ": ("get_left_open", False),
            " < ": ("get_right_open", True), " <= ": ("get_right_open",
                                                      False)}
    n5 = 0
    for c in FAMILY:
        for f in prog.functions.values():
            if f.get("cls") != c or not f.get("body") \
                    or f.get("dependent") or f.get("n") != "bvisit" \
                    or not f.get("params") \
                    or strip_type(f["params"][0]["t"]) \
                    != "SymEngine::Interval":
                continue
            pname = f["params"][0]["n"]

            def cb(n, guards, line, f=f):
                nonlocal n5
                if not (n.get("k") == "lit" and n.get("t") == "str"
                        and n.get("v") in SIDE):
                    return
                n5 += 1
                acc, pol_want = SIDE[n["v"]]
                ok = False
                seen = []
                for g in guards:
                    if g[0] == "case":
                        continue
                    cnd, pol = g
                    t = show(cnd)
                    if "get_left_open" in t or "get_right_open" in t:
                        seen.append((t[:40], bool(pol)))
                    if acc in t and bool(pol) == pol_want \
                            and not ("get_left_open" in t
                                     and "get_right_open" in t):
                        ok = True
                key = "%s:%s@%s" % (short(f["qn"]), n["v"].strip(),
                                    n.get("l") or line)
                R.instance("R15.5", key, sample={"literal": n["v"],
                                                 "conditions": seen})
                if not ok:
                    R.violation(
                        "R15.5", "%s:%s" % (short(f["qn"]), n["v"].strip()),
                        prog.loc(f, n.get("l") or line),
                        "%s emits `%s` under the condition(s) %s; the %s "
                        "comparison must be selected by %s() == %s" % (
                            short(f["qn"]), n["v"].strip(), seen or "none",
                            "lower-bound" if "left" in acc else "upper-bound",
                            acc, str(pol_want).lower()))
            _sym.visit_guarded(f["body"], cb)
    R.rule("R15.5", "interval bound comparisons are selected by the "
                    "matching open flag")
    R.floor("interval comparison literals", n5, 4)

    # ---------------------------------------------------------------- R15.3
    E = EM.Emit(prog, normalise=EM.norm_paren)
    n3 = 0
    for c in FAMILY:
        for f in sorted((g for g in prog.functions.values()
                         if g.get("cls") == c and g.get("body")
                         and not g.get("dependent")
                         and g.get("tk") != "pattern"),
                        key=lambda g: (g["file"], g["line"])):
            E.literal_args = []
            E.nlits = 0
            finals = E.run(f)
            key = "%s(%s)" % (short(f["qn"]), ", ".join(
                short(strip_type(p["t"])) for p in f.get("params", ())))
            outs = {p["n"] for p in f.get("params", ())
                    if p["t"].rstrip().endswith("&")
                    and not p["t"].lstrip().startswith("const ")
                    and (EM.is_stream(p["t"]) or EM.is_string(p["t"]))}
            if key in COUNT_CORRELATED:
                R.exception(key, "R15.3: " + COUNT_CORRELATED[key])
                R.instance("R15.3", key, nontrivial=False)
                continue
            bad = None
            for st in finals:
                for sn, toks in st.sinks.items():
                    if not (sn.startswith("this.") or sn == "<return>"
                            or sn in outs):
                        continue
                    why = EM.paren_check(toks)
                    if why and bad is None:
                        bad = (sn, why, EM.flatten(toks))
            if E.nlits:
                n3 += 1
            R.instance("R15.3", key, nontrivial=E.nlits > 0)
            if bad:
                R.violation(
                    "R15.3", key, prog.loc(f),
                    "%s: on some path the text written to `%s` has "
                    "unbalanced parentheses (%s; residue %s): the generated "
                    "C does not compile" % (key, bad[0], bad[1], bad[2]))
    R.floor("C-printer functions emitting literals", n3, 20)

    # ---------------------------------------------------------------- R15.4
    MA = MustAssign(prog, "str_")
    n4 = 0
    for p in PRINTERS:
        for h, Xs in sorted(V.by_handler(p).items()):
            f = prog.functions.get(h)
            if f is None:
                raise AnalysisBroken("handler without body: "
                                     + prog.name_of(h))
            n4 += 1
            key = "%s::bvisit(%s)" % (short(p), short(
                f["params"][0]["t"]) if f.get("params") else "?")
            R.instance("R15.4", key)
            bad = MA.unassigned_exits(f)
            if bad:
                R.violation(
                    "R15.4", key, prog.loc(f, bad[0] if bad[0] != "end"
                                           else None),
                    "%s (reached for %s) can finish without assigning str_"
                    % (key, ", ".join(short(x) for x in Xs[:4])))
    R.floor("handlers of the C printers", n4, 100)

    # ---------------------------------------------------------------- R15.6
    # a node printed *as another expression* (cot(x) as 1/tan(x), an
    # UnevaluatedExpr as its argument) keeps the binding strength that the
    # Precedence visitor reports for the original node; the parent decides on
    # parentheses with that, so the replacement must bind at least as tightly
    R.rule("R15.6", "a node printed through a replacement expression binds "
                    "as tightly as Precedence reports for the node")
    LEVEL = {"add": "Add", "sub": "Add", "mul": "Mul", "div": "Mul",
             "neg": "Mul", "pow": "Pow"}
    ORDER = ["Relational", "Add", "Mul", "Pow", "Atom"]
    PREC = "SymEngine::Precedence"
    if PREC not in V.table:
        raise AnalysisBroken("Precedence visitor has no dispatch table")
    seen6 = {}
    for u, f in sorted(prog.functions.items(), key=lambda kv: kv[1]["qn"]):
        if f.get("dependent") or f["n"] not in ("visit", "bvisit") \
                or not f.get("body") or len(f.get("params", ())) != 1:
            continue
        cls = f.get("cls") or ""
        owner = cls
        if cls.startswith("SymEngine::RewriteTrigVisitor<"):
            owner = cls[len("SymEngine::RewriteTrigVisitor<"):].split(",")[0]
        if not any(prog.derives(owner, p) for p in FAMILY):
            continue
        st = [x for x in f["body"].get("s", ()) if x.get("k") != "null"]
        if len(st) != 1 or st[0].get("k") != "expr":
            continue
        e = st[0]["e"]
        repl = None
        if e.get("k") == "mcall" and e.get("n") == "accept":
            repl = e.get("o")
        elif e.get("k") in ("op", "bin") and e.get("op") == "=" \
                and e["a"][0].get("k") == "mem" \
                and e["a"][0].get("m") == "str_" \
                and e["a"][1].get("k") == "mcall" \
                and e["a"][1].get("n") == "apply" and e["a"][1].get("a"):
            repl = e["a"][1]["a"][0]
        if repl is None:
            continue
        while repl.get("k") in ("op", "un", "cast", "ctor") \
                and len(repl.get("a", ())) == 1:
            repl = repl["a"][0]
        X = strip_type(f["params"][0]["t"])
        if repl.get("k") == "call":
            level = LEVEL.get(repl.get("n"), "Atom")
            how = "%s(...)" % repl.get("n")
        elif repl.get("k") == "mcall" and (repl.get("o") or {}).get(
                "k") == "ref" and repl["o"].get("d") == "param":
            level = "child"
            how = "its operand %s()" % repl.get("n")
        else:
            continue
        ph = prog.functions.get(V.handlers(PREC).get(X))
        if ph is None:
            continue
        pt = strip_type(ph["params"][0]["t"])
        if pt == "SymEngine::Basic":
            px = "Atom"
        elif any(n.get("k") == "mcall" and n.get("n") == "accept"
                 for n in walk(ph["body"])):
            px = "delegates"
        else:
            continue            # computed per value (Add/Mul/Pow/numbers)
        key = short(X)
        if key in seen6:
            continue
        seen6[key] = 1
        R.instance("R15.6", key, sample={
            "class": key, "printed_as": how, "replacement_level": level,
            "precedence_reported": px, "handler": short(f["qn"])})
        if px == "Atom" and (level == "child" or ORDER.index(level)
                             < ORDER.index("Atom")):
            R.violation(
                "R15.6", key, prog.loc(f),
                "%s prints %s as %s (binding like %s) while Precedence "
                "reports Atom for %s: a parent that divides by it, "
                "multiplies it or raises it to a power omits the "
                "parentheses and the generated code computes a different "
                "value" % (short(f["qn"]), key, how,
                           "an arbitrary expression" if level == "child"
                           else "a " + level, key))
    R.floor("nodes printed through a replacement expression", len(seen6), 10)

    # ---------------------------------------------------------------- R15.8
    # the same question for handlers that write the text themselves: a
    # code-printer handler of a class for which Precedence reports Atom
    # assigns str_ from a concatenation of literals; the concatenated text
    # (other pieces stand for an atom) must not contain an infix operator
    # outside parentheses -- the parent prints it unparenthesised after `/`
    # or `*`.
    R.rule("R15.8", "text written for an Atom-precedence node has no infix "
                    "operator outside parentheses")

    def texts(e, depth=0):
        if not isinstance(e, dict) or depth > 40:
            return ["X"]
        k = e.get("k")
        if k == "lit" and isinstance(e.get("v"), str) \
                and ((e.get("t") or "") == "str"
                     or "char" in (e.get("t") or "")):
            return [e["v"]]
        if k == "?:":
            return (texts(e["a"][1], depth + 1)
                    + texts(e["a"][2], depth + 1))[:64]
        if k == "op" and e.get("op") == "+" and len(e.get("a", ())) == 2:
            L = texts(e["a"][0], depth + 1)
            Rr = texts(e["a"][1], depth + 1)
            return [x + y for x in L for y in Rr][:64]
        if k in ("cast", "ctor", "op", "un", "bind", "tmp") \
                and len(e.get("a", ())) == 1:
            return texts(e["a"][0], depth + 1)
        return ["X"]

    def bare_operator(t):
        t = t.strip().strip('"')
        d = 0
        for i, ch in enumerate(t):
            if ch in "([{":
                d += 1
            elif ch in ")]}":
                d -= 1
            elif d == 0 and i > 0 and ch in "+-*/%<>=&|?:" \
                    and not (ch in "+-" and t[i - 1] in "eE"
                             and i >= 2 and t[i - 2].isdigit()):
                return ch
        return None
    n8 = 0
    for u, f in sorted(prog.functions.items(), key=lambda kv: kv[1]["qn"]):
        if f.get("dependent") or f["n"] != "bvisit" or not f.get("body") \
                or len(f.get("params", ())) != 1:
            continue
        cls = f.get("cls") or ""
        if not any(prog.derives(cls, p) for p in FAMILY):
            continue
        X = strip_type(f["params"][0]["t"])
        ph = prog.functions.get(V.handlers(PREC).get(X))
        if ph is None or strip_type(ph["params"][0]["t"]) \
                != "SymEngine::Basic":
            continue            # Precedence computes something for it
        for n in walk(f["body"]):
            if not (n.get("k") == "op" and n.get("op") == "="
                    and len(n.get("a", ())) == 2
                    and n["a"][0].get("k") == "mem"
                    and n["a"][0].get("m") == "str_"):
                continue
            alts = texts(n["a"][1])
            if all(t == "X" for t in alts):
                continue
            n8 += 1
            key = "%s(%s)@%s" % (short(cls), short(X), n.get("l"))
            R.instance("R15.8", key, sample={"texts": alts[:3]})
            for t in alts:
                op = bare_operator(t)
                if op:
                    R.violation(
                        "R15.8", "%s(%s)" % (short(cls), short(X)),
                        prog.loc(f, n.get("l")),
                        "%s::bvisit(%s) writes the text `%s` (X = a printed "
                        "piece) with the infix operator `%s` outside "
                        "parentheses, while Precedence reports Atom for "
                        "%s: after a `/` or `*` of the parent the generated "
                        "code computes a different value" % (
                            short(cls), short(X), t[:50], op, short(X)))
                    break
    R.floor("literal texts written for Atom-precedence nodes", n8, 4)

    # ---------------------------------------------------------------- R15.7
    from rules.c44 import infix_operands
    infix_operands(prog, R, "R15.7", only=set(PRINTERS))


MANIFEST = dict(
    technique="table agreement (dispatch table x printer name table x "
              "handler literals vs the C99 <math.h> definition table), "
              "literal-stream balance per structured path, definite "
              "assignment, agreement between a handler's replacement "
              "expression and the Precedence visitor's dispatch table",
    text="Decides the structural necessary conditions of 'the generated C "
         "computes the value' for every expression the C89/C99 printers "
         "accept: each of 24 function classes is emitted under the name of "
         "the C99 function that computes it, the relational/logical classes "
         "emit their defining C operator, the emitted text is parenthesis-"
         "balanced on every path, every handler assigns its result, the "
         "interval comparisons are selected by the matching open/closed "
         "flag, and a node printed through a replacement expression "
         "(cot as 1/tan, an UnevaluatedExpr as its operand) binds as "
         "tightly as the Precedence visitor reports for it. The numeric "
         "value of the compiled program (precedence inside literal text, "
         "integer-typed literals such as 1/((c) ? 2 : 3), literal "
         "precision, pow special cases) is not decided: that needs a C "
         "compiler and a run.",
    note="Trusted: the 24-row class->C99 function table.",
    ref="§14 C15 (claimed during the build phase)",
)
