#!/usr/bin/env python3
"""Both-ways fixtures: applies each patch under fixtures/mutants/<PROP>/ to a
scratch copy of /repo (never to /repo itself), runs ./check PROP against the
copy and compares with the expectation in the patch header:

    # expect: violation <key-substring>      (must exit 1 and name the key)
    # expect: silent                         (must exit 0: behaviour-preserving)

usage: tools/selftest.py [PROP ...]   (default: all);  exit 0 iff all match.
"""
import json
import os
import shutil
import subprocess
import sys
import tempfile

HERE = os.path.dirname(os.path.dirname(os.path.abspath(__file__)))
MUT = os.path.join(HERE, "fixtures", "mutants")


def run(props=None, keep=False, quiet=False):
    results = []
    if not os.path.isdir(MUT):
        return results
    props = props or sorted(os.listdir(MUT))
    base = tempfile.mkdtemp(prefix="verif-selftest-")
    scratch = os.path.join(base, "repo")
    work = os.path.join(base, "work")
    try:
        os.makedirs(scratch)
        subprocess.check_call(
            ["rsync", "-a", "--exclude", "_build", "--exclude", ".git",
             "/repo/", scratch + "/"])
        env = dict(os.environ, VERIF_REPO=scratch, VERIF_WORK=work,
                   VERIF_NOFORCE="1", VERIF_SELFTEST="1")
        # share the extractor binary
        os.makedirs(os.path.join(work, "bin"), exist_ok=True)
        for fn in ("sefacts", "sefacts.srchash"):
            src = os.path.join(HERE, ".work", "bin", fn)
            if os.path.exists(src):
                shutil.copy2(src, os.path.join(work, "bin", fn))
        work_items = []
        for prop in props:
            pdir = os.path.join(MUT, prop)
            if os.path.isdir(pdir):
                for fn in sorted(os.listdir(pdir)):
                    if fn.endswith(".diff"):
                        work_items.append((prop, fn, os.path.join(pdir, fn)))
            # changes seeded by independent sub-agents (/verif/seeded/<name>)
            sdir = os.path.join(HERE, "seeded")
            if os.path.isdir(sdir):
                for name in sorted(os.listdir(sdir)):
                    mp = os.path.join(sdir, name, "meta.json")
                    pp = os.path.join(sdir, name, "patch.diff")
                    if os.path.exists(mp) and os.path.exists(pp) and \
                            json.load(open(mp)).get("property") == prop:
                        work_items.append((prop, "seeded/" + name, pp))
        if True:
            for prop, fn, path in work_items:
                expect = None
                for line in open(path):
                    if line.startswith("# expect:"):
                        expect = line[len("# expect:"):].strip()
                        break
                if expect is None:
                    results.append((prop, fn, False, "no expectation header"))
                    continue
                ap = subprocess.run(["patch", "-p1", "-s", "-d", scratch,
                                     "-i", path], capture_output=True,
                                    text=True)
                if ap.returncode != 0:
                    results.append((prop, fn, False,
                                    "patch does not apply: " + ap.stdout[-300:]))
                    subprocess.run(["rsync", "-a", "--exclude", "_build",
                                    "--exclude", ".git", "--delete",
                                    "/repo/", scratch + "/"])
                    continue
                r = subprocess.run([os.path.join(HERE, "check"), prop,
                                    "--tier", "quick"], env=env,
                                   capture_output=True, text=True, cwd=HERE)
                subprocess.run(["patch", "-p1", "-R", "-s", "-d", scratch,
                                "-i", path], capture_output=True)
                out = r.stdout
                if expect.startswith("missed"):
                    # documented miss: the change is outside the decided
                    # clause; the check must stay silent (if it starts to
                    # fire, the expectation has to be updated)
                    ok = r.returncode == 0
                    why = "" if ok else "exit=%d: a documented miss is now " \
                        "reported; update the expectation. tail: %s" % (
                            r.returncode, out[-400:])
                elif expect.startswith("violation"):
                    want = expect[len("violation"):].strip()
                    ok = r.returncode == 1 and "VIOLATION property=" + prop \
                        in out and (not want or want in out)
                    why = "" if ok else "exit=%d, wanted violation %r; " \
                        "output tail: %s" % (r.returncode, want, out[-600:])
                else:
                    ok = r.returncode == 0 and "VIOLATION" not in out
                    why = "" if ok else "exit=%d, wanted silence; output " \
                        "tail: %s" % (r.returncode, out[-600:])
                results.append((prop, fn, ok, why))
                if not quiet:
                    print("%-4s %-44s %s %s" % (prop, fn,
                                                "ok" if ok else "MISMATCH",
                                                why), flush=True)
    finally:
        if not keep:
            shutil.rmtree(base, ignore_errors=True)
    # the selftest runs rewrite evidence files for the scratch tree: callers
    # must re-run the real check afterwards (./check does this in thorough)
    return results


if __name__ == "__main__":
    res = run(sys.argv[1:] or None)
    bad = [r for r in res if not r[2]]
    print("%d fixtures, %d mismatches" % (len(res), len(bad)))
    sys.exit(1 if bad else 0)
