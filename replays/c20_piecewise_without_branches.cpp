// C20: a Piecewise record with 0 branches loads and then crashes its users
#include <symengine/basic.h>
#include <symengine/symbol.h>
#include <symengine/logic.h>
#include <symengine/functions.h>
#include <symengine/eval_double.h>
#include <iostream>
#include <unistd.h>
#include <sys/wait.h>
using namespace SymEngine;
int main(){
    RCP<const Basic> x = symbol("x");
    auto pw = piecewise({{integer(2), Lt(x, integer(0))}, {integer(3), boolTrue}});
    std::string d = pw->dumps();
    for (int i = 15; i <= 22; i++) d[i] = 0;      // branch count := 0
    pid_t p = fork();
    if (p == 0) {
        try {
            RCP<const Basic> e = Basic::loads(d);
            std::cout << "loaded a Piecewise with " << down_cast<const Piecewise &>(*e).get_vec().size() << " branches" << std::endl;
            std::cout << e->__str__() << std::endl;
        } catch (std::exception &ex) { std::cout << "exception: " << ex.what() << std::endl; }
        _exit(0);
    }
    int st; waitpid(p, &st, 0);
    if (WIFSIGNALED(st)) { std::cout << "SIGNAL " << WTERMSIG(st) << " while printing the loaded object\n"; return 1; }
    return 0;
}
