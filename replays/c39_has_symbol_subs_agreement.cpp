#include <symengine/visitor.h>
#include <symengine/functions.h>
#include <symengine/symbol.h>
#include <symengine/add.h>
#include <symengine/mul.h>
#include <symengine/pow.h>
#include <iostream>
using namespace SymEngine;
int bad = 0;
void chk(const RCP<const Basic> &e, const RCP<const Basic> &s){
    set_basic fs = free_symbols(*e);
    bool in_free = fs.find(s) != fs.end();
    bool hs = has_symbol(*e, *s);
    std::cout << e->__str__() << "  sym " << s->__str__() << ": free=" << in_free << " has=" << hs << (in_free==hs?"":"   DISAGREE") << "\n";
    if (in_free != hs) bad++;
}
int main(){
    RCP<const Symbol> x = symbol("x"), y = symbol("y"), z = symbol("z");
    RCP<const Basic> f = function_symbol("f", {x, y});
    map_basic_basic d; d[x] = integer(1);
    RCP<const Basic> S1 = make_rcp<const Subs>(f, d);
    map_basic_basic d2; d2[x] = z;
    RCP<const Basic> S2 = make_rcp<const Subs>(f, d2);
    map_basic_basic d3; d3[x] = add(x, one);
    RCP<const Basic> S3 = make_rcp<const Subs>(f, d3);
    for (auto &e : {S1, S2, S3, add(S1, x), add(x, S1), mul(S1, pow(x, integer(2))), function_symbol("g", {S1, x}), function_symbol("g", {x, S1}), pow(S1, x), add(add(S2, y), sin(x)), mul(y, S1)})
        for (auto &s : {x, y, z}) chk(e, s);
    std::cout << "coeff(y*S1, x, 0) = " << coeff(*mul(y, S1), *x, *integer(0))->__str__() << "\n";
    return bad ? 1 : 0;
}
