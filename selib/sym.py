"""Structured-code analyses shared by the rules (all on the mini-IR):

  * access-path normalisation with trivial-accessor inlining   (engine E1)
  * boolean assume/true-path enumeration                       (engine E2a)
  * guard contexts = conditions known to hold at a site        (engine E2b)

The IR is structured (if/for/while/switch/try, no goto in the analysed
functions), so "dominated by a test taking edge e" is computed on the tree:
a site is guarded by (c, pol) when it lies in the corresponding branch of an
`if`, to the right of a short-circuit operator, or after an `if` whose other
branch always leaves the enclosing block.
"""
from .program import walk, show, strip_type, children
from .build import AnalysisBroken

MAX_ALTS = 4096


# ----------------------------------------------------------------- accessors
class Paths:
    """access paths rooted at 'this' / a parameter / a local alias"""

    def __init__(self, prog):
        self.prog = prog
        self._acc = {}

    def accessor(self, usr):
        """if function `usr` is a trivial accessor (`return <path of this>;`)
        return that path (tuple of field names), else None"""
        if usr in self._acc:
            return self._acc[usr]
        self._acc[usr] = None          # recursion guard
        f = self.prog.functions.get(usr)
        res = None
        if f and f.get("body") and not f.get("static"):
            ss = f["body"].get("s", [])
            if len(ss) == 1 and ss[0].get("k") == "return" and ss[0].get("e"):
                r = self.norm(ss[0]["e"], {}, selfroot="this")
                if r and r[0] == "this" and r[1]:
                    if not any(p.endswith("()") for p in r[1]):
                        res = r[1]
        self._acc[usr] = res
        return res

    def norm(self, e, env, selfroot="this"):
        """-> (root, path) or None.  root: 'this', 'param:<name>',
        or whatever env maps a local name to.  path: tuple of field names;
        non-accessor member calls appear as 'name()' components."""
        if e is None:
            return None
        k = e.get("k")
        if k == "this":
            return (selfroot, ())
        if k == "ref":
            d = e.get("d")
            if d == "param":
                return ("param:" + e["n"], ())
            if d == "local":
                return env.get(e["n"], ("local:" + e["n"], ()))
            return None
        if k == "mem":
            if e.get("fn") or e.get("static"):
                return None
            b = self.norm(e.get("o"), env, selfroot)
            if b is None:
                return None
            return (b[0], b[1] + (e["m"],))
        if k == "un" and e.get("op") in ("*", "&"):
            return self.norm(e["a"][0], env, selfroot)
        if k == "op" and e.get("op") in ("*", "->") and len(e.get("a", ())) == 1:
            return self.norm(e["a"][0], env, selfroot)
        if k == "cast":
            return self.norm(e["a"][0], env, selfroot)
        if k == "call":
            n = e.get("n")
            if n in ("down_cast", "rcp_static_cast", "rcp_dynamic_cast",
                     "move", "forward", "ptrFromRef", "rcp_const_cast") \
                    and len(e.get("a", ())) == 1:
                return self.norm(e["a"][0], env, selfroot)
            return None
        if k == "mcall":
            b = self.norm(e.get("o"), env, selfroot)
            if b is None:
                return None
            acc = self.accessor(e.get("u")) if e.get("u") else None
            if acc is not None:
                return (b[0], b[1] + acc)
            n = e.get("n", "?")
            if n in ("get", "ptr", "getRawPtr", "rcp_from_this",
                     "rcp_from_this_cast"):      # RCP::get(), self handles
                return b
            return (b[0], b[1] + (n + "()",))
        if k == "ctor" and len(e.get("a", ())) == 1:
            # copy / conversion construction keeps the value
            return self.norm(e["a"][0], env, selfroot)
        if k in ("defarg",):
            return self.norm(e["a"][0], env, selfroot) if e.get("a") else None
        return None

    def reads(self, e, env, selfroot="this"):
        """all maximal access paths read anywhere inside e: [(root, path)]"""
        out = []

        def rec(n):
            if not isinstance(n, dict):
                return
            r = self.norm(n, env, selfroot) if n.get("k") in (
                "this", "ref", "mem", "mcall", "un", "op", "cast", "call",
                "ctor") else None
            if r is not None and (r[1] or r[0] == selfroot):
                out.append(r)
                # arguments of member calls are still reads
                if n.get("k") == "mcall":
                    for a in n.get("a", ()):
                        rec(a)
                return
            for c in children(n):
                rec(c)
        rec(e)
        return out


def bind_locals(stmt, paths, env, selfroot="this"):
    """record `T &x = <path>` / `auto x = <path>` aliases from a decl stmt"""
    if stmt.get("k") != "decl":
        return
    for v in stmt.get("v", ()):
        if v.get("i") is not None:
            r = paths.norm(v["i"], env, selfroot)
            if r is not None and (r[1] or not r[0].startswith("local:")):
                env[v["n"]] = r


# ----------------------------------------------------------------- booleans
def _product(A, B):
    out = []
    for a in A:
        for b in B:
            out.append(a + b)
            if len(out) > MAX_ALTS:
                raise AnalysisBroken("path explosion in boolean enumeration")
    return out


def assume(e, pol):
    """alternatives (DNF) under which boolean expression e evaluates to pol.
    Each alternative is a list of (atom, polarity)."""
    if e is None:
        return [[]]
    k = e.get("k")
    if k == "lit" and e.get("t") == "bool":
        return [[]] if bool(e.get("v")) == pol else []
    if k == "lit" and e.get("t") == "int":
        return [[]] if (str(e.get("v")) != "0") == pol else []
    if k == "bin" and e.get("op") in ("&&", "||"):
        a, b = e["a"]
        conj = (e["op"] == "&&") == pol
        if conj:
            return _product(assume(a, pol), assume(b, pol))
        return assume(a, pol) + assume(b, pol)
    if k == "un" and e.get("op") == "!":
        return assume(e["a"][0], not pol)
    if k == "op" and e.get("op") == "!" and len(e.get("a", ())) == 1:
        return [[(e, pol)]]
    if k == "?:":
        c, t, f = e["a"]
        return _product(assume(c, True), assume(t, pol)) \
            + _product(assume(c, False), assume(f, pol))
    return [[(e, pol)]]


def always_exits(s):
    """statement never falls through to its successor"""
    if s is None:
        return False
    k = s.get("k")
    if k in ("return", "break", "continue", "goto"):
        return True
    if k == "expr":
        e = s.get("e") or {}
        if e.get("k") == "throw":
            return True
        return False
    if k == "{}":
        return any(always_exits(x) for x in s.get("s", ()))
    if k == "if":
        return s.get("e") is not None and always_exits(s["t"]) \
            and always_exits(s["e"])
    if k == "try":
        return always_exits(s.get("b")) and all(
            always_exits(h.get("b")) for h in s.get("h", ()))
    return False


class Outcome:
    __slots__ = ("facts", "expr", "line", "kind")

    def __init__(self, facts, expr, line, kind):
        self.facts = facts      # list of (atom, pol)
        self.expr = expr        # returned expression (kind == 'return')
        self.line = line
        self.kind = kind        # 'return' | 'throw' | 'end'


def enumerate_paths(body, on_stmt=None):
    """all structured paths through a function body.
    Returns list of Outcome.  Loops: the body is taken once (optimistic about
    checks performed inside) and also skipped when it contains no return."""
    outs = []

    def run(s, alts):
        """alts: list of fact lists reaching s; returns fall-through alts"""
        if s is None or not alts:
            return alts
        k = s.get("k")
        if on_stmt:
            on_stmt(s)
        if k == "{}":
            for x in s.get("s", ()):
                alts = run(x, alts)
                if not alts:
                    break
            return alts
        if k == "if":
            if s.get("init"):
                alts = run(s["init"], alts)
            c = s.get("c")
            t_alts = _product(alts, assume(c, True))
            f_alts = _product(alts, assume(c, False))
            ft = run(s.get("t"), t_alts)
            ff = run(s.get("e"), f_alts) if s.get("e") else f_alts
            res = ft + ff
            if len(res) > MAX_ALTS:
                raise AnalysisBroken("path explosion")
            return res
        if k == "return":
            for a in alts:
                outs.append(Outcome(a, s.get("e"), s.get("l"), "return"))
            return []
        if k == "expr":
            e = s.get("e") or {}
            if e.get("k") == "throw":
                for a in alts:
                    outs.append(Outcome(a, e, s.get("l"), "throw"))
                return []
            return alts
        if k in ("for", "while", "forr", "do"):
            if k == "for" and s.get("init"):
                alts = run(s["init"], alts)
            inner = alts
            if k in ("for", "while") and s.get("c"):
                inner = _product(alts, assume(s["c"], True))
            after = run(s.get("b"), inner)
            # break/continue inside are treated as fall-through of the loop
            return after if after else alts
        if k in ("break", "continue"):
            return alts
        if k == "switch":
            return run(s.get("b"), alts)
        if k in ("case", "default"):
            return run(s.get("b"), alts)
        if k == "try":
            res = run(s.get("b"), alts)
            for h in s.get("h", ()):
                res = res + run(h.get("b"), alts)
            return res
        if k == "label":
            return run(s.get("b"), alts)
        return alts

    rest = run(body, [[]])
    for a in rest:
        outs.append(Outcome(a, None, None, "end"))
    return outs


def true_paths(body, on_stmt=None):
    """fact lists of every path on which a bool function may return true"""
    res = []
    for o in enumerate_paths(body, on_stmt):
        if o.kind != "return" or o.expr is None:
            continue
        for alt in assume(o.expr, True):
            res.append((o.facts + alt, o.line))
    return res


# ----------------------------------------------------------------- guards
def visit_guarded(body, cb):
    """calls cb(node, guards, stmt_line) for every expression node, where
    guards is a tuple of (cond_expr, polarity) known to hold when the node is
    evaluated.  Also ('case', switch_expr, value_expr) entries for switches."""

    def expr(e, g, line):
        if not isinstance(e, dict):
            return
        cb(e, g, line)
        k = e.get("k")
        if k == "bin" and e.get("op") in ("&&", "||"):
            a, b = e["a"]
            expr(a, g, line)
            expr(b, g + ((a, e["op"] == "&&"),), line)
            return
        if k == "?:":
            c, t, f = e["a"]
            expr(c, g, line)
            expr(t, g + ((c, True),), line)
            expr(f, g + ((c, False),), line)
            return
        if k == "lambda":
            block(e.get("b"), g)
            for i in e.get("inits", ()):
                expr(i, g, line)
            return
        for c in children(e):
            if c.get("k") in STMT_KINDS:
                block(c, g)
            else:
                expr(c, g, line)

    def block(s, g):
        """returns guards that additionally hold after s falls through"""
        if s is None:
            return g
        k = s.get("k")
        line = s.get("l")
        if k == "{}":
            gg = g
            for x in s.get("s", ()):
                gg = block(x, gg)
            return g if gg is g else gg  # facts learned persist in sequence
        if k == "if":
            if s.get("init"):
                block(s["init"], g)
            if s.get("cv"):
                cv = s["cv"]
                if cv.get("i"):
                    expr(cv["i"], g, line)
            c = s.get("c")
            expr(c, g, line)
            block(s.get("t"), g + ((c, True),))
            if s.get("e"):
                block(s["e"], g + ((c, False),))
            t_exit = always_exits(s.get("t"))
            e_exit = always_exits(s.get("e")) if s.get("e") else False
            if t_exit and not e_exit:
                return g + ((c, False),)
            if e_exit and not t_exit:
                return g + ((c, True),)
            return g
        if k == "expr":
            expr(s.get("e"), g, line)
            return g
        if k == "return":
            if s.get("e"):
                expr(s["e"], g, line)
            return g
        if k == "decl":
            for v in s.get("v", ()):
                if v.get("i"):
                    expr(v["i"], g, line)
            return g
        if k == "for":
            if s.get("init"):
                block(s["init"], g)
            gg = g
            if s.get("c"):
                expr(s["c"], g, line)
                gg = g + ((s["c"], True),)
            if s.get("inc"):
                expr(s["inc"], gg, line)
            block(s.get("b"), gg)
            return g
        if k == "while":
            expr(s.get("c"), g, line)
            block(s.get("b"), g + ((s["c"], True),))
            return g
        if k == "do":
            block(s.get("b"), g)
            expr(s.get("c"), g, line)
            return g
        if k == "forr":
            expr(s.get("r"), g, line)
            block(s.get("b"), g)
            return g
        if k == "switch":
            expr(s.get("c"), g, line)
            sw = s.get("c")
            body = s.get("b")
            # case labels directly inside the switch body
            cur = g
            if body and body.get("k") == "{}":
                for x in body.get("s", ()):
                    if x.get("k") in ("case", "default"):
                        cur = g + (("case", sw, x.get("v")),)
                        inner = x
                        while inner.get("k") in ("case", "default"):
                            inner = inner.get("b") or {}
                        block(inner, cur)
                    else:
                        block(x, cur)
            else:
                block(body, g)
            return g
        if k in ("case", "default", "label"):
            block(s.get("b"), g)
            return g
        if k == "try":
            block(s.get("b"), g)
            for h in s.get("h", ()):
                block(h.get("b"), g)
            return g
        if k == "xs":
            for x in s.get("s", ()):
                block(x, g)
            return g
        return g

    block(body, ())


STMT_KINDS = {"{}", "if", "for", "while", "do", "forr", "switch", "case",
              "default", "return", "break", "continue", "decl", "try", "goto",
              "label", "null", "xs", "expr"}


def _atoms(c, acc):
    k = c.get("k") if isinstance(c, dict) else None
    if k == "bin" and c.get("op") in ("&&", "||"):
        _atoms(c["a"][0], acc)
        _atoms(c["a"][1], acc)
    elif k == "un" and c.get("op") == "!":
        _atoms(c["a"][0], acc)
    elif k is not None:
        acc.setdefault(show(c), c)


def _eval(c, val):
    k = c.get("k")
    if k == "bin" and c.get("op") == "&&":
        return _eval(c["a"][0], val) and _eval(c["a"][1], val)
    if k == "bin" and c.get("op") == "||":
        return _eval(c["a"][0], val) or _eval(c["a"][1], val)
    if k == "un" and c.get("op") == "!":
        return not _eval(c["a"][0], val)
    return val[show(c)]


def flatten_guards(guards):
    """atomic facts entailed by the guards.  Unambiguous cases are expanded
    syntactically ((a && b, True) -> a, b; (a || b, False) -> !a, !b); when
    compound guards remain, the atoms (<= 12) are enumerated propositionally
    so that e.g. !(!R && !I) together with !R entails I."""
    simple = _flatten_simple(guards)
    conds = [g for g in guards if g[0] != "case"]
    compound = False
    for c, pol in conds:
        k = c.get("k")
        if (k == "bin" and c.get("op") == "&&" and not pol) or \
                (k == "bin" and c.get("op") == "||" and pol) or \
                (k == "un" and c.get("op") == "!"
                 and c["a"][0].get("k") == "bin"
                 and c["a"][0].get("op") in ("&&", "||")):
            compound = True
    if not compound:
        return simple
    atoms = {}
    for c, pol in conds:
        _atoms(c, atoms)
    keys = sorted(atoms)
    if len(keys) > 12:
        return simple
    models = []
    for m in range(1 << len(keys)):
        val = {k: bool(m >> i & 1) for i, k in enumerate(keys)}
        if all(_eval(c, val) == pol for c, pol in conds):
            models.append(val)
    if not models:
        return simple
    have = {(show(c), pol) for c, pol in
            [g for g in simple if g[0] != "case"]}
    out = list(simple)
    for k in keys:
        vals = {m[k] for m in models}
        if len(vals) == 1:
            v = vals.pop()
            if (k, v) not in have:
                out.append((atoms[k], v))
    return out


def _flatten_simple(guards):
    out = []

    def rec(c, pol):
        if not isinstance(c, dict):
            return
        k = c.get("k")
        if k == "bin" and c.get("op") == "&&" and pol:
            rec(c["a"][0], True)
            rec(c["a"][1], True)
        elif k == "bin" and c.get("op") == "||" and not pol:
            rec(c["a"][0], False)
            rec(c["a"][1], False)
        elif k == "un" and c.get("op") == "!":
            rec(c["a"][0], not pol)
        else:
            out.append((c, pol))
    for g in guards:
        if g[0] == "case":
            out.append(g)
        else:
            rec(g[0], g[1])
    return out
