"""Engine E6 — stream-literal paths.

For one function, enumerates the structured paths (if/else forks, loops
unrolled 0, 1 and 2 times, throw ends a path without obligation) and records,
per *sink* (a stream or string variable, the stream/string members of the
printer, the returned string), the ordered sequence of string literals
written to it, with a placeholder for every dynamic part.

Tokens:  ("lit", text)  |  ("dyn", kind, text-of-expression, node)
kind is "nested" for results of other printing functions (assumed balanced by
induction — each of those functions is itself checked), "name" for strings
taken from the expression (get_name()), "value" for numbers and anything
else.
States are de-duplicated after every statement (conditions do not matter to
the literal stream), which keeps the enumeration small.
"""
from .program import walk, show, short, strip_type, children
from .build import AnalysisBroken

STREAM_T = ("std::basic_ostringstream<", "std::basic_ostream<",
            "std::basic_stringstream<", "std::ostringstream",
            "std::stringstream")
STRING_T = ("std::basic_string<", "std::string")
MAX_STATES = 4096


def is_stream(t):
    return strip_type(t or "").startswith(STREAM_T)


def is_string(t):
    t = (t or "").strip()
    if t in ("const char *", "const char *const", "char *"):
        return True
    return strip_type(t).startswith(STRING_T)


def _key(tokens):
    return tuple(t[:2] if t[0] == "lit" else ("dyn", t[1]) for t in tokens)


class State:
    __slots__ = ("sinks", "done")

    def __init__(self, sinks=None, done=None):
        self.sinks = sinks or {}        # name -> tuple(tokens)
        self.done = done                # None | 'return' | 'throw'

    def copy(self):
        return State(dict(self.sinks), self.done)

    def key(self):
        return (self.done, tuple(sorted((k, _key(v))
                                        for k, v in self.sinks.items())))


def dedupe(states, normalise=None):
    seen = set()
    out = []
    if normalise is not None:
        for s in states:
            for k in list(s.sinks):
                s.sinks[k] = normalise(s.sinks[k])
    for s in states:
        k = s.key()
        if k not in seen:
            seen.add(k)
            out.append(s)
    if len(out) > MAX_STATES:
        raise AnalysisBroken("emit: more than %d distinct literal streams in "
                             "one function" % MAX_STATES)
    return out


class Emit:
    def __init__(self, prog, name_getters=("get_name",), normalise=None):
        self.prog = prog
        # optional projection of a token sequence onto what the balance
        # check needs (keeps the number of distinct streams small)
        self.normalise = normalise
        self.name_getters = set(name_getters)
        self.literal_args = []      # (fn, line, literal) passed to helpers
        self.nlits = 0              # string literals seen in emissions

    # ------------------------------------------------------------ sinks
    def sink_name(self, e):
        """name of the sink an lvalue expression denotes"""
        while e is not None and e.get("k") == "cast":
            e = e["a"][0]
        if e is None:
            return None
        k = e.get("k")
        if k == "ref" and (is_stream(e.get("t")) or is_string(e.get("t"))):
            return e.get("n")
        if k == "mem" and (is_stream(e.get("t")) or is_string(e.get("t"))):
            o = e.get("o")
            if o is None or o.get("k") == "this":
                return "this." + e.get("m")
        return None

    # ------------------------------------------------------------ values
    def value(self, e, st):
        """tokens of a string-valued / streamed expression"""
        if e is None:
            return ()
        k = e.get("k")
        if k == "lit":
            if e.get("t") == "str":
                self.nlits += 1
                return (("lit", e.get("v", "")),)
            if e.get("t") == "char":
                v = e.get("v")
                try:
                    return (("lit", chr(int(v))),)
                except (TypeError, ValueError):
                    return (("lit", str(v)),)
            return (("dyn", "value", show(e), e),)
        if k in ("cast", "defarg", "definit") and e.get("a"):
            return self.value(e["a"][0], st)
        if k == "ctor":
            a = [x for x in e.get("a", ()) if x.get("k") != "defarg"]
            if is_string(e.get("t")) and len(a) == 1:
                return self.value(a[0], st)
            if is_string(e.get("t")) and not a:
                return ()
            if len(a) == 1 and (is_string(a[0].get("t"))
                                or a[0].get("k") in ("lit", "op", "ctor",
                                                     "cast")):
                return self.value(a[0], st)
            return (("dyn", "value", show(e), e),)
        if k == "op" and e.get("op") == "+" and len(e.get("a", ())) == 2:
            return self.value(e["a"][0], st) + self.value(e["a"][1], st)
        if k == "?:":
            # both alternatives must be individually fine; the stream keeps
            # the first and the second is recorded as a literal obligation
            a = e["a"]
            for alt in (a[1], a[2]):
                for t in self.value(alt, st):
                    if t[0] == "lit":
                        self.literal_args.append((e.get("l"), t[1]))
            return (("dyn", "nested", show(e), e),)
        sn = self.sink_name(e)
        if sn is not None and sn in st.sinks and is_string(e.get("t")):
            return st.sinks[sn]
        if k == "mcall":
            n = e.get("n")
            if n == "str" and not e.get("a"):
                s2 = self.sink_name(e.get("o"))
                if s2 is not None and s2 in st.sinks:
                    return st.sinks[s2]
            if n in self.name_getters:
                return (("dyn", "name", show(e), e),)
            rt = self.prog.header(e.get("u", "")).get("ret", "")
            for a in e.get("a", ()):
                self._literal_arg(a, e.get("l"))
            if is_string(rt):
                return (("dyn", "nested", show(e), e),)
            return (("dyn", "value", show(e), e),)
        if k == "call":
            rt = self.prog.header(e.get("u", "")).get("ret", "")
            for a in e.get("a", ()):
                self._literal_arg(a, e.get("l"))
            if is_string(rt):
                return (("dyn", "nested", show(e), e),)
            return (("dyn", "value", show(e), e),)
        return (("dyn", "value", show(e), e),)

    def _literal_arg(self, a, line):
        while a is not None and a.get("k") in ("cast", "ctor", "defarg") \
                and a.get("a"):
            a = a["a"][0]
        if a is not None and a.get("k") == "lit" and a.get("t") == "str":
            self.literal_args.append((line, a.get("v", "")))

    # ------------------------------------------------------------ effects
    def effect(self, e, st):
        """applies the effect of one expression statement to st"""
        if e is None:
            return
        k = e.get("k")
        if k == "op" and e.get("op") == "<<" and len(e.get("a", ())) == 2:
            chain = []
            x = e
            while x.get("k") == "op" and x.get("op") == "<<" \
                    and len(x.get("a", ())) == 2:
                chain.append(x["a"][1])
                x = x["a"][0]
            sn = self.sink_name(x)
            if sn is None:
                return
            chain.reverse()
            cur = st.sinks.get(sn, ())
            for item in chain:
                if item.get("k") == "ref" and item.get("n") in ("endl",
                                                                "flush"):
                    continue
                cur = cur + self.value(item, st)
            st.sinks[sn] = cur
            return
        if k in ("op", "bin") and e.get("op") in ("=", "+=") \
                and len(e.get("a", ())) == 2:
            sn = self.sink_name(e["a"][0])
            if sn is not None and is_string(e["a"][0].get("t")):
                v = self.value(e["a"][1], st)
                if e.get("op") == "=":
                    st.sinks[sn] = v
                else:
                    st.sinks[sn] = st.sinks.get(sn, ()) + v
            return
        if k in ("call", "mcall"):
            # a stream passed by reference receives the callee's (balanced,
            # checked separately) output; literal arguments are obligations
            h = self.prog.header(e.get("u", ""))
            ps = h.get("params", ())
            hit = False
            for i, a in enumerate(e.get("a", ())):
                self._literal_arg(a, e.get("l"))
                sn = self.sink_name(a)
                if sn is not None and i < len(ps) and (
                        is_stream(ps[i].get("t"))) and ps[i]["t"].rstrip(
                            ).endswith("&"):
                    st.sinks[sn] = st.sinks.get(sn, ()) + (
                        ("dyn", "nested", show(e), e),)
                    hit = True
            if k == "mcall" and not hit:
                # mutation of a tracked string through a member function
                # (substr/erase/transform) makes its content dynamic
                sn = self.sink_name(e.get("o"))
                if sn is not None and sn in st.sinks and e.get("n") in (
                        "erase", "pop_back", "insert", "replace", "resize",
                        "clear"):
                    st.sinks[sn] = (("dyn", "nested", show(e), e),) \
                        if e.get("n") != "clear" else ()
            return

    # ------------------------------------------------------------ statements
    def run(self, f):
        """returns the list of final States of f"""
        finals = []
        init = State()

        def step(s, states):
            if s is None or not states:
                return states
            k = s.get("k")
            if k == "{}":
                for x in s.get("s", ()):
                    states = step(x, states)
                    if not states:
                        break
                return states
            if k == "decl":
                out = []
                for st in states:
                    st = st.copy()
                    for v in s.get("v", ()):
                        t = v.get("t")
                        if v.get("static"):
                            continue
                        if is_stream(t) and not (t or "").rstrip(
                                ).endswith("&"):
                            st.sinks[v["n"]] = ()
                        elif is_string(t) and not (t or "").rstrip(
                                ).endswith("&"):
                            st.sinks[v["n"]] = self.value(v.get("i"), st) \
                                if v.get("i") is not None else ()
                        elif v.get("i") is not None:
                            for n in walk(v["i"]):
                                if n.get("k") in ("call", "mcall"):
                                    self.effect(n, st)
                    out.append(st)
                return dedupe(out, self.normalise)
            if k == "expr":
                e = s.get("e") or {}
                if e.get("k") == "throw":
                    return []
                out = []
                for st in states:
                    st = st.copy()
                    self.effect(e, st)
                    out.append(st)
                return dedupe(out, self.normalise)
            if k == "return":
                for st in states:
                    st = st.copy()
                    if s.get("e") is not None and is_string(
                            f.get("ret")):
                        st.sinks["<return>"] = self.value(s["e"], st)
                    st.done = "return"
                    finals.append(st)
                return []
            if k == "if":
                if s.get("init"):
                    states = step(s["init"], states)
                a = step(s.get("t"), [x.copy() for x in states])
                b = step(s.get("e"), [x.copy() for x in states]) \
                    if s.get("e") else states
                return dedupe(a + b, self.normalise)
            if k in ("for", "while", "forr", "do"):
                if k == "for" and s.get("init"):
                    states = step(s["init"], states)
                out = list(states) if k != "do" else []
                cur = states
                for _ in range(2):
                    cur = step(s.get("b"), [x.copy() for x in cur])
                    if k == "for" and s.get("inc") is not None:
                        for st in cur:
                            self.effect(s["inc"], st)
                    out += cur
                    if not cur:
                        break
                return dedupe(out, self.normalise)
            if k in ("break", "continue"):
                return states
            if k == "switch":
                body = s.get("b") or {}
                stmts = body.get("s", []) if body.get("k") == "{}" else [body]
                groups = []
                curg = None
                for x in stmts:
                    if x.get("k") in ("case", "default"):
                        curg = [x.get("b")]
                        groups.append(curg)
                    elif curg is not None:
                        curg.append(x)
                out = list(states)
                for g in groups:
                    cur = [x.copy() for x in states]
                    for x in g:
                        if x is not None and x.get("k") == "break":
                            break
                        cur = step(x, cur)
                    out += cur
                return dedupe(out, self.normalise)
            if k in ("case", "default", "label"):
                return step(s.get("b"), states)
            if k == "try":
                return step(s.get("b"), states)
            return states

        rest = step(f.get("body"), [init])
        for st in rest:
            st.done = "end"
            finals.append(st)
        return dedupe(finals, self.normalise)


# --------------------------------------------------------------------------
# balance checkers over token sequences
import re

_XML_TAG = re.compile(r"<(/?)([^<>]*?)(/?)>")
DYN = "\x00"


def flatten(tokens):
    return "".join(t[1] if t[0] == "lit" else DYN for t in tokens)


def xml_check(tokens):
    """None if the literal stream is a well-nested XML fragment (dynamic
    parts are text or a dynamic tag name), else a description"""
    s = flatten(tokens)
    stack = []
    pos = 0
    for m in _XML_TAG.finditer(s):
        between = s[pos:m.start()]
        if "<" in between or ">" in between:
            return "stray '<' or '>' in text %r" % between[:30]
        pos = m.end()
        closing, body, selfclose = m.group(1), m.group(2), m.group(3)
        name = body.strip().split(" ")[0] if body.strip() else ""
        if not name:
            return "empty tag"
        if closing:
            if not stack:
                return "closing tag </%s> with nothing open" % name
            top = stack.pop()
            if top != name:
                return "closing tag </%s> does not match open <%s>" % (
                    name, top)
        elif selfclose:
            pass
        else:
            if body.count('"') % 2:
                return "unterminated attribute in <%s>" % body[:30]
            stack.append(name)
    rest = s[pos:]
    if "<" in rest or ">" in rest:
        return "unterminated tag in %r" % rest[:30]
    if stack:
        return "tag <%s> is never closed" % stack[-1]
    return None


_TEX = re.compile(r"\\\\|\\\{|\\\}|\\left(?![a-zA-Z])|\\right(?![a-zA-Z])"
                  r"|\{|\}")


def latex_check(tokens):
    """None if {} groups and \\left/\\right pairs nest properly"""
    s = flatten(tokens)
    stack = []
    for m in _TEX.finditer(s):
        t = m.group(0)
        if t in ("\\\\", "\\{", "\\}"):
            continue
        if t == "{":
            stack.append("{")
        elif t == "\\left":
            stack.append("\\left")
        elif t == "}":
            if not stack or stack[-1] != "{":
                return "'}' closes %s" % (stack[-1] if stack
                                          else "nothing")
            stack.pop()
        elif t == "\\right":
            if not stack or stack[-1] != "\\left":
                return "\\right closes %s" % (stack[-1] if stack
                                              else "nothing")
            stack.pop()
    if stack:
        return "%s is never closed" % stack[-1]
    return None


def paren_check(tokens):
    """round parentheses balance (SBML / plain text output)"""
    s = flatten(tokens)
    d = 0
    for ch in s:
        if ch == "(":
            d += 1
        elif ch == ")":
            d -= 1
            if d < 0:
                return "')' with nothing open"
    if d:
        return "'(' is never closed"
    return None


# --------------------------------------------------------------------------
# projections: keep only what the balance check looks at and cancel matched
# pairs, so that the residue of a balanced stream is empty
def norm_paren(tokens):
    out = []
    for t in tokens:
        if t[0] != "lit":
            continue
        for ch in t[1]:
            if ch == "(":
                out.append("(")
            elif ch == ")":
                if out and out[-1] == "(":
                    out.pop()
                else:
                    out.append(")")
    return tuple(("lit", c) for c in out)


def norm_latex(tokens):
    out = []
    for t in tokens:
        if t[0] != "lit":
            continue
        for m in _TEX.finditer(t[1]):
            x = m.group(0)
            if x in ("\\\\", "\\{", "\\}"):
                continue
            if x == "}" and out and out[-1] == "{":
                out.pop()
            elif x == "\\right" and out and out[-1] == "\\left":
                out.pop()
            else:
                out.append(x)
    return tuple(("lit", c) for c in out)
