"""C04 — canonical form ignores operand order and grouping (storage clause).

R4.1 the n-ary commutative node classes store their operands in a container
     whose order is a function of expression identity: an unordered container
     with RCPBasicHash + RCPBasicKeyEq, or an ordered one with
     RCPBasicKeyLess (Add::dict_, Mul::dict_, And/Or::container_).
R4.2 classes that store a plain vector (Max, Min, Xor): at every construction
     site outside the class the vector handed to the constructor is filled
     only from the range of a local RCPBasicKeyLess set (range constructor,
     std::copy over [begin, end) into a vector of the set's size, or
     get_vec_from_set) and is not modified afterwards.
With C01/C02 this makes storage order a function of the operand multiset.
The merge rules (coefficients collected, powers combined, complementary
literals) are not decided.
"""
from selib.program import walk, show, short, strip_type
from selib.build import AnalysisBroken

KEYED = {"SymEngine::Add": "dict_", "SymEngine::Mul": "dict_",
         "SymEngine::And": "container_", "SymEngine::Or": "container_"}
VECTOR_CLASSES = ["SymEngine::Max", "SymEngine::Min", "SymEngine::Xor"]


def canonical_container(t):
    t = strip_type(t)
    if t.startswith(("std::unordered_map<", "std::unordered_set<")):
        return "SymEngine::RCPBasicHash" in t and \
            "SymEngine::RCPBasicKeyEq" in t
    if t.startswith(("std::map<", "std::set<")):
        return "SymEngine::RCPBasicKeyLess" in t
    return False


def is_keyless_set(t):
    t = strip_type(t or "")
    return t.startswith("std::set<") and "SymEngine::RCPBasicKeyLess" in t


def run(loader, R, tier):
    prog = loader()
    R.explanation = (
        "Type rule on the class table for the keyed containers of Add, Mul, "
        "And, Or; flow rule over every construction site of Max, Min and Xor "
        "(outside the classes' own create()/loaders): the vector argument is "
        "traced to a local vector whose only writers are a copy of the whole "
        "range of a local std::set<…, RCPBasicKeyLess> (or get_vec_from_set "
        "of such a set). Decides that two operand orders cannot yield "
        "structurally different nodes by storage order; does not decide the "
        "merge rules (collected coefficients, combined powers, complementary "
        "literals), which depend on run-time values.")
    R.rule("R4.1", "operand containers of Add/Mul/And/Or are keyed by "
                   "expression identity (hash+eq or RCPBasicKeyLess)")
    R.rule("R4.2", "vectors stored by Max/Min/Xor are copies of a "
                   "RCPBasicKeyLess set, unmodified afterwards")

    # ---------------------------------------------------------------- R4.1
    for cls, member in sorted(KEYED.items()):
        if cls not in prog.classes:
            raise AnalysisBroken("class %s vanished" % cls)
        fld = [f for c, f in prog.fields(cls) if f["n"] == member]
        if not fld:
            raise AnalysisBroken("%s::%s vanished" % (cls, member))
        t = fld[0]["t"]
        key = "%s::%s" % (short(cls), member)
        R.instance("R4.1", key, sample={"member": key,
                                        "type": short(strip_type(t))[:110]})
        if not canonical_container(t):
            R.violation(
                "R4.1", key, "%s:%s" % (
                    prog.classes[cls].get("file", "?").replace("/repo/", ""),
                    fld[0].get("line")),
                "%s has type %s: its iteration/storage order is not a "
                "function of expression identity, so the same operands in a "
                "different order give a structurally different node" % (
                    key, short(strip_type(t))[:120]))

    # ---------------------------------------------------------------- R4.2
    nsites = 0
    for u, f in sorted(prog.functions.items(),
                       key=lambda kv: kv[1]["qn"]):
        if f.get("dependent") or f.get("tk") == "pattern" \
                or not f.get("body"):
            continue
        if f.get("cls") in VECTOR_CLASSES or f["n"] in ("load_basic",):
            continue                # create()/loaders re-wrap existing args
        for n in walk(f["body"]):
            if not (n.get("k") == "call" and n.get("n") == "make_rcp"
                    and n.get("ta")
                    and strip_type(n["ta"][0]) in VECTOR_CLASSES
                    and n.get("a")):
                continue
            K = strip_type(n["ta"][0])
            nsites += 1
            key = "%s@%s:%s" % (short(K), short(f["qn"]), n.get("l"))
            arg = n["a"][0]
            while arg.get("k") in ("cast", "ctor") and len(
                    [x for x in arg.get("a", ()) if x.get("k") != "defarg"]
            ) == 1:
                arg = [x for x in arg["a"] if x.get("k") != "defarg"][0]
            if arg.get("k") == "call" and arg.get("n") in ("move",
                                                           "forward"):
                arg = arg["a"][0]
            why = None
            src = None
            if arg.get("k") == "call" and arg.get("n") == "get_vec_from_set":
                a0 = arg["a"][0]
                if a0.get("k") == "ref" and is_keyless_set(a0.get("t")):
                    src = "get_vec_from_set(%s)" % a0["n"]
                else:
                    why = "get_vec_from_set of something that is not a " \
                          "local RCPBasicKeyLess set"
            elif arg.get("k") == "ctor" and strip_type(
                    arg.get("t", "")).startswith("std::vector<"):
                a = [x for x in arg.get("a", ()) if x.get("k") != "defarg"]
                sets = [x for x in walk(arg) if x.get("k") == "ref"
                        and is_keyless_set(x.get("t"))]
                if len(a) == 2 and len(sets) == 2 \
                        and sets[0]["n"] == sets[1]["n"] \
                        and "begin" in show(a[0]) and "end" in show(a[1]):
                    src = "vector(%s.begin(), %s.end())" % (sets[0]["n"],
                                                            sets[0]["n"])
                else:
                    why = "temporary vector not built from the whole range " \
                          "of a local RCPBasicKeyLess set"
            elif arg.get("k") == "ref" and arg.get("d") == "local":
                vname = arg["n"]
                # all writers of the vector
                writers = []
                decl_ok = False
                for m in walk(f["body"]):
                    if m.get("k") == "decl":
                        for v in m.get("v", ()):
                            if v["n"] != vname:
                                continue
                            i = v.get("i") or {}
                            a = [x for x in i.get("a", ())
                                 if x.get("k") != "defarg"]
                            # vector(set.size()) or vector(set.begin(), end)
                            txt = show(i)
                            sets = [x for x in walk(i)
                                    if x.get("k") == "ref"
                                    and is_keyless_set(x.get("t"))]
                            if sets and (".size()" in txt
                                         or ".begin()" in txt):
                                decl_ok = True
                                src = sets[0]["n"]
                    if m.get("k") == "mcall" and (m.get("o") or {}).get(
                            "n") == vname and m.get("n") in (
                            "push_back", "emplace_back", "insert", "erase",
                            "assign", "resize", "clear", "pop_back"):
                        writers.append(show(m)[:50])
                    if m.get("k") in ("bin", "op") and m.get("op") in (
                            "=",) and m.get("a") and any(
                            x.get("k") == "ref" and x.get("n") == vname
                            for x in walk(m["a"][0])):
                        writers.append(show(m)[:50])
                    if m.get("k") == "call" and m.get("n") in (
                            "sort", "stable_sort", "reverse", "swap",
                            "rotate", "shuffle") and any(
                            x.get("k") == "ref" and x.get("n") == vname
                            for x in walk(m)):
                        writers.append(show(m)[:50])
                    if m.get("k") == "call" and m.get("n") == "copy" \
                            and len(m.get("a", ())) == 3 and any(
                            x.get("k") == "ref" and x.get("n") == vname
                            for x in walk(m["a"][2])):
                        srcs = [x for x in walk(m["a"][0])
                                if x.get("k") == "ref"
                                and is_keyless_set(x.get("t"))]
                        srce = [x for x in walk(m["a"][1])
                                if x.get("k") == "ref"
                                and is_keyless_set(x.get("t"))]
                        if not (srcs and srce
                                and srcs[0]["n"] == srce[0]["n"]
                                and "begin" in show(m["a"][0])
                                and "end" in show(m["a"][1])):
                            writers.append(show(m)[:50])
                if not decl_ok:
                    why = "the vector `%s` is not created from a local " \
                          "RCPBasicKeyLess set" % vname
                elif writers:
                    why = "the vector `%s` is modified after/besides the " \
                          "copy from the set: %s" % (vname, writers[0])
            else:
                why = "the argument `%s` cannot be traced to a local set" \
                    % show(arg)[:50]
            R.instance("R4.2", key, sample={"site": key, "source_set": src})
            if why:
                R.violation(
                    "R4.2", "%s@%s" % (short(K), short(f["qn"])),
                    prog.loc(f, n.get("l")),
                    "%s constructs a %s from a vector that is not a plain "
                    "copy of an identity-ordered set (%s): its argument "
                    "order depends on the order in which operands arrived"
                    % (short(f["qn"]), short(K), why))
    R.floor("construction sites of Max/Min/Xor", nsites, 4)

    # ---------------------------------------------------------------- R4.4
    merge_discipline(prog, R)

    # ---------------------------------------------------------------- R4.3
    # complementary literals: x together with Not(x) must merge whichever
    # operand brought them in (directly or through a nested And/Or)
    from rules.c03 import complementary_probe
    complementary_probe(prog, R, "R4.3")


def merge_discipline(prog, R):
    """R4.4: the caller's term dictionary (a non-const reference parameter of
    Mul's / Add's static helpers) is only extended through find-or-merge: a
    raw insertion of a key is allowed only where that very key has just been
    looked up and found absent.  A raw (range) insertion silently keeps the
    old exponent/coefficient of a key that is already present, so the result
    depends on the order in which the operands arrived."""
    from selib import sym as _sym
    R.rule("R4.4", "a term enters the caller's Mul/Add dictionary raw only "
                   "under a failed look-up of that key; otherwise it is "
                   "merged")
    DICTS = {"SymEngine::Mul": "std::map<SymEngine::RCP<const SymEngine::Basic>, SymEngine::RCP<const SymEngine::Basic>",
             "SymEngine::Add": "std::unordered_map<SymEngine::RCP<const SymEngine::Basic>, SymEngine::RCP<const SymEngine::Number>"}
    nraw = 0
    nfun = 0
    for u, f in sorted(prog.functions.items(), key=lambda kv: kv[1]["qn"]):
        cls = f.get("cls")
        if cls not in DICTS or not f.get("body") or f.get("dependent"):
            continue
        dps = [p["n"] for p in f.get("params", ())
               if DICTS[cls] in p["t"].replace("const SymEngine::RCP", "SymEngine::RCP")
               .replace("SymEngine::RCP<SymEngine", "SymEngine::RCP<const SymEngine")
               or (("map_basic_basic" in p["t"] or "umap_basic_num" in p["t"]))]
        dps = [p["n"] for p in f.get("params", ())
               if p["n"] in dps and p["t"].rstrip().endswith("&")
               and not p["t"].rstrip().endswith("&&")
               and not p["t"].lstrip().startswith("const ")]
        if not dps:
            continue
        nfun += 1
        # iterators bound to d.find(key)
        finds = {}
        for n in walk(f["body"]):
            if n.get("k") == "decl":
                for v in n.get("v", ()):
                    i = v.get("i")
                    while i is not None and i.get("k") in ("cast", "ctor") \
                            and len(i.get("a", ())) == 1:
                        i = i["a"][0]
                    if i is not None and i.get("k") == "mcall" \
                            and i.get("n") == "find" \
                            and (i.get("o") or {}).get("n") in dps \
                            and i.get("a"):
                        finds[v["n"]] = (i["o"]["n"], show(i["a"][0]))

        def cb(n, guards, line, f=f, dps=dps, finds=finds):
            nonlocal nraw
            d = key = None
            if n.get("k") == "call" and n.get("n") == "insert" \
                    and len(n.get("a", ())) == 3 \
                    and n["a"][0].get("k") == "ref" \
                    and n["a"][0].get("n") in dps:
                d, key = n["a"][0]["n"], show(n["a"][1])
            elif n.get("k") == "mcall" and n.get("n") in (
                    "insert", "emplace", "insert_or_assign", "try_emplace") \
                    and (n.get("o") or {}).get("k") == "ref" \
                    and n["o"].get("n") in dps:
                d = n["o"]["n"]
                key = show(n["a"][0]) if len(n.get("a", ())) == 1 else None
                if len(n.get("a", ())) == 2 and n.get("n") == "insert":
                    key = None              # (begin, end): a range
            elif n.get("k") in ("bin", "op") and n.get("op") == "=" \
                    and n.get("a") and n["a"][0].get("k") == "op" \
                    and n["a"][0].get("op") == "[]" \
                    and n["a"][0]["a"][0].get("k") == "ref" \
                    and n["a"][0]["a"][0].get("n") in dps:
                d, key = n["a"][0]["a"][0]["n"], show(n["a"][0]["a"][1])
            if d is None:
                return
            nraw += 1
            k = "%s:%s@%s" % (short(f["qn"]), d, n.get("l"))
            ok = False
            for g in _sym.flatten_guards(guards):
                if g[0] == "case":
                    continue
                c, pol = g
                txt = show(c)
                if c.get("k") in ("bin", "op") and c.get("op") in ("==", "!=") \
                        and "end()" in txt and (c["op"] == "==") == bool(pol):
                    for itn, (dd, kk) in finds.items():
                        if dd == d and key is not None and kk == key \
                                and any(y.get("k") == "ref"
                                        and y.get("n") == itn
                                        for y in walk(c)):
                            ok = True
                    if key is not None and ("%s.find(%s)" % (d, key)) in txt:
                        ok = True
            R.instance("R4.4", k, sample={"site": k, "key": key,
                                          "under_failed_lookup": ok})
            if not ok:
                R.violation(
                    "R4.4", "%s:%s" % (short(f["qn"]), d),
                    prog.loc(f, n.get("l")),
                    "%s inserts %s into the caller's dictionary `%s` "
                    "without a failed look-up of that key (`%s`): if the "
                    "key is already present its old exponent/coefficient "
                    "is kept and the new factor is dropped, so the result "
                    "depends on the order of the operands" % (
                        short(f["qn"]),
                        "a whole range" if key is None else "`%s`" % key,
                        d, show(n)[:60]))
        _sym.visit_guarded(f["body"], cb)
    R.floor("functions merging into a caller's dictionary", nfun, 4)
    R.floor("raw insertions into a caller's dictionary", nraw, 4)

    # ---------------------------------------------------------------- R4.5
    # order independence of the absorbing shortcut in max()/min(): inside
    # the loop over the operands, `return <constant>` (max: oo, min: -oo)
    # decides the whole result from the current operand.  If that return is
    # dominated by a test of a local the loop itself updates (number_set,
    # max_number ...), the answer depends on the position of the operand:
    # max({oo, x}) kept Max(x, oo) while max({1, oo, x}) gave oo.
    R.rule("R4.5", "the absorbing-element shortcut of max()/min() does not "
                   "depend on what the loop has seen before")
    n5 = 0
    for qn in ("SymEngine::max", "SymEngine::min"):
        fs = [f for f in prog.fn_by_qn(qn) if f.get("body")]
        if not fs:
            raise AnalysisBroken("%s not found" % qn)
        for f in fs:
            for lp in walk(f["body"]):
                if lp.get("k") not in ("forr", "for", "while"):
                    continue
                carried = set()
                for n in walk(lp.get("b") or {}):
                    if n.get("k") in ("op", "bin") and n.get("op") == "=" \
                            and n.get("a") and n["a"][0].get("k") == "ref" \
                            and n["a"][0].get("d") == "local":
                        carried.add(n["a"][0]["n"])
                declared = {v["n"] for d in walk(lp.get("b") or {})
                            if d.get("k") == "decl" for v in d.get("v", ())}
                carried -= declared
                rets = {id(n["e"]): n for n in walk(lp.get("b") or {})
                        if n.get("k") == "return" and n.get("e")}

                def cb5(n, guards, line, f=f, carried=carried, rets=rets):
                    nonlocal n5
                    if id(n) not in rets:
                        return
                    if not any(x.get("k") == "ref" and x.get("d") == "global"
                               for x in walk(n)):
                        return
                    n5 += 1
                    gname = [x["n"] for x in walk(n) if x.get("k") == "ref"
                             and x.get("d") == "global"][0]
                    key = "%s:return %s" % (short(f["qn"]), gname)
                    dep = sorted({x["n"] for g in _sym.flatten_guards(guards)
                                  if len(g) == 2 and isinstance(g[0], dict)
                                  for x in walk(g[0])
                                  if x.get("k") == "ref"
                                  and x.get("n") in carried})
                    R.instance("R4.5", key, sample={"depends_on": dep})
                    if dep:
                        R.violation(
                            "R4.5", key, prog.loc(f, line),
                            "%s returns the absorbing element `%s` from "
                            "inside the operand loop only under a test of "
                            "%s, which the loop itself updates: the same "
                            "operands in another order do not take the "
                            "shortcut (max({oo, x}) vs max({1, oo, x}))" % (
                                short(f["qn"]), gname,
                                ", ".join("`%s`" % d_ for d_ in dep)))
                _sym.visit_guarded(lp.get("b") or {}, cb5)
    R.floor("absorbing-element returns in max()/min()", n5, 2)


MANIFEST = dict(
    technique="type rule on the class table + intraprocedural flow rule "
              "(all writers of the constructed vector) at every "
              "construction site + establish-then-use typestate of the "
              "complementary-literal probe + guard rule (failed look-up "
              "dominates every raw insertion into a caller's dictionary)",
    text="Decides one necessary condition of order independence: the n-ary "
         "commutative nodes store operands in identity-keyed containers "
         "(Add, Mul, And, Or), and every Max/Min/Xor is built from an "
         "unmodified copy of a RCPBasicKeyLess set, so that storage order is "
         "a function of the operand multiset for all permutations and "
         "bracketings; and that and_or<> looks for complementary literals "
         "over the flattened container it constructs from, after the last "
         "insertion (so the merge does not depend on grouping); and that a "
         "term enters the caller's Mul/Add dictionary raw only under a "
         "failed look-up of that key (otherwise it is merged); and that the "
         "absorbing-element shortcut of max()/min() (return oo / -oo from "
         "inside the operand loop) is not guarded by state the loop updates "
         "(R4.5). Does not "
         "decide what the merge computes (coefficient collection, power "
         "combination, which bases are folded), which depends on run-time "
         "values.",
    note="Together with C01 (hash) and C02 (__cmp__) this makes container "
         "order canonical.",
    ref="§2 C04",
)
