#include <symengine/add.h>
#include <symengine/mul.h>
#include <symengine/real_double.h>
#include <symengine/integer.h>
#include <symengine/symbol.h>
#include <iostream>
using namespace SymEngine;
int main(){
    RCP<const Basic> z = real_double(0.0), one_ = integer(1), x = symbol("x");
    auto a = add(z, one_), b = add(one_, z);
    std::cout << "add(0.0, 1) = " << a->__str__() << "   add(1, 0.0) = " << b->__str__() << "   eq: " << eq(*a,*b) << "\n";
    auto c = add(z, x), d = add(x, z);
    std::cout << "add(0.0, x) = " << c->__str__() << "   add(x, 0.0) = " << d->__str__() << "   eq: " << eq(*c,*d) << "\n";
    auto e = addnum(real_double(0.0), integer(1)), f = addnum(integer(1), real_double(0.0));
    std::cout << "addnum(0.0,1) = " << e->__str__() << "  addnum(1,0.0) = " << f->__str__() << "\n";
    return !(eq(*a,*b) && eq(*c,*d));
}
