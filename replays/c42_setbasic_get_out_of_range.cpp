// C42 R42.5: setbasic_get with an out-of-range index (pure C API)
#include <symengine/cwrapper.h>
#include <stdio.h>
#include <unistd.h>
#include <sys/wait.h>
int main(){
    pid_t p = fork();
    if (p == 0) {
        CSetBasic *s = setbasic_new();
        basic x, r; basic_new_stack(x); basic_new_stack(r);
        symbol_set(x, "x");
        setbasic_insert(s, x);
        setbasic_get(s, 1, r);        /* size is 1: *end() */
        char *t = basic_str(r); printf("returned %s\n", t); basic_str_free(t);
        fflush(stdout); _exit(0);
    }
    int st; waitpid(p, &st, 0);
    if (WIFSIGNALED(st)) { printf("setbasic_get(s, 1, r) with size 1: SIGNAL %d\n", WTERMSIG(st)); return 1; }
    printf("no crash (undefined behaviour went unnoticed)\n");
    return 0;
}
