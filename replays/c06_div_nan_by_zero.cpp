#include <symengine/basic.h>
#include <symengine/add.h>
#include <symengine/mul.h>
#include <symengine/pow.h>
#include <symengine/nan.h>
#include <symengine/infinity.h>
#include <symengine/integer.h>
#include <symengine/rational.h>
#include <symengine/complex.h>
#include <iostream>
using namespace SymEngine;
template <class F> void show(const char *n, F f){ std::cout << n << " = "; try { std::cout << f()->__str__() << "\n"; } catch (std::exception &e) { std::cout << "exception: " << e.what() << "\n"; } }
int main(){
    show("div(nan, 0)", []{ return div(Nan, zero); });
    show("nan->div(0)", []{ return RCP<const Basic>(Nan->div(*zero)); });
    show("div(0, 0)", []{ return div(zero, zero); });
    show("div(oo, 0)", []{ return div(Inf, zero); });
    show("mul(nan, pow(0,-1))", []{ return mul(Nan, pow(zero, minus_one)); });
    RCP<const Integer> big = integer(integer_class("18446744073709551616"));
    show("pow(1, 2**64)", [&]{ return pow(one, big); });
    show("pow(-1, 2**64)", [&]{ return pow(minus_one, big); });
    show("pow(I, 2**64)", [&]{ return pow(I, big); });
    show("pow(2, 2**64)", [&]{ return pow(integer(2), big); });
    show("one->pow(2**64) [Number level]", [&]{ return RCP<const Basic>(one->pow(*big)); });
    return 0;
}
