#include <symengine/basic.h>
#include <symengine/add.h>
#include <symengine/mul.h>
#include <symengine/pow.h>
#include <symengine/functions.h>
#include <symengine/symbol.h>
#include <symengine/printers.h>
#include <iostream>
#include <unistd.h>
#include <sys/wait.h>
using namespace SymEngine;
template <class F> void child(const char *name, F f){
    std::cout << name << ": " << std::flush;
    pid_t p = fork();
    if (p == 0) { try { std::cout << f() << std::endl; } catch (std::exception &e) { std::cout << "exception " << e.what() << std::endl; } _exit(0); }
    int st; waitpid(p, &st, 0);
    if (WIFSIGNALED(st)) std::cout << "SIGNAL " << WTERMSIG(st) << std::endl;
}
int main(){
    RCP<const Basic> x = symbol("x"), y = symbol("y"), z = symbol("z");
    child("unicode(f())", [&]{ return unicode(*function_symbol("f", vec_basic{})); });
    child("str(f())", [&]{ return str(*function_symbol("f", vec_basic{})); });
    child("latex(f())", [&]{ return latex(*function_symbol("f", vec_basic{})); });
    child("mathml(f())", [&]{ return mathml(*function_symbol("f", vec_basic{})); });
    child("ccode(y/cot(x))", [&]{ return ccode(*div(y, cot(x))); });
    child("ccode(y/sec(x))", [&]{ return ccode(*div(y, sec(x))); });
    child("ccode(y/csc(x))", [&]{ return ccode(*div(y, csc(x))); });
    child("ccode(cot(x)**2)", [&]{ return ccode(*pow(cot(x), integer(2))); });
    child("ccode(z*unevaluated_expr(x+y))", [&]{ return ccode(*mul(z, unevaluated_expr(add(x,y)))); });
    child("str(z*unevaluated_expr(x+y))", [&]{ return str(*mul(z, unevaluated_expr(add(x,y)))); });
    child("jscode(y/cot(x))", [&]{ return jscode(*div(y, cot(x))); });
    return 0;
}
