#include <symengine/basic.h>
#include <symengine/infinity.h>
#include <symengine/add.h>
#include <symengine/symbol.h>
#include <symengine/printers.h>
#include <symengine/parser/sbml/sbml_parser.h>
#include <iostream>
using namespace SymEngine;
int main(){
    RCP<const Basic> x = symbol("x");
    for (RCP<const Basic> e : {RCP<const Basic>(Inf), RCP<const Basic>(NegInf), add(x, NegInf)}) {
        std::string t = sbml(*e);
        SbmlParser p;
        RCP<const Basic> r = p.parse(t);
        std::cout << e->__str__() << " -> sbml \"" << t << "\" -> " << r->__str__() << (eq(*r, *e) ? "" : "   DIFFERENT") << "\n";
    }
    try { std::cout << sbml(*ComplexInf) << "\n"; } catch (std::exception &ex) { std::cout << "sbml(zoo): exception: " << ex.what() << "\n"; }
    return 0;
}
