#include <symengine/cwrapper.h>
#include <cstdio>
int main(){ CVectorInt *v = vectorint_new(); vectorint_push_back(v, 7); printf("vectorint_get(v[1 element], 50000000) = "); fflush(stdout); int x = vectorint_get(v, 50000000); printf("%d\n", x); return 0; }
