"""C03 — no factory constructs an object its own is_canonical rejects
(engine E3 over expression kinds)."""
from selib.program import walk, show, short, strip_type, rcp_target
from selib.absint import Interp, TOP
from selib.numdom import AbsNum, all_points, NS
from selib.kinddom import (KindDomain, AbsExpr, Constructed,
                           expression_points)
from selib.build import AnalysisBroken

REDUCED = {"Symbol", "Add", "Mul", "Pow", "Sin", "Abs", "Constant",
           "FunctionSymbol", "Infty"}


def param_arg(a):
    while a is not None and a.get("k") in ("ctor", "cast", "call") \
            and len(a.get("a", ())) == 1 \
            and (a.get("k") != "call" or a.get("n") in ("move", "forward")):
        a = a["a"][0]
    if a is not None and a.get("k") == "ref" and a.get("d") == "param":
        return a["n"]
    return None


def run(loader, R, tier):
    prog = loader()
    D = KindDomain(prog)
    I = Interp(prog, D, max_depth=6)
    R.explanation = (
        "Every construction site make_rcp<const K>(...) of a class K that "
        "declares is_canonical is an obligation K::is_canonical(args). For "
        "the sites whose arguments are parameters of the enclosing factory, "
        "the factory and is_canonical are both interpreted (engine E3) over "
        "the finite domain of expression kinds (19 number points + one point "
        "per concrete Basic class, refined for Constant names, Mul/Add "
        "coefficients and Pow exponents). A violation is reported only when "
        "the factory definitely reaches the site for a kind and is_canonical "
        "definitely returns false for it. Sites with computed arguments "
        "(merged dictionaries of Add/Mul/Pow, trig_simplify results) are "
        "counted as undecided obligations, never as passes. Canonical form "
        "of the dictionary algorithms, expand, subs is not decided.")
    R.rule("R3.1", "factory never passes an argument kind that is_canonical "
                   "rejects")
    R.trusted += ["atoms of the kind domain: is_a<T>, type-code tests, "
                  "eq against named constants, number predicates (numdom)"]

    nums = all_points()
    exprs = expression_points(prog)
    reduced = [e for e in exprs if short(e.cls) in REDUCED]
    sites = []
    total = 0
    for u, f in prog.functions.items():
        if f.get("dependent") or f.get("tk") == "pattern" \
                or not f.get("body"):
            continue
        for n in walk(f["body"]):
            if n.get("k") == "call" and n.get("n") == "make_rcp" \
                    and n.get("ta"):
                K = strip_type(n["ta"][0])
                cu = prog.find_method(K, "is_canonical")
                if not cu or cu not in prog.functions:
                    continue
                total += 1
                names = [param_arg(a) for a in n.get("a", ())]
                if names and None not in names:
                    sites.append((f, n, K, cu, names))
                else:
                    R.undecided_obligation(
                        "R3.1", "%s@%s:%s" % (short(K), short(f["qn"]),
                                              n.get("l")),
                        "constructor arguments are computed values")
    R.info["construction_sites_with_is_canonical"] = total
    R.floor("construction sites of classes with is_canonical", total, 200)

    decided = 0
    factories = {}
    for f, n, K, cu, names in sites:
        factories.setdefault(f["u"], (f, []))[1].append((n, K, cu, names))
    for u, (f, fsites) in sorted(factories.items(),
                                 key=lambda x: x[1][0]["qn"]):
        params = f.get("params", ())
        doms = []
        ok = True
        for p in params:
            t = strip_type(p["t"])
            tgt = rcp_target(t)
            if tgt == NS + "Basic" or t == NS + "Basic":
                doms.append("basic")
            elif tgt in (NS + "Number",) or t == NS + "Number":
                doms.append("number")
            elif tgt in (NS + "Boolean", NS + "Set"):
                doms.append("other")
            else:
                ok = False
        if not ok or not params or len(params) > 2:
            for n, K, cu, names in fsites:
                R.undecided_obligation(
                    "R3.1", "%s@%s:%s" % (short(K), short(f["qn"]),
                                          n.get("l")),
                    "factory parameters are not expression handles")
            continue
        if "other" in doms:
            for n, K, cu, names in fsites:
                R.undecided_obligation(
                    "R3.1", "%s@%s:%s" % (short(K), short(f["qn"]),
                                          n.get("l")),
                    "Boolean/Set parameter kinds not modelled")
            continue

        def space(d, many):
            if d == "number":
                return nums
            return nums + (reduced if many else exprs)
        many = len(params) > 1
        spaces = [space(d, many) for d in doms]
        combos = [[a] for a in spaces[0]] if len(spaces) == 1 else \
            [[a, b] for a in spaces[0] for b in spaces[1]]
        site_lines = {n.get("l"): (n, K, cu, names)
                      for n, K, cu, names in fsites}
        seen_sites = set()
        pidx = {p["n"]: i for i, p in enumerate(params)}
        for args in combos:
            try:
                outs = I.run(f, TOP, args)
            except RecursionError:
                continue
            for o in outs:
                if o.kind != "return" or not isinstance(o.value,
                                                        Constructed):
                    continue
                hit = site_lines.get(o.value.line)
                if hit is None:
                    continue
                n, K, cu, names = hit
                if strip_type(o.value.cls) != K:
                    continue
                # constructor arguments must be the original objects
                cargs = [args[pidx[nm]] for nm in names if nm in pidx]
                if len(cargs) != len(names) or list(o.value.args) != cargs:
                    continue
                key = "%s(%s)@%s:%s" % (short(K), ", ".join(
                    repr(a) for a in cargs), short(f["qn"]), n.get("l"))
                seen_sites.add(n.get("l"))
                if not o.definite:
                    continue
                cf = prog.functions[cu]
                try:
                    couts = I.run(cf, TOP, cargs)
                except RecursionError:
                    continue
                vals = set()
                cdef = True
                for c in couts:
                    if c.kind != "return" or not c.definite \
                            or not isinstance(c.value, bool):
                        cdef = False
                    else:
                        vals.add(c.value)
                if not cdef or len(vals) != 1:
                    R.instance("R3.1", key, nontrivial=False)
                    continue
                decided += 1
                R.instance("R3.1", key, sample={
                    "factory": short(f["qn"]), "argument_kinds": [
                        repr(a) for a in cargs], "is_canonical": list(vals)})
                if vals == {False}:
                    wit = ", ".join(repr(a) for a in cargs)
                    R.violation(
                        "R3.1", "%s:%s" % (short(f["qn"]), wit),
                        prog.loc(f, n.get("l")),
                        "%s(%s) definitely reaches make_rcp<const %s> (path: "
                        "%s) but %s::is_canonical(%s) is definitely false: "
                        "the returned object violates its own canonical "
                        "form" % (short(f["qn"]), wit, short(K), ", ".join(
                            ("" if p else "!") + t for t, p in o.path[-6:]),
                            short(K), wit))
        for line, (n, K, cu, names) in site_lines.items():
            if line not in seen_sites:
                R.undecided_obligation(
                    "R3.1", "%s@%s:%s" % (short(K), short(f["qn"]), line),
                    "site not definitely reached for any abstract kind")
    R.info["decided_obligation_instances"] = decided
    R.floor("factories with parameter-argument sites", len(factories), 40)
    R.floor("decided (site, kind) obligations", decided, 400)

    # ---------------------------------------------------------------- R3.3
    # normaliser / validator agreement: the function classes whose
    # is_canonical rejects an argument from which a minus sign could be
    # extracted (could_extract_minus) are built by factories that normalise
    # the argument with handle_minus.  The two sites must use the same
    # predicate: handle_minus has to decide "extract" with
    # could_extract_minus wherever is_canonical does — a different test
    # (e.g. is_negative(), false for every Complex) lets the factory build
    # an object its own is_canonical rejects.
    R.rule("R3.3", "handle_minus decides with the predicate the "
                   "is_canonical of the normalised classes uses "
                   "(could_extract_minus)")
    validators = [f for f in prog.functions.values()
                  if f.get("n") == "is_canonical" and f.get("body")
                  and any(n.get("k") == "call"
                          and n.get("n") == "could_extract_minus"
                          for n in walk(f["body"]))]
    hm = prog.fn_by_qn("SymEngine::handle_minus")
    if not hm or not validators:
        raise AnalysisBroken("handle_minus / could_extract_minus anchors "
                             "vanished")
    R.floor("is_canonical functions that reject extractable minus signs",
            len(validators), 8)
    for f in hm:
        branches = [n for n in walk(f["body"]) if n.get("k") == "if"]
        # every `*rarg = mul(minus_one, arg)` (the extraction) must be
        # guarded by could_extract_minus(...)
        from selib import sym as _sym3
        sites = []

        def cb3(n, guards, line):
            if n.get("k") == "call" and n.get("n") == "mul" and any(
                    show(a).endswith("minus_one") or "minus_one" in show(a)
                    for a in n.get("a", ())):
                gs = [show(c) for c, p in [g for g in guards
                                           if g[0] != "case"] if p]
                sites.append((n.get("l") or line, gs))
        _sym3.visit_guarded(f["body"], cb3)
        for line, gs in sites:
            key = "handle_minus@%s" % line
            uses = any("could_extract_minus" in g or "is_minus_one" in g
                       for g in gs)
            R.instance("R3.3", key, sample={"extraction_guards":
                                            [g[:60] for g in gs]})
            if not uses:
                R.violation(
                    "R3.3", "handle_minus", prog.loc(f, line),
                    "handle_minus extracts a minus sign at line %s under "
                    "%s, not under could_extract_minus(...): %d "
                    "is_canonical functions reject exactly the arguments "
                    "for which could_extract_minus is true, so the factory "
                    "can build objects its own validator rejects (e.g. a "
                    "product with a complex coefficient)" % (
                        line, [g[:50] for g in gs] or "no test",
                        len(validators)))
        if not sites:
            raise AnalysisBroken("handle_minus: no extraction site found")

    # ---------------------------------------------------------------- R3.4
    complementary_probe(prog, R)

    # ---------------------------------------------------------------- R3.6
    factory_class_pairing(prog, R)

    # ---------------------------------------------------------------- R3.2
    from selib.visitors import Visitors
    R.rule("R3.2", "every raw Add::dict_add_term receives a coefficient-free "
                   "term (key of an Add, split by as_coef_term, guarded or "
                   "rebuilt with coefficient one, or a non-Mul node itself)")
    add_key_typestate(prog, R, Visitors(prog))


def add_key_typestate(prog, R, V):
    """R3.2: Add::dict_add_term(d, c, t) is the raw insertion — it expects a
    *coefficient-free* term t (not a Number, not a Mul carrying a numeric
    coefficient); otherwise the Add gets a key like 2*sqrt(x) and is not
    canonical.  Every call site must establish that, by one of the idioms
    enumerated from the code base:
      key      t is `.first` of an element of an Add dictionary (already a key)
      split    t is the out-argument of Add::as_coef_term (coefficient split)
      guarded  the site is under a test of is_a<Mul>(*t) / get_coef()->is_one()
      rebuilt  t was last assigned from Mul::from_dict(one, ...)
      self     t is rcp_from_this() of a node that is not a Mul (static type,
               or the visitor dispatches Mul to its own handler)
    """
    from selib import sym as _sym
    nsites = 0
    for u, f in sorted(prog.functions.items(),
                       key=lambda kv: (kv[1]["qn"], kv[1].get("line", 0))):
        if f.get("dependent") or f.get("tk") == "pattern" \
                or not f.get("body"):
            continue
        # locals that are out-arguments of as_coef_term
        split = set()
        rebuilt = {}
        for n in walk(f["body"]):
            if n.get("k") == "call" and n.get("n") == "as_coef_term":
                for a in n.get("a", ())[1:]:
                    for x in walk(a):
                        if x.get("k") == "ref" and x.get("d") in ("local",
                                                                  "param"):
                            split.add(x["n"])
            if n.get("k") in ("bin", "op") and n.get("op") == "=" \
                    and len(n.get("a", ())) == 2 \
                    and n["a"][0].get("k") == "ref":
                rhs = n["a"][1]
                while rhs.get("k") in ("cast", "ctor") and rhs.get("a"):
                    rhs = rhs["a"][0]
                rebuilt[n["a"][0]["n"]] = (
                    rhs.get("k") == "call" and rhs.get("n") == "from_dict"
                    and rhs.get("a") and show(rhs["a"][0]).rstrip(")").endswith(
                        "one"))
            if n.get("k") == "decl":
                for v in n.get("v", ()):
                    i = v.get("i")
                    while i is not None and i.get("k") in ("cast", "ctor") \
                            and i.get("a"):
                        i = i["a"][0]
                    if i is not None and i.get("k") == "call" \
                            and i.get("n") == "from_dict" and i.get("a") \
                            and show(i["a"][0]).rstrip(")").endswith("one"):
                        rebuilt[v["n"]] = True

        def cb(n, guards, line, f=f, split=split, rebuilt=rebuilt):
            nonlocal nsites
            if not (n.get("k") == "call" and n.get("n") == "dict_add_term"
                    and len(n.get("a", ())) == 3
                    and prog.header(n.get("u", "")).get("cls")
                    == "SymEngine::Add"):
                return
            nsites += 1
            t = n["a"][2]
            while t.get("k") in ("cast", "ctor") and t.get("a"):
                t = t["a"][0]
            txt = show(t)
            key = "%s@%s" % (short(f["qn"]), n.get("l"))
            how = None
            if t.get("k") == "mem" and t.get("m") == "first" \
                    and "RCP<const SymEngine::Number>" in (t.get("c") or ""):
                how = "key"
            elif t.get("k") == "ref" and t.get("n") in split:
                how = "split"
            elif t.get("k") == "ref" and rebuilt.get(t.get("n")) \
                    and any("is_a<Mul>(*%s)" % t["n"] in show(c)
                            for c, _p in [g for g in guards
                                          if g[0] != "case"]):
                how = "rebuilt"
            if how is None and t.get("k") == "ref":
                for g in guards:
                    if g[0] == "case":
                        continue
                    c, pol = g
                    if "is_a<Mul>(*%s)" % t["n"] in show(c):
                        how = "guarded"
            if how is None and t.get("k") == "ref":
                # a dominating dynamic type test for a class other than Mul
                # (an Add or an atom as a key is canonical)
                for g in _sym.flatten_guards(guards):
                    if g[0] == "case":
                        continue
                    c, pol = g
                    if pol and c.get("k") == "call" and c.get("n") == "is_a" \
                            and c.get("ta") and strip_type(c["ta"][0]) \
                            != "SymEngine::Mul" \
                            and show(c["a"][0]).lstrip("*") == t["n"]:
                        how = "type"
            if how is None and t.get("k") == "ref" \
                    and rebuilt.get(t.get("n")):
                # normalised by a preceding `if (is_a<Mul>(*t) && !coef one)
                # t = Mul::from_dict(one, ...)` statement: on the taken path
                # t is rebuilt, on the other path the test failed
                for st in walk(f["body"]):
                    if st.get("k") == "if" and "is_a<Mul>(*%s)" % t["n"] \
                            in show(st.get("c")) and not st.get("e") \
                            and any(x.get("k") in ("bin", "op")
                                    and x.get("op") == "="
                                    and x.get("a")
                                    and x["a"][0].get("k") == "ref"
                                    and x["a"][0].get("n") == t["n"]
                                    for x in walk(st.get("t") or {})):
                        how = "normalised"
            if how is None and t.get("k") == "mcall" \
                    and t.get("n") == "rcp_from_this":
                o = t.get("o") or {}
                if o.get("k") == "ref" and o.get("d") == "param":
                    st = strip_type(o.get("t", ""))
                    cls = f.get("cls")
                    if st not in ("SymEngine::Mul", "SymEngine::Basic"):
                        how = "self"
                    elif st == "SymEngine::Basic" and cls in V.table:
                        h = V.handlers(cls).get("SymEngine::Mul")
                        if h and h != f["u"]:
                            how = "self"
            numeric_split = None
            if how == "split":
                # as_coef_term(x) of a *number* x yields the key 1: the split
                # input must be known not to be a Number (a dominating
                # is_a_Number test that failed), or the function removes the
                # key `one` afterwards (the add() idiom)
                removes_one = any(
                    m.get("k") == "mcall" and m.get("n") == "find"
                    and m.get("a") and show(m["a"][0]).strip("()") in (
                        "one", "RCP<const Basic>(one)")
                    for m in walk(f["body"])) or "find(one)" in show(
                        f["body"]) or "d.find(RCP<const Basic>(one))" \
                    in show(f["body"])
                nonnum = False
                for g in _sym.flatten_guards(guards):
                    if g[0] == "case":
                        continue
                    c, pol = g
                    tt = show(c)
                    if "is_a_Number" in tt and not pol:
                        nonnum = True
                    if pol and c.get("k") == "call" and c.get("n") == "is_a":
                        nonnum = True   # a definite non-number class
                if not (nonnum or removes_one):
                    numeric_split = True
            R.instance("R3.2", key, sample={"site": show(n)[:80],
                                            "term": txt[:40],
                                            "established_by": how})
            if numeric_split:
                R.violation(
                    "R3.2", "%s:%s:numeric" % (short(f["qn"]), txt[:30]),
                    prog.loc(f, n.get("l")),
                    "%s splits a term with as_coef_term and inserts the "
                    "result with the raw Add::dict_add_term on a path where "
                    "the term may be a Number (no failed is_a_Number test, "
                    "no removal of the key `one` afterwards): a number "
                    "splits into (number, 1), so `1` becomes a key of the "
                    "Add" % short(f["qn"]))
            if how is None:
                R.violation(
                    "R3.2", "%s:%s" % (short(f["qn"]), txt[:30]),
                    prog.loc(f, n.get("l")),
                    "%s inserts `%s` into an Add dictionary with the raw "
                    "Add::dict_add_term, but nothing establishes that it is "
                    "coefficient-free (not a key of another Add, not split "
                    "by as_coef_term, no is_a<Mul>/is_one test): a Mul with "
                    "a numeric coefficient becomes a key and the Add is not "
                    "canonical" % (short(f["qn"]), txt[:40]))
        _sym.visit_guarded(f["body"], cb)
    R.floor("Add::dict_add_term call sites", nsites, 20)


def factory_class_pairing(prog, R):
    """R3.6: a free factory f for the function class F (f named like F)
    that hands its *own* parameters, unchanged and in order, to make_rcp of a
    sibling function class X != F builds the wrong function: the unevaluated
    fall-back of uppergamma() constructed a LowerGamma."""
    R.rule("R3.6", "a function factory's unevaluated fall-back constructs "
                   "the factory's own class")

    def norm(x):
        return x.replace("_", "").lower()
    classes = {norm(short(c)): c for c in prog.classes
               if c.startswith("SymEngine::") and c.count("::") == 1}
    nfb = 0
    for u, f in sorted(prog.functions.items(), key=lambda kv: kv[1]["qn"]):
        if f.get("cls") or not f.get("body") or f.get("dependent") \
                or not f["qn"].startswith("SymEngine::") \
                or f["qn"].count("::") != 1:
            continue
        F = classes.get(norm(f["n"]))
        if F is None or not prog.derives(F, "SymEngine::Function"):
            continue
        ps = [p_["n"] for p_ in f.get("params", ())]
        for c in walk(f["body"]):
            if not (c.get("k") == "call" and c.get("n") == "make_rcp"
                    and c.get("ta")):
                continue
            X = strip_type(c["ta"][0])
            args = []
            for a in c.get("a", ()):
                while a.get("k") in ("cast", "ctor") and len(
                        [y for y in a.get("a", ())
                         if y.get("k") != "defarg"]) == 1:
                    a = [y for y in a["a"] if y.get("k") != "defarg"][0]
                args.append(a.get("n") if a.get("k") == "ref"
                            and a.get("d") == "param" else None)
            if args != ps or not ps:
                continue            # not the unevaluated fall-back
            nfb += 1
            key = f["n"]
            R.instance("R3.6", "%s@%s" % (key, c.get("l")), sample={
                "factory": f["n"], "constructs": short(X)})
            if X != F and prog.derives(X, "SymEngine::Function"):
                R.violation(
                    "R3.6", key, prog.loc(f, c.get("l")),
                    "%s() hands its own arguments to make_rcp<const %s>: "
                    "the unevaluated result is an object of another "
                    "function (%s(...) is not %s(...))" % (
                        f["n"], short(X), f["n"], norm(short(X))))
    R.floor("unevaluated fall-backs of function factories", nfb, 40)


def complementary_probe(prog, R, rid="R3.4"):
    """R3.4 / R4.3: And/Or::is_canonical reject a container that holds x together
    with Not(x).  The factory and_or<> establishes that with a probe loop;
    the probe must range over the very container that is handed to the
    constructor, and that container must not change between the start of the
    probe and the construction (establish-then-use)."""
    R.rule(rid, "and_or<> probes the container it constructs from for "
                   "complementary literals, after the last insertion")
    fs = [f for f in prog.functions.values()
          if f["n"] == "and_or" and f.get("tk") == "inst" and f.get("body")]
    if len(fs) < 2:
        raise AnalysisBroken("and_or<And>/and_or<Or> instantiations not "
                             "found")
    MUT = ("insert", "erase", "emplace", "clear", "swap", "merge")
    for f in sorted(fs, key=lambda f: f["qn"]):
        key = short(f["qn"])
        top = f["body"].get("s", ())
        # the construction site(s) and the container they use
        ctor = [(i, n) for i, st in enumerate(top) for n in walk(st)
                if n.get("k") == "call" and n.get("n") == "make_rcp"
                and n.get("a")]
        if not ctor:
            raise AnalysisBroken(key + ": no construction site")
        for ci, cn in ctor:
            cont = [x["n"] for x in walk(cn["a"][0])
                    if x.get("k") == "ref" and x.get("d") == "local"]
            if not cont:
                continue
            cont = cont[0]
            R.instance(rid, "%s:%s" % (key, cont))
            # probe loops: range-for over a container whose body returns
            # when <container>.find(logical_not(a)) != end()
            probes = []
            for i, st in enumerate(top[:ci + 1]):
                if st.get("k") not in ("forr", "for", "while"):
                    continue
                finds = [n for n in walk(st.get("b") or {})
                         if n.get("k") == "mcall" and n.get("n") == "find"
                         and any(y.get("k") in ("call", "mcall")
                                 and y.get("n") == "logical_not"
                                 for a in n.get("a", ()) for y in walk(a))]
                if finds and any(n.get("k") == "return"
                                 for n in walk(st.get("b") or {})):
                    # range-for: the range expression; iterator loop: the
                    # container whose begin() initialises the iterator
                    rsrc = st.get("r") if st.get("k") == "forr" else (
                        st.get("init") or st.get("i") or st.get("c") or {})
                    rng = [x["n"] for x in walk(rsrc)
                           if x.get("k") == "ref" and x.get("d") == "local"
                           and "set<" in (x.get("t") or "")] or \
                        [x["n"] for x in walk(rsrc) if x.get("k") == "ref"]
                    tgt = [(n.get("o") or {}).get("n") for n in finds]
                    probes.append((i, st, rng[0] if rng else None, tgt))
            good = [p_ for p_ in probes
                    if p_[2] == cont and all(t == cont for t in p_[3])]
            if not good:
                R.violation(
                    rid, key, prog.loc(f, cn.get("l")),
                    "%s constructs from `%s` but no probe loop ranges over "
                    "`%s` looking each element's negation up in `%s` "
                    "(probe loops found: %s): an operand that entered only "
                    "through flattening is never used as a probe, so the "
                    "result can hold x together with Not(x), which "
                    "is_canonical rejects" % (
                        key, cont, cont, cont,
                        [(p_[2], p_[3]) for p_ in probes] or "none"))
                continue
            pi, pst = good[-1][0], good[-1][1]
            # no mutation of the container inside the probe or between the
            # probe and the construction (locals copied from it are fine)
            muts = []
            for st in [pst] + list(top[pi + 1:ci + 1]):
                for n in walk(st):
                    if n.get("k") == "mcall" and n.get("n") in MUT \
                            and (n.get("o") or {}).get("k") == "ref" \
                            and n["o"].get("n") == cont:
                        muts.append(n.get("l"))
            if muts:
                R.violation(
                    rid, key, prog.loc(f, muts[0]),
                    "%s changes `%s` (line %s) after the complementary-"
                    "literal probe has started: elements added later are "
                    "not probed against the earlier ones" % (key, cont,
                                                             muts[0]))


MANIFEST = dict(
    technique="finite-domain abstract interpretation of factory functions "
              "and is_canonical over expression kinds",
    text="Decides one clause of C03: for every factory whose construction "
         "site passes its own parameters to make_rcp<const K>, and for every "
         "abstract argument kind (19 number points + one point per concrete "
         "class with refinements), the factory never definitely constructs "
         "an object for which K::is_canonical definitely returns false. One "
         "run covers every input of each kind. Construction sites with "
         "computed arguments (Add/Mul/Pow dictionaries, trig_simplify) are "
         "listed as undecided; removing a SYMENGINE_ASSERT is not flagged. "
         "The number-class parts of the invariant are decided by C05.",
    note="Trusted: the kind-domain atoms; is_canonical predicates are pure.",
    ref="§2 C03",
)
