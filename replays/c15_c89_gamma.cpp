#include <symengine/printers.h>
#include <symengine/printers/codegen.h>
static std::string c89(const SymEngine::Basic &b){ SymEngine::C89CodePrinter p; return p.apply(b);} static std::string c99(const SymEngine::Basic &b){ SymEngine::C99CodePrinter p; return p.apply(b);}
#include <symengine/functions.h>
#include <symengine/symbol.h>
#include <iostream>
#include <fstream>
#include <cstdlib>
using namespace SymEngine;
int main(){
    RCP<const Basic> x = symbol("x");
    std::string g89 = c89(*gamma(x)), l89 = c89(*loggamma(x)), g99 = c99(*gamma(x));
    std::cout << "c89code(gamma(x)) = " << g89 << "\nc89code(loggamma(x)) = " << l89 << "\nc99code(gamma(x)) = " << g99 << "\n";
    std::ofstream f("/tmp/rp/c15_gen.c");
    f << "#include <math.h>\n#include <stdio.h>\nint main(void){ double x = 3.0; double v = " << g89 << "; printf(\"generated C for gamma(3) evaluates to %g (Gamma(3) = 2)\\n\", v); return !(v > 1.99 && v < 2.01); }\n";
    f.close();
    int rc = std::system("gcc -std=gnu89 /tmp/rp/c15_gen.c -lm -o /tmp/rp/c15_gen 2>&1 | head -3; /tmp/rp/c15_gen");
    return rc != 0;
}
