#include <symengine/basic.h>
#include <symengine/sets.h>
#include <symengine/logic.h>
#include <symengine/symbol.h>
#include <symengine/add.h>
#include <symengine/visitor.h>
#include <iostream>
using namespace SymEngine;
void show(const char *n, const RCP<const Basic> &e, const RCP<const Basic> &x){
    std::cout << n << " = " << e->__str__() << "   free_symbols = {";
    for (auto &s : free_symbols(*e)) std::cout << s->__str__() << " ";
    std::cout << "}   has_symbol(x) = " << has_symbol(*e, *x) << "\n";
}
int main(){
    RCP<const Symbol> x = symbol("x"), y = symbol("y");
    show("ConditionSet", conditionset(x, Lt(y, x)), x);
    show("ImageSet", imageset(x, add(x, y), interval(integer(0), integer(1))), x);
    return 0;
}
