// Analysis-only translation unit (parsed with the library's flags, never
// linked): forces the header-only evaluator templates that no library TU
// instantiates into resolved form so that the rules see their handlers.
#include <symengine/lambda_double.h>
#include <symengine/eval_double.h>

template class SymEngine::LambdaDoubleVisitor<std::complex<double>>;
template class SymEngine::LambdaDoubleVisitor<double>;

namespace verif_instantiate
{
void use()
{
    SymEngine::LambdaComplexDoubleVisitor c;
    SymEngine::LambdaRealDoubleVisitor r;
    SymEngine::vec_basic a, b;
    c.init(a, b, true);
    r.init(a, b, true);
    std::complex<double> co, ci;
    c.call(&co, &ci);
    double ro, ri;
    r.call(&ro, &ri);
}
} // namespace verif_instantiate
