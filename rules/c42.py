"""C42 — C API: no C++ exception escapes; Expression operators delegate to
the core functions.

R42.1 shape of the translation block (CWRAPPER_BEGIN/END)
R42.2 no escape: every call of an extern "C" function outside a catch-all
      try is to a callee that cannot throw (may-throw = least fixpoint over
      the visitor-sensitive call graph)
R42.3 Expression operator -> core function delegation
"""
from selib.program import walk, show, short, strip_type
from selib.callgraph import CallGraph, split
from selib.visitors import Visitors
from selib import sym
from selib.build import AnalysisBroken

# Named no-throw summaries where class-hierarchy analysis is too coarse.
# One fully qualified function each, with the reason (confirmed by reading).
NOTHROW = {
    "SymEngine::NumberWrapper::__str__":
        "abstract extension point: the base throws NotImplemented by design, "
        "every concrete wrapper must override; no object of the library has "
        "this dynamic type",
    "SymEngine::NumberWrapper::eval":
        "abstract extension point (see NumberWrapper::__str__)",
    "SymEngine::GaloisField::get_args":
        "builds var**i * coefficient with a Symbol base and non-negative "
        "Integer exponents: pow/mul/add cannot reach their throwing "
        "branches for these kinds",
    "SymEngine::UIntPoly::get_args": "as GaloisField::get_args",
    "SymEngine::URatPoly::get_args": "as GaloisField::get_args",
    "SymEngine::UExprPoly::get_args": "as GaloisField::get_args",
    "SymEngine::MIntPoly::get_args": "as GaloisField::get_args",
    "SymEngine::MExprPoly::get_args": "as GaloisField::get_args",
    "SymEngine::UnivariateSeries::get_args": "returns an empty vector",
}

# Call sites whose callee cannot throw for the arguments passed *there*
# (path-insensitive may-throw is too coarse).  One (caller overload, callee)
# pair each, confirmed by reading; an entry that matches no call site is an
# error (exit 2), so a stale entry cannot hide anything.
SITE_NOTHROW = {
    ("SymEngine::StrPrinter::bvisit(const SymEngine::Mul &)", "neg"):
        "neg(p.second) is under the guard is_a<Integer>/is_a<Rational>(p.second)"
        " and is_negative(): mul(-1, exact real) stays in Integer/Rational "
        "arithmetic, whose handlers for these kinds have no throw",
    ("SymEngine::StrPrinter::bvisit(const SymEngine::Mul &)",
     "as_numer_denom"):
        "the argument is x.get_coef(), statically an RCP<const Number>: of "
        "NumerDenomVisitor's handlers only those for Integer (fallback), "
        "Rational and Complex can run; they build Integers with integer(), "
        "lcm() and exact Integer mul/div, and Complex::from_two_nums is "
        "called with two Integers (it throws only for other kinds)",
}

# Classes whose objects cannot be created or received through the C API
# (no C function constructs them, no C function returns them): their method
# overriders are not candidates of virtual calls below the C API.
NOT_IN_C_API = {
    "SymEngine::SeriesBase<SymEngine::UExprDict, SymEngine::Expression, "
    "SymEngine::UnivariateSeries>":
        "power series objects are produced only by the C++ series() "
        "functions; cwrapper.h has no series entry point",
    "SymEngine::NumberWrapper":
        "abstract extension class, no concrete subclass in the library",
    "SymEngine::FunctionWrapper":
        "abstract extension class, no concrete subclass in the library",
}

OPERATOR_CORE = {"+": "add", "+=": "add", "-": "sub", "-=": "sub",
                 "*": "mul", "*=": "mul", "/": "div", "/=": "div",
                 "==": "eq"}
FREE_CORE = {"pow": "pow", "expand": "expand"}


def uncalled_exit(prog, f, want):
    """line of an exit of f reachable on a structured path that contains no
    call of the core function `want` (must-pass-through), else None"""
    def has_call(e):
        return any(n.get("k") == "call" and n.get("u")
                   and prog.header(n["u"]).get("n") == want
                   and (prog.header(n["u"]).get("qn") or "").startswith(
                       "SymEngine::") for n in walk(e)) if e else False
    bad = []

    def run_(s, called):
        """called: set of booleans (states) reaching s; returns fall-through
        states"""
        if s is None or not called:
            return called
        k = s.get("k")
        if k == "{}":
            for x in s.get("s", ()):
                called = run_(x, called)
                if not called:
                    break
            return called
        if k == "if":
            c = {x or has_call(s.get("c")) for x in called}
            a = run_(s.get("t"), set(c))
            b = run_(s.get("e"), set(c)) if s.get("e") else set(c)
            return a | b
        if k == "return":
            for x in called:
                if not (x or has_call(s.get("e"))):
                    bad.append(s.get("l"))
            return set()
        if k == "expr":
            e = s.get("e") or {}
            if e.get("k") == "throw":
                return set()
            return {x or has_call(e) for x in called}
        if k == "decl":
            return {x or has_call(s) for x in called}
        if k in ("for", "while", "forr", "do"):
            inner = run_(s.get("b"), set(called))
            return called | inner
        if k == "try":
            return run_(s.get("b"), called)
        return {x or has_call(s) for x in called}
    rest = run_(f["body"], {False})
    if False in rest:
        bad.append(f.get("line"))
    return bad[0] if bad else None


def run(loader, R, tier):
    prog = loader()
    V = Visitors(prog)
    for c in NOT_IN_C_API:
        if c not in prog.classes:
            raise AnalysisBroken("excluded class %s not found" % c)
    G = CallGraph(prog, V, excluded_classes=NOT_IN_C_API)
    G.site_nothrow = dict(SITE_NOTHROW)
    R.explanation = (
        "For all 271 extern \"C\" functions of cwrapper.cpp: R42.1 checks "
        "the shape of every try/catch translation block; R42.2 computes the "
        "may-throw effect as a least fixpoint over the call graph below the "
        "C functions (direct calls, CHA for virtual calls, visitor-sensitive "
        "resolution of accept(), closures, cereal call-backs) and requires "
        "every call outside a catch-all try to be to a no-throw callee; a "
        "report carries a witness call chain down to the throw expression. "
        "R42.3 resolves each Expression operator to the core function it "
        "calls. Equality of C and C++ results as values and the container "
        "semantics of the C vector/set/map types are not decided.")
    R.rule("R42.1", "try blocks of C functions have a catch-all, handlers "
                    "return an error code, success return ends the try")
    R.rule("R42.2", "no may-throw call outside a catch-all in any extern C "
                    "function")
    R.rule("R42.3", "Expression operators delegate to the matching core "
                    "function")
    R.rule("R42.6", "C integer parameters reach the C++ API through a "
                    "type that represents all their values")
    R.rule("R42.5", "index parameters are range-tested at run time before "
                    "they subscript a container or address a matrix element")
    R.rule("R42.4", "a handle whose type is validated at run time is cast "
                    "only under a dominating test for the target type")
    R.trusted += ["standard-library calls do not throw except at/sto*/"
                  "substr(pos>0)/any_cast; allocation failure is out of "
                  "scope", "named no-throw summaries (NOTHROW table, one "
                  "function each with its reason)"]
    for k, v in NOTHROW.items():
        R.exception(k, v)
    for k, v in NOT_IN_C_API.items():
        R.exception(k, "class outside the C API's object universe: " + v)
    for (caller, callee), v in SITE_NOTHROW.items():
        R.exception("%s -> %s()" % (caller, callee),
                    "call site no-throw for its arguments: " + v)

    ec = [f for f in prog.functions.values()
          if f.get("externc") and f["file"].endswith("cwrapper.cpp")
          and f.get("body")]
    R.floor("extern C functions", len(ec), 231)

    # ---------------------------------------------------------------- R42.1
    wrapped = 0
    for f in ec:
        tries = [s for s in walk(f["body"]) if s.get("k") == "try"]
        for t in tries:
            wrapped += 1
            key = "%s@%s" % (f["n"], t.get("l"))
            R.instance("R42.1", key)
            hs = t.get("h", ())
            if not any(h.get("t") == "..." for h in hs):
                R.violation("R42.1", f["n"], prog.loc(f, t.get("l")),
                            "%s: try block without catch (...)" % f["n"])
                continue
            for h in hs:
                rethrow = any(n.get("k") == "throw"
                              for n in walk(h.get("b")))
                returns = sym.always_exits(h.get("b")) and any(
                    n.get("k") == "return" and n.get("e")
                    for n in walk(h.get("b")))
                isvoid = strip_type(f.get("ret")) == "void"
                if rethrow or (not returns and not isvoid):
                    R.violation(
                        "R42.1", f["n"], prog.loc(f, h.get("l")),
                        "%s: handler `catch (%s)` %s" % (
                            f["n"], short(h.get("t", "")),
                            "rethrows" if rethrow else
                            "does not return an error code"))
            body = t.get("b") or {}
            ss = body.get("s", [])
            if strip_type(f.get("ret")) == "SymEngine::symengine_exceptions_t" \
                    or strip_type(f.get("ret")) == "symengine_exceptions_t":
                if not ss or ss[-1].get("k") != "return":
                    R.violation(
                        "R42.1", f["n"], prog.loc(f, t.get("l")),
                        "%s: the success return is not the last statement "
                        "of the try block" % f["n"])
    R.floor("translation blocks", wrapped, 100)

    # ---------------------------------------------------------------- R42.2
    names = {}
    for qn in NOTHROW:
        for u in prog.by_qn.get(qn, ()):
            names[u] = qn
        for u, h in prog.decls.items():
            if h.get("qn") == qn:
                names[u] = qn
    roots = [f["u"] for f in ec]
    mt, wit, reach = G.may_throw_from(roots, overrides=set(names))
    R.info["functions_reachable_from_c_api"] = len(reach)
    R.info["may_throw_nodes"] = len(mt)
    for f in ec:
        key = f["n"]
        nsites = len(G.sites(f["u"]))
        unprot = [s for s in G.sites(f["u"]) if not s.protected]
        R.instance("R42.2", key, nontrivial=bool(unprot), sample={
            "function": key, "calls": nsites,
            "calls_outside_catch_all": len(unprot)})
        if f["u"] in mt:
            chain = G.chain(f["u"], wit)
            R.violation(
                "R42.2", key, prog.loc(f, wit[f["u"]][0]),
                "a C++ exception can escape %s: %s" % (
                    key, " -> ".join(chain)[:900]),
                detail={"chain": chain})

    for okey in SITE_NOTHROW:
        if not G.site_nothrow_hits.get(okey):
            raise AnalysisBroken(
                "call-site summary %s -> %s() matches no call site any more"
                % okey)

    # ---------------------------------------------------------------- R42.4
    # Contradiction rule: a C function that tests the dynamic type of a
    # handle at run time (and returns an error code otherwise) promises to
    # reject wrong kinds; then every cast of that handle must be dominated by
    # a test that establishes the cast's target type.
    cpred = {}                      # usr of C predicate -> class it tests
    for f in ec:
        if f["n"].startswith("is_a_") and len(f.get("params", ())) == 1:
            for n in walk(f["body"]):
                if n.get("k") == "call" and n.get("n") == "is_a" \
                        and n.get("ta"):
                    cpred[f["u"]] = strip_type(n["ta"][0])
                elif n.get("k") == "call" and (n.get("n") or "").startswith(
                        "is_a_") and n.get("u") != f["u"]:
                    fam = {"is_a_Number": "SymEngine::Number",
                           "is_a_Set": "SymEngine::Set",
                           "is_a_Boolean": "SymEngine::Boolean"}.get(n["n"])
                    if fam:
                        cpred.setdefault(f["u"], fam)
    R.info["c_type_predicates"] = {short(prog.name_of(u)): short(c)
                                   for u, c in cpred.items()}

    def handle_of(e, handles):
        """name of the handle parameter inside basic_rcp(p) / *basic_rcp(p)"""
        for x in walk(e):
            if x.get("k") == "call" and x.get("n") == "basic_rcp" \
                    and x.get("a"):
                a = x["a"][0]
                while a.get("k") == "cast":
                    a = a["a"][0]
                if a.get("k") == "ref" and a.get("d") == "param" \
                        and a["n"] in handles:
                    return a["n"]
        return None

    nval = 0
    for f in ec:
        handles = {p["n"] for p in f.get("params", ())
                   if "basic_struct" in p["t"] or "CRCPBasic_C" in p["t"]}
        if not handles:
            continue
        tested = {}                 # handle -> set of classes tested anywhere

        def test_of(c):
            """(handle, class) for a type-test atom"""
            if c.get("k") != "call":
                return None
            if c.get("u") in cpred and c.get("a"):
                a = c["a"][0]
                while a.get("k") == "cast":
                    a = a["a"][0]
                if a.get("k") == "ref" and a.get("n") in handles:
                    return a["n"], cpred[c["u"]]
            if c.get("n") == "is_a" and c.get("ta") and c.get("a"):
                h = handle_of(c["a"][0], handles)
                if h:
                    return h, strip_type(c["ta"][0])
            return None
        in_assert = set()
        for n in walk(f["body"]):
            t = test_of(n)
            if t:
                tested.setdefault(t[0], set()).add(t[1])
        if not tested:
            continue

        def cb4(n, guards, line, f=f, tested=tested, handles=handles):
            nonlocal nval
            T = src = None
            if n.get("k") == "call" and n.get("n") in (
                    "rcp_static_cast", "down_cast", "rcp_dynamic_cast") \
                    and n.get("ta") and n.get("a"):
                T = strip_type(n["ta"][0])
                src = n["a"][0]
            if T is None:
                return
            h = handle_of(src, handles)
            if h is None or h not in tested:
                return
            nval += 1
            key = "%s:%s@%s" % (f["n"], h, n.get("l"))
            ok = False
            seen = []
            for g in sym.flatten_guards(guards):
                if g[0] == "case":
                    continue
                c, pol = g
                t = test_of(c)
                if t and t[0] == h and pol:
                    seen.append(short(t[1]))
                    if t[1] == T or prog.derives(t[1], T):
                        ok = True
            R.instance("R42.4", key, sample={"function": f["n"],
                                             "handle": h, "cast_to": short(T),
                                             "dominating_tests": seen})
            if not ok:
                R.violation(
                    "R42.4", "%s:%s" % (f["n"], h), prog.loc(f, n.get("l")),
                    "%s tests the type of handle `%s` at run time but casts "
                    "it to %s at line %s without a dominating test that it "
                    "is one (tests holding there: %s): a handle of another "
                    "kind is reinterpreted instead of being rejected with "
                    "an error code" % (f["n"], h, short(T), n.get("l"),
                                       seen or "none"))
        sym.visit_guarded(f["body"], cb4)
    R.floor("casts of run-time validated handles", nval, 3)

    # ---------------------------------------------------------------- R42.5
    # "arbitrary arguments": an index received from C reaches a container
    # subscript / matrix accessor only under a run-time range test against
    # the container's size (SYMENGINE_ASSERT is compiled out in release).
    INT_T = ("unsigned long", "unsigned int", "size_t", "int", "long",
             "unsigned", "std::size_t")
    nidx = 0
    for f in ec:
        ints = {p["n"] for p in f.get("params", ())
                if strip_type(p["t"]) in INT_T}
        if not ints:
            continue

        def cb5(n, guards, line, f=f, ints=ints):
            nonlocal nidx
            idx = None
            what = None
            if n.get("k") in ("bin", "op") and n.get("op") == "[]" \
                    and len(n.get("a", ())) == 2 \
                    and "->m" in show(n["a"][0]):
                idx, what = [n["a"][1]], "subscript"
            elif n.get("k") == "mcall" and n.get("n") in ("get", "set") \
                    and "->m" in show(n.get("o") or {}) \
                    and len(n.get("a", ())) >= 2:
                idx, what = n["a"][:2], "matrix element"
            elif n.get("k") in ("bin", "op") and n.get("op") == "+" \
                    and len(n.get("a", ())) == 2 \
                    and "begin()" in show(n["a"][0]):
                idx, what = [n["a"][1]], "iterator offset"
            elif n.get("k") == "call" and n.get("n") in ("next", "advance",
                                                         "prev") \
                    and len(n.get("a", ())) == 2 \
                    and "->m" in show(n["a"][0]):
                idx, what = [n["a"][1]], "iterator offset (std::%s)" % n["n"]
            if not idx:
                return
            used = {x["n"] for e in idx for x in walk(e)
                    if x.get("k") == "ref" and x.get("d") == "param"
                    and x["n"] in ints}
            if not used:
                return
            nidx += 1
            key = "%s:%s" % (f["n"], ",".join(sorted(used)))
            tested = set()
            for g in sym.flatten_guards(guards):
                if g[0] == "case":
                    continue
                c, pol = g
                if c.get("k") not in ("bin", "op") or c.get("op") not in (
                        "<", "<=", ">", ">=") or len(c.get("a", ())) != 2:
                    continue
                t = show(c)
                if not any(b in t for b in ("size()", "nrows()", "ncols()",
                                            "length()")):
                    continue
                for x in walk(c):
                    if x.get("k") == "ref" and x.get("n") in used:
                        lhs_is_p = x["n"] in show(c["a"][0])
                        inside = (c["op"] in ("<", "<=") and lhs_is_p
                                  and pol) or (
                            c["op"] in (">", ">=") and lhs_is_p and not pol) \
                            or (c["op"] in (">", ">=") and not lhs_is_p
                                and pol) or (
                            c["op"] in ("<", "<=") and not lhs_is_p
                            and not pol)
                        if inside:
                            tested.add(x["n"])
            R.instance("R42.5", key, sample={"function": f["n"],
                                             "access": what,
                                             "range_tested": sorted(tested)})
            if used - tested:
                R.violation(
                    "R42.5", key, prog.loc(f, n.get("l")),
                    "%s uses the index parameter(s) %s for a %s without a "
                    "dominating run-time range test against the container's "
                    "size: an out-of-range value from the C caller reads or "
                    "writes outside the container" % (
                        f["n"], sorted(used - tested), what))
        sym.visit_guarded(f["body"], cb5)
    R.floor("indexed accesses driven by C integer parameters", nidx, 5)

    # ---------------------------------------------------------------- R42.7
    # the C container types behave as vectors, sets and maps: each wrapper
    # applies to its member container the std operation that has the meaning
    # of the C function (a map insert rebinds an existing key, as
    # map_basic_basic m[k] = v does in the core)
    R.rule("R42.7", "C container wrappers apply the std operation of the "
                    "same meaning to their container")
    WRAP = {"vectorint_push_back": ("push_back",),
            "vecbasic_push_back": ("push_back",),
            "vecbasic_get": ("[] read", "at"),
            "vecbasic_set": ("[] =", "at"),
            "vecbasic_erase": ("erase",), "vecbasic_size": ("size",),
            "setbasic_insert": ("insert",), "setbasic_find": ("find",),
            "setbasic_erase": ("erase",), "setbasic_size": ("size",),
            "mapbasicbasic_insert": ("[] =", "insert_or_assign"),
            "mapbasicbasic_get": ("find",), "mapbasicbasic_size": ("size",)}
    nw = 0
    byname = {f["n"]: f for f in ec}
    for name, wants in sorted(WRAP.items()):
        f = byname.get(name)
        if f is None:
            raise AnalysisBroken("C container function %s not found" % name)
        have = set()
        for n in walk(f["body"]):
            if n.get("k") == "mcall" and "->m" in show(n.get("o") or {}):
                have.add(n.get("n"))
            if n.get("k") in ("bin", "op") and n.get("op") == "=" \
                    and n.get("a"):
                l = n["a"][0]
                while l.get("k") in ("cast", "ctor") and len(
                        l.get("a", ())) == 1:
                    l = l["a"][0]
                if l.get("k") in ("bin", "op") and l.get("op") == "[]" \
                        and "->m" in show(l["a"][0]):
                    have.add("[] =")
                for r in walk(n["a"][1]) if len(n["a"]) > 1 else ():
                    if r.get("k") in ("bin", "op") and r.get("op") == "[]" \
                            and "->m" in show(r["a"][0]):
                        have.add("[] read")
            if n.get("k") == "return":
                for r in walk(n.get("e") or {}):
                    if r.get("k") in ("bin", "op") and r.get("op") == "[]" \
                            and "->m" in show(r["a"][0]):
                        have.add("[] read")
        nw += 1
        R.instance("R42.7", name, sample={"function": name,
                                          "operations": sorted(have)})
        if not (set(wants) & have):
            R.violation(
                "R42.7", name, prog.loc(f),
                "%s applies %s to its container, not %s: the C container "
                "no longer behaves like the C++ one (e.g. std::map::insert "
                "keeps the old value of an existing key where m[k] = v "
                "rebinds it)" % (name, sorted(have) or "nothing",
                                 " / ".join(wants)))
    R.floor("C container wrappers", nw, 13)

    # --------------------------------------------------------------- R42.13
    # shape table: the C matrix functions size their result before the core
    # operation fills it; the size is the mathematical shape of the result
    # (rows of the first operand x columns of the second for a product)
    R.rule("R42.13", "C matrix functions size the result with the shape of "
                     "the operation (product: rows(A) x cols(B))")
    SHAPES = {"dense_matrix_mul_matrix": ("0.nrows", "1.ncols"),
              "dense_matrix_add_matrix": ("0.nrows", "0.ncols"),
              "dense_matrix_add_scalar": ("0.nrows", "0.ncols"),
              "dense_matrix_mul_scalar": ("0.nrows", "0.ncols"),
              "dense_matrix_transpose": ("0.ncols", "0.nrows"),
              "dense_matrix_inv": ("0.nrows", "0.ncols")}
    nsh = 0
    for name, want in sorted(SHAPES.items()):
        f = byname.get(name)
        if f is None:
            raise AnalysisBroken("C matrix function %s not found" % name)
        mats = [p["n"] for p in f.get("params", ())
                if p["t"].replace(" ", "").startswith("constCDenseMatrix*")]
        sizing = [n for n in walk(f["body"]) if n.get("k") == "call"
                  and n.get("n") == "dense_matrix_rows_cols"
                  and len(n.get("a", ())) == 3]
        if not sizing:
            raise AnalysisBroken("%s: no result sizing found" % name)

        def dim(e):
            for y in walk(e):
                if y.get("k") == "mcall" and y.get("n") in ("nrows",
                                                            "ncols"):
                    who = [z["n"] for z in walk(y.get("o") or {})
                           if z.get("k") == "ref" and z.get("n") in mats]
                    if who:
                        return "%d.%s" % (mats.index(who[0]), y["n"])
            return None
        got = (dim(sizing[0]["a"][1]), dim(sizing[0]["a"][2]))
        nsh += 1
        R.instance("R42.13", name, sample={"function": name,
                                           "sized_as": list(got)})
        if got != want:
            R.violation(
                "R42.13", name, prog.loc(f, sizing[0].get("l")),
                "%s sizes its result as (%s, %s) of its matrix operands; "
                "the operation's result has shape (%s, %s): for operands "
                "whose relevant dimensions differ the C result has the "
                "wrong shape" % (name, got[0], got[1], want[0], want[1]))
    R.floor("C matrix functions with a shape entry", nsh, 6)

    # --------------------------------------------------------------- R42.12
    # lifetime under aliasing: when an output handle's RCP is handed to the
    # core by reference (outArg(basic_rcp(out))), the core writes it while it
    # is still reading the inputs.  If out is the same handle as an input
    # and its only owner, the input dies in mid-call unless the wrapper
    # holds its own RCP copy (rcp_static_cast<...>(basic_rcp(in)) makes one;
    # `*basic_rcp(in)` and `basic_rcp(in)` passed by reference do not).
    R.rule("R42.12", "a call that receives an output handle by reference "
                     "holds its own RCP of every input handle it reads")
    n12 = 0
    for f in sorted(ec, key=lambda f: f["n"]):
        outs = {p["n"] for p in f.get("params", ())
                if p["t"].replace(" ", "") == "CRCPBasic_C*"}
        ins = {p["n"] for p in f.get("params", ())
               if p["t"].replace(" ", "").startswith("constCRCPBasic_C*")}
        if not outs or not ins:
            continue

        def has_out_ref(e):
            return any(
                y.get("k") == "call" and y.get("n") in ("outArg", "ptrFromRef")
                and any(z.get("k") == "ref" and z.get("n") in outs
                        for z in walk(y)) for y in walk(e))
        for n in walk(f["body"]):
            if n.get("k") not in ("call", "mcall") or n.get("n") in (
                    "outArg", "ptrFromRef", "basic_rcp"):
                continue
            parts = list(n.get("a", ())) + ([n["o"]] if n.get("o") else [])
            if not any(has_out_ref(p_) for p_ in parts
                       if p_ is not None and p_ is not n.get("o")):
                continue
            n12 += 1
            borrowed = []
            for p_ in parts:
                if p_ is None or has_out_ref(p_):
                    continue

                def scan(x, kept):
                    if not isinstance(x, dict):
                        return
                    if x.get("k") == "call" and x.get("n") in (
                            "rcp_static_cast", "rcp_dynamic_cast"):
                        kept = True     # returns a new RCP: a keep-alive
                    if x.get("k") == "ref" and x.get("d") == "param" \
                            and x.get("n") in ins and not kept:
                        borrowed.append(x["n"])
                    for v in x.values():
                        if isinstance(v, dict):
                            scan(v, kept)
                        elif isinstance(v, list):
                            for y in v:
                                scan(y, kept)
                scan(p_, False)
            key = "%s@%s" % (f["n"], n.get("l"))
            R.instance("R42.12", key, sample={"call": show(n)[:70],
                                              "borrowed_inputs": borrowed})
            if borrowed:
                R.violation(
                    "R42.12", f["n"], prog.loc(f, n.get("l")),
                    "%s passes the output handle by reference into `%s` "
                    "while the input `%s` is only borrowed (dereferenced or "
                    "passed by reference, no RCP copy): called in place "
                    "with the output being the input's only owner, the "
                    "input is freed while the core function still reads "
                    "it" % (f["n"], show(n)[:50], borrowed[0]))
    R.floor("core calls that receive an output handle by reference", n12, 2)

    # --------------------------------------------------------------- R42.11
    # objects the C API creates are completely initialised: `new T` of a
    # struct with an implicit default constructor leaves scalar members
    # (enums, integers, pointers) indeterminate unless they have a default
    # member initialiser or the object is value-initialised (`new T()`)
    R.rule("R42.11", "every object a *_new() function creates has all its "
                     "scalar members initialised")
    SCALAR = ("int", "unsigned int", "long", "unsigned long", "double",
              "float", "bool", "char", "size_t", "short")
    nnew = 0
    for f in sorted(ec, key=lambda f: f["n"]):
        for n in walk(f["body"]):
            if n.get("k") != "new" or not n.get("a"):
                continue
            c = n["a"][0]
            if c.get("k") != "ctor" or c.get("a"):
                continue
            T = strip_type(n.get("t") or "")
            cls = prog.classes.get(T)
            if not cls:
                continue
            nnew += 1
            bad = [fd["n"] for fd in cls.get("fields", ())
                   if fd.get("i") is None and (
                       strip_type(fd["t"]) in SCALAR
                       or strip_type(fd["t"]) in prog.enums
                       or fd["t"].rstrip().endswith("*"))]
            R.instance("R42.11", "%s:%s" % (f["n"], short(T)), sample={
                "function": f["n"], "type": short(T),
                "implicit_ctor": bool(c.get("implicit")),
                "zero_initialised": bool(c.get("zi")),
                "scalar_members_without_initialiser": bad})
            if bad and c.get("implicit") and not c.get("zi"):
                R.violation(
                    "R42.11", "%s:%s" % (f["n"], short(T)),
                    prog.loc(f, n.get("l")),
                    "%s creates a %s with `new %s`: the member(s) %s have "
                    "no initialiser, so an object that is used before the "
                    "matching setter was called holds an indeterminate "
                    "value" % (f["n"], short(T), short(T), bad))
    R.floor("objects created by the C API", nnew, 5)

    # --------------------------------------------------------------- R42.10
    # nullary C constructors (basic_const_<X>, basic_set_<X>) hand out the
    # core object of the same name, and no two of them hand out the same one
    R.rule("R42.10", "nullary C constructors return the core object their "
                     "name says, each a different one")
    ALIAS = {"infinity": "Inf", "neginfinity": "NegInf",
             "complex_infinity": "ComplexInf", "nan": "Nan"}
    given = {}
    nnull = 0
    for f in sorted(ec, key=lambda f: f["n"]):
        m = None
        for pre in ("basic_const_", "basic_set_"):
            if f["n"].startswith(pre) and len(f.get("params", ())) == 1:
                m = f["n"][len(pre):]
        if m is None:
            continue
        src = None
        for n in walk(f["body"]):
            if n.get("k") in ("bin", "op") and n.get("op") == "=" \
                    and len(n.get("a", ())) == 2:
                r = n["a"][1]
                while r.get("k") in ("cast", "ctor") and len(
                        [a for a in r.get("a", ())
                         if a.get("k") != "defarg"]) == 1:
                    r = [a for a in r["a"] if a.get("k") != "defarg"][0]
                if r.get("k") == "ref" and r.get("d") == "global":
                    src = r["n"]
                elif r.get("k") == "call" and not [
                        a for a in r.get("a", ())
                        if a.get("k") != "defarg"]:
                    src = r["n"]
        if src is None:
            continue
        nnull += 1
        R.instance("R42.10", f["n"], sample={"function": f["n"],
                                              "returns": src})
        want = ALIAS.get(m, m)
        if src != want:
            R.violation(
                "R42.10", f["n"], prog.loc(f),
                "%s hands out SymEngine::%s, not SymEngine::%s: the C "
                "function does not return what its C++ counterpart returns"
                % (f["n"], src, want))
        elif src in given:
            R.violation(
                "R42.10", f["n"], prog.loc(f),
                "%s and %s hand out the same core object SymEngine::%s"
                % (f["n"], given[src], src))
        given.setdefault(src, f["n"])
    R.floor("nullary C constructors", nnull, 15)

    # ---------------------------------------------------------------- R42.9
    # enum-valued C integers: an int parameter that selects a C++ enumerator
    # is converted by a cast of the parameter (every value preserved), not by
    # a test that can only produce some of the enumerators
    R.rule("R42.9", "a C integer that stands for a C++ enumeration reaches "
                    "it through a cast, not through a test that drops "
                    "enumerators")
    enum_size = {qn: {qn + "::" + e["n"] for e in en["enumerators"]}
                 for qn, en in prog.enums.items()}
    if "SymEngine::EvalfDomain" not in enum_size:
        raise AnalysisBroken("enum SymEngine::EvalfDomain not in the fact "
                             "base")
    nen = 0
    for f in ec:
        ints = {p["n"] for p in f.get("params", ())
                if strip_type(p["t"]) in ("int", "unsigned int", "long",
                                          "unsigned long", "bool")}
        for n in walk(f["body"]):
            if n.get("k") not in ("call", "mcall") or not n.get("u"):
                continue
            g = prog.functions.get(n["u"]) or prog.header(n["u"]) or {}
            for fp, a in zip(g.get("params", ()), n.get("a", ())):
                et = strip_type(fp.get("t") or "")
                if et not in enum_size or len(enum_size[et]) < 3:
                    continue
                used = {x["n"] for x in walk(a) if x.get("k") == "ref"
                        and x.get("d") == "param" and x["n"] in ints}
                if not used:
                    continue
                nen += 1
                key = "%s:%s" % (f["n"], ",".join(sorted(used)))
                b = a
                while b.get("k") in ("ctor",) and len(b.get("a", ())) == 1:
                    b = b["a"][0]
                by_cast = b.get("k") == "cast" and b.get("a") \
                    and b["a"][0].get("k") == "ref"
                picked = {x["q"] for x in walk(a) if x.get("k") == "ref"
                          and x.get("d") == "enum"}
                R.instance("R42.9", key, sample={
                    "function": f["n"], "enumeration": short(et),
                    "by_cast": bool(by_cast),
                    "enumerators_selected": sorted(short(x) for x in picked)})
                if not by_cast and picked and len(picked) < len(
                        enum_size[et]):
                    R.violation(
                        "R42.9", key, prog.loc(f, n.get("l")),
                        "%s maps the C integer `%s` to %s through a test "
                        "that can only give %s of its %d enumerators (%s): "
                        "the C function no longer agrees with the C++ "
                        "function for the remaining value(s)" % (
                            f["n"], ",".join(sorted(used)), short(et),
                            len(picked), len(enum_size[et]),
                            ", ".join(sorted(short(x) for x in picked))))
    R.floor("C integers handed over as C++ enumerations", nen, 1)

    # ---------------------------------------------------------------- R42.8
    # alias safety: C callers work in place (basic_mul(s, s, t)), so an
    # output handle may be the same object as an input handle.  Within one C
    # function every input handle is read before the first output handle is
    # written: statement order "write an output ... then read a const input"
    # computes the later result from an overwritten operand.
    ec_usrs = {f["u"] for f in ec}
    R.rule("R42.8", "no const input handle is read after an output handle "
                    "has been written (in-place calls stay correct)")
    nal = 0
    for f in ec:
        outs = {p["n"] for p in f.get("params", ())
                if p["t"].replace(" ", "") == "CRCPBasic_C*"}
        ins = {p["n"] for p in f.get("params", ())
               if p["t"].replace(" ", "").startswith("constCRCPBasic_C*")}
        if not outs or not ins:
            continue
        # statements in program order (try bodies and blocks flattened)
        seq = []

        def flat(st):
            k = st.get("k")
            if k in ("{}",):
                for x in st.get("s", ()):
                    flat(x)
            elif k == "try":
                flat(st.get("b") or {})
            elif k in ("if", "for", "forr", "while", "do"):
                seq.append(("cond", st))
                for part in ("t", "e", "b"):
                    if st.get(part):
                        flat(st[part])
            elif k in ("expr", "decl", "return"):
                seq.append(("stmt", st))
        flat(f["body"])
        written = None
        nal += 1
        bad = None
        for kind, st in seq:
            node = st.get("c") if kind == "cond" else st
            if node is None:
                continue
            # reads of inputs in this statement
            reads = [x["n"] for x in walk(node) if x.get("k") == "ref"
                     and x.get("d") == "param" and x.get("n") in ins]
            if written and reads and bad is None:
                bad = (written, reads[0], st.get("l"))
            # writes of outputs: assignment through basic_rcp(out) / ->m, or
            # the handle passed as first argument to another C function
            w = None
            for n in walk(node):
                if n.get("k") in ("bin", "op") and n.get("op") == "=" \
                        and n.get("a"):
                    for x in walk(n["a"][0]):
                        if x.get("k") == "ref" and x.get("n") in outs:
                            w = x["n"]
                if n.get("k") == "call" and n.get("u") in ec_usrs \
                        and n.get("a"):
                    a0 = n["a"][0]
                    for x in walk(a0):
                        if x.get("k") == "ref" and x.get("n") in outs:
                            w = x["n"]
            if w and not written:
                written = (w, st.get("l"))
        R.instance("R42.8", f["n"])
        if bad:
            R.violation(
                "R42.8", f["n"], prog.loc(f, bad[2]),
                "%s reads the input handle `%s` (line %s) after it has "
                "written the output handle `%s` (line %s): when a C caller "
                "passes the same handle for both (in-place use) the later "
                "part is computed from the overwritten value" % (
                    f["n"], bad[1], bad[2], bad[0][0], bad[0][1]))
    R.floor("C functions with input and output handles", nal, 100)

    # ---------------------------------------------------------------- R42.6
    # value-preserving hand-over of integers: an integer parameter of a C
    # function reaches the C++ API only through a parameter type that can
    # represent all its values; an implicit unsigned long -> long (or
    # long -> unsigned long) conversion silently changes large / negative
    # arguments (no error code).
    RANK = {"bool": 1, "char": 8, "signed char": 8, "unsigned char": 8,
            "short": 16, "unsigned short": 16, "int": 32, "unsigned int": 32,
            "unsigned": 32, "long": 64, "unsigned long": 64, "size_t": 64,
            "long long": 64, "unsigned long long": 64, "std::size_t": 64}

    def sign(t):
        return "u" if ("unsigned" in t or "size_t" in t or t == "bool") \
            else "s"
    nint = 0
    for f in ec:
        cints = {p["n"]: strip_type(p["t"]) for p in f.get("params", ())
                 if strip_type(p["t"]) in RANK
                 and not p["t"].rstrip().endswith("*")}
        if not cints:
            continue
        for n in walk(f["body"]):
            if n.get("k") not in ("call", "mcall", "ctor") or not n.get("u"):
                continue
            ps = prog.header(n["u"]).get("params", ())
            for i, a in enumerate(n.get("a", ())):
                if i >= len(ps) or not (a.get("k") == "ref"
                                        and a.get("d") == "param"
                                        and a.get("n") in cints):
                    continue
                pt = strip_type(ps[i].get("t", ""))
                at = cints[a["n"]]
                if pt not in RANK:
                    continue
                nint += 1
                key = "%s:%s" % (f["n"], a["n"])
                if pt == "bool":
                    continue            # C flag convention: non-zero = true
                lossy = (sign(at) != sign(pt) and not (
                    sign(at) == "u" and sign(pt) == "s"
                    and RANK[pt] > RANK[at])) or RANK[pt] < RANK[at]
                R.instance("R42.6", key, sample={
                    "function": f["n"], "parameter": "%s %s" % (at, a["n"]),
                    "passed_as": pt, "callee": show(n)[:50],
                    "value_preserving": not lossy})
                if lossy:
                    R.violation(
                        "R42.6", key, prog.loc(f, n.get("l")),
                        "%s passes its `%s %s` to a `%s` parameter of `%s`: "
                        "the implicit conversion changes values outside the "
                        "common range (e.g. ULONG_MAX becomes -1) and no "
                        "error code is returned" % (
                            f["n"], at, a["n"], pt, show(n)[:50]))
    R.floor("C integer parameters handed to the C++ API", nint, 10)

    # ---------------------------------------------------------------- R42.3
    nops = 0
    for u, f in prog.functions.items():
        if not f["file"].endswith("expression.h") or f.get("dependent") \
                or f.get("tk") == "pattern" or not f.get("body"):
            continue
        op = f.get("oper")
        want = None
        if op in OPERATOR_CORE:
            ptypes = [strip_type(p["t"]) for p in f.get("params", ())]
            if f.get("cls") == "SymEngine::Expression" or \
                    "SymEngine::Expression" in ptypes:
                if op == "-" and f.get("cls") == "SymEngine::Expression" \
                        and not f.get("params"):
                    continue        # unary minus: via *= -1 (checked below)
                want = OPERATOR_CORE[op]
        elif f["n"] in FREE_CORE and "cls" not in f and any(
                strip_type(p["t"]) == "SymEngine::Expression"
                for p in f.get("params", ())):
            want = FREE_CORE[f["n"]]
        if want is None:
            continue
        nops += 1
        key = "%s(%s)" % (f["n"], ", ".join(short(strip_type(p["t"]))
                                            for p in f["params"]))
        callees = [prog.header(n["u"]).get("n") for n in walk(f["body"])
                   if n.get("k") == "call" and n.get("u")
                   and (prog.header(n["u"]).get("qn") or "").startswith(
                       "SymEngine::")]
        R.instance("R42.3", key, sample={"operator": key,
                                         "core_calls": callees})
        elif_missing = uncalled_exit(prog, f, want)
        if want in callees and elif_missing is not None:
            R.violation(
                "R42.3", key, prog.loc(f, elif_missing),
                "Expression %s can finish (exit at line %s) without calling "
                "the core function %s(): on that path the operator's result "
                "is not the core function's result" % (key, elif_missing,
                                                        want))
        if want not in callees:
            R.violation(
                "R42.3", key, prog.loc(f),
                "Expression %s does not call the core function %s() (it "
                "calls: %s)" % (key, want, callees or "nothing"))
    R.floor("Expression operators", nops, 20)


MANIFEST = dict(
    technique="effect analysis (may-throw least fixpoint) over a visitor-"
              "sensitive CHA call graph + shape rules for the translation "
              "blocks + callee resolution for the Expression operators",
    text="Decides for every call sequence that no C++ exception can leave "
         "any of the extern \"C\" functions: the may-throw set is computed "
         "over everything reachable below the C API and every call outside "
         "a catch-all must be no-throw; translation blocks have a catch-all "
         "whose handlers return codes; and each Expression operator resolves "
         "to the matching core function. Functions whose signature has no "
         "error channel and that call throwing API are genuine findings "
         "(listed). Equality of C and C++ results as values and the C "
         "container semantics are not decided.",
    note="Trusted: the standard library is no-throw except a deny-list; "
         "allocation failure out of scope; the NOTHROW table of named "
         "summaries (CHA imprecision), each with its reason.",
    ref="§2 C42",
)
