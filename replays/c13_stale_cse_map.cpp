// C13 replay: an evaluator whose CSE initialisation threw keeps the CSE
// symbol map; a later init() then accepts an expression with a symbol that is
// not an input (a fresh evaluator rejects it).
#include <symengine/lambda_double.h>
#include <symengine/functions.h>
#include <symengine/add.h>
#include <symengine/mul.h>
#include <symengine/pow.h>
#include <iostream>
using namespace SymEngine;
int main()
{
    RCP<const Basic> x = symbol("x"), y = symbol("y");
    RCP<const Basic> f = function_symbol("f", x);       // unsupported node
    // (x+y)**2 appears twice -> CSE creates x0 = (x+y)**2 first; f(x) makes init throw later
    RCP<const Basic> sq = pow(add(x, y), integer(2));
    vec_basic outs = {add(sq, integer(1)), mul(sq, integer(3)), f};
    LambdaRealDoubleVisitor v;
    try { v.init({x, y}, outs, true); std::cout << "first init did not throw\n"; }
    catch (std::exception &e) { std::cout << "first init threw: " << e.what() << "\n"; }
    RCP<const Basic> x0 = symbol("x0");                  // name of the CSE temporary
    int rc = 0;
    try {
        v.init({x}, {add(x, x0)}, false);
        std::cout << "REUSED evaluator accepted x + x0 although x0 is not an input; value at x=2: "
                  << v.call({2.0}) << "\n";
        rc = 1;
    } catch (std::exception &e) { std::cout << "reused evaluator rejected x + x0: " << e.what() << "\n"; }
    LambdaRealDoubleVisitor w;
    try { w.init({x}, {add(x, x0)}, false); std::cout << "fresh evaluator accepted x + x0 ?!\n"; }
    catch (std::exception &e) { std::cout << "fresh evaluator rejected x + x0: " << e.what() << "\n"; }
    return rc;
}
