"""C44 — alternative printers are total and well-formed.

R44.1 balance on every path: in every function of MathMLPrinter the literal
      stream written along each structured path is a well-nested XML
      fragment; in LatexPrinter {} groups and \\left/\\right pairs nest; in
      SbmlPrinter / JuliaStrPrinter round parentheses balance.
R44.2 escaping: strings taken from the expression (get_name()) reach the
      MathML stream only through a function that escapes '&' and '<'.
R44.3 deterministic iteration: no printer emits in unordered-container
      order.
R44.4 SBML name round trip: printed SBML function name is an SBML parser key
      whose factory constructs the same class.
R44.5 definite assignment of the result string in every reachable handler of
      the string-valued printers.
Totality is reported (classes resolving to a throwing fallback), not judged.
"""
from selib.program import walk, show, short, strip_type
from selib.tables import string_tables
from selib.visitors import Visitors, MustAssign
from selib import printers as PR
from selib import emit as EM
from selib.build import AnalysisBroken

XML_PRINTER = "SymEngine::MathMLPrinter"
LATEX_PRINTER = "SymEngine::LatexPrinter"
# parentheses: only the SBML printer (an unbalanced parenthesis breaks the
# parse_sbml round trip; StrPrinter's half-open intervals "(a, b]" are
# legitimately unbalanced and no clause of the property concerns them)
PAREN_PRINTERS = ["SymEngine::SbmlPrinter"]
ALL_PRINTERS = [XML_PRINTER, LATEX_PRINTER, "SymEngine::UnicodePrinter",
                "SymEngine::SbmlPrinter", "SymEngine::JuliaStrPrinter"]
STR_VALUED = {"SymEngine::LatexPrinter": "str_",
              "SymEngine::SbmlPrinter": "str_",
              "SymEngine::JuliaStrPrinter": "str_",
              "SymEngine::UnicodePrinter": "box_"}
PRINTER_FILES = {XML_PRINTER: "printers/mathml.cpp",
                 LATEX_PRINTER: "printers/latex.cpp",
                 "SymEngine::SbmlPrinter": "printers/sbml.cpp"}


def functions_of(prog, cls, file_suffix=None):
    """methods of cls plus the free functions defined in its file"""
    out = []
    for u, f in prog.functions.items():
        if f.get("dependent") or f.get("tk") == "pattern" \
                or not f.get("body"):
            continue
        if f.get("cls") == cls:
            out.append(f)
        elif file_suffix and f["file"].endswith(file_suffix) \
                and "cls" not in f:
            out.append(f)
    return sorted(out, key=lambda f: (f["file"], f["line"]))


def fkey(f):
    ps = f.get("params", ())
    return "%s(%s)" % (short(f["qn"]), ", ".join(
        short(strip_type(p["t"])) for p in ps))


def _visit_returns(body, cb, guards=()):
    """calls cb(return-node, guards, line) for every return statement with the
    if-conditions that hold there (early returns of preceding ifs included)"""
    def block(stmts, g):
        g = tuple(g)
        for st in stmts:
            k = st.get("k")
            if k == "return":
                cb(st, g, st.get("l"))
                return
            if k == "{}":
                block(st.get("s", ()), g)
            elif k == "if":
                t, e = st.get("t"), st.get("e")
                block(t.get("s", [t]) if t.get("k") == "{}" else [t],
                      g + ((st.get("c"), True),))
                if e:
                    block(e.get("s", [e]) if e.get("k") == "{}" else [e],
                          g + ((st.get("c"), False),))
            elif k in ("for", "forr", "while", "do", "switch"):
                b = st.get("b")
                if b:
                    block(b.get("s", [b]) if b.get("k") == "{}" else [b], g)
    block(body.get("s", ()), guards)


def escapers(prog):
    """functions that escape XML markup: their body mentions the entity
    literals for '&' and '<'"""
    out = set()
    for u, f in prog.functions.items():
        if not f.get("body") or f.get("dependent"):
            continue
        lits = {n.get("v") for n in walk(f["body"])
                if n.get("k") == "lit" and n.get("t") == "str"}
        if "&amp;" in lits and "&lt;" in lits:
            out.add(u)
    return out


def balance(prog, R, rid, cls, checker, what, file_suffix=None,
            only_sinks=None, normalise=None):
    E = EM.Emit(prog, normalise=normalise)
    fns = functions_of(prog, cls, file_suffix)
    nlit = 0
    for f in fns:
        E.literal_args = []
        E.nlits = 0
        try:
            finals = E.run(f)
        except AnalysisBroken as ex:
            raise AnalysisBroken("%s: %s" % (fkey(f), ex))
        key = fkey(f)
        streams = 0
        bad = None
        # outputs of the function: printer members, the returned string and
        # streams/strings received by non-const reference; locals are only
        # fragments and are checked where they flow into an output
        outs = {p["n"] for p in f.get("params", ())
                if p["t"].rstrip().endswith("&")
                and not p["t"].lstrip().startswith("const ")
                and (EM.is_stream(p["t"]) or EM.is_string(p["t"]))}
        for st in finals:
            for sn, toks in st.sinks.items():
                if not (sn.startswith("this.") or sn == "<return>"
                        or sn in outs):
                    continue
                if not any(t[0] == "lit" for t in toks):
                    continue
                streams += 1
                why = checker(toks)
                if why and bad is None:
                    bad = (sn, why, EM.flatten(toks).replace(EM.DYN, "…"))
        for line, lit in E.literal_args:
            why = checker((("lit", lit),))
            if why and bad is None:
                bad = ("argument literal", why, lit)
        nlit += E.nlits
        R.instance(rid, key, nontrivial=E.nlits > 0,
                   sample={"function": key, "final_states": len(finals),
                           "literal_emissions_evaluated": E.nlits}
                   if E.nlits else None)
        if bad:
            sn, why, text = bad
            R.violation(
                rid, key, prog.loc(f),
                "%s: on some path the %s written to `%s` is not %s: %s "
                "(%s: %s)" % (key, "text", sn, what, why,
                              "unmatched residue" if normalise else "stream",
                              text[:160]))
    return len(fns), nlit


def run(loader, R, tier):
    prog = loader()
    V = Visitors(prog)
    for c in ALL_PRINTERS:
        if c not in prog.classes:
            raise AnalysisBroken("anchor class %s vanished" % c)
    R.explanation = (
        "R44.1 executes every function of the MathML, LaTeX, SBML and Julia "
        "printers symbolically over its structure (if/else forks, loops 0/1/"
        "2 times, throw ends a path) recording per stream/string the ordered "
        "string literals written, with placeholders for dynamic parts; every "
        "such literal stream must be a well-nested XML fragment (MathML), "
        "have nested {} and \\left/\\right (LaTeX) or balanced parentheses "
        "(SBML, Julia). Nested printing calls are placeholders: balanced by "
        "induction because every function is checked. R44.2 is a taint rule "
        "on the same streams: get_name() reaches the MathML stream only "
        "through a function that escapes '&' and '<'. R44.3/R44.4/R44.5 as "
        "for C16. Decides well-formedness of the literal skeleton on every "
        "path; does not decide that the output means the expression, nor "
        "totality (the unsupported classes are listed).")
    R.rule("R44.1", "literal stream balanced on every path")
    R.rule("R44.2", "names are XML-escaped before reaching the MathML stream")
    R.rule("R44.3", "no emission in unordered-container order")
    R.rule("R44.4", "SBML printed name is an SBML parser key constructing "
                    "the same class")
    R.rule("R44.5", "result definitely assigned in every handler")
    R.rule("R44.7", "no function reachable from a MathML handler resets the "
                    "document stream")
    R.rule("R44.8", "SBML parser builds names from the text as written, not "
                    "from the case-folded look-up key")
    R.rule("R44.6", "string positions taken from find*() are tested against "
                    "npos before substr/erase/at")
    R.assumptions += [
        "symbol names are not themselves LaTeX markup with unbalanced "
        "braces (LatexPrinter passes names containing '\\\\' or '{' through "
        "by design)",
        "numbers print without markup characters"]
    R.trusted += ["loops unrolled 0, 1 and 2 times cover the literal "
                  "skeleton of any iteration count (a body with non-zero net "
                  "nesting already fails at 1)"]

    # ---------------------------------------------------------------- R44.1
    n1, s1 = balance(prog, R, "R44.1", XML_PRINTER, EM.xml_check,
                     "well-nested XML", PRINTER_FILES[XML_PRINTER])
    n2, s2 = balance(prog, R, "R44.1", LATEX_PRINTER, EM.latex_check,
                     "balanced LaTeX ({} and \\left/\\right)",
                     PRINTER_FILES[LATEX_PRINTER], normalise=EM.norm_latex)
    n3 = s3 = 0
    for c in PAREN_PRINTERS:
        a, b = balance(prog, R, "R44.1", c, EM.paren_check,
                       "parenthesis-balanced",
                       PRINTER_FILES.get(c), normalise=EM.norm_paren)
        n3 += a
        s3 += b
    R.floor("MathML functions", n1, 38)
    R.floor("MathML literal emissions", s1, 80)
    R.floor("LaTeX functions", n2, 45)
    R.floor("LaTeX literal emissions", s2, 100)
    R.floor("SBML functions", n3, 10)

    # ---------------------------------------------------------------- R44.2
    esc = escapers(prog)
    R.info["xml_escapers"] = sorted(short(prog.name_of(u)) for u in esc)
    E = EM.Emit(prog)
    nname = 0
    for f in functions_of(prog, XML_PRINTER, PRINTER_FILES[XML_PRINTER]):
        for n in walk(f["body"]):
            if n.get("k") != "mcall" or n.get("n") != "get_name":
                continue
            nname += 1
            key = "%s@%s" % (fkey(f), n.get("l"))
            # the call must be (transitively) an argument of an escaper
            ok = False
            for m in walk(f["body"]):
                if m.get("k") in ("call", "mcall") and m.get("u") in esc:
                    if any(x is n for a in m.get("a", ())
                           for x in walk(a)):
                        ok = True
            R.instance("R44.2", key, sample={"site": key, "escaped": ok})
            if not ok:
                R.violation(
                    "R44.2", fkey(f), prog.loc(f, n.get("l")),
                    "%s streams `%s` into the MathML output without XML "
                    "escaping: a name containing '<' or '&' yields "
                    "ill-formed XML" % (fkey(f), show(n)))
    R.floor("get_name() uses in MathMLPrinter", nname, 2)
    # the escaper itself: it handles the three characters that are markup in
    # character data (& < >), and any path that returns the input unchanged
    # has established that none of the three occurs
    from selib import sym as _sym
    NEED = {"&", "<", ">"}
    for u in sorted(esc):
        g = prog.functions[u]
        key = "escaper:" + short(g["qn"])
        cases = set()
        for n in walk(g["body"]):
            if n.get("k") == "case" and (n.get("v") or {}).get("k") == "lit":
                v = n["v"].get("v")
                cases.add(chr(v) if isinstance(v, int) else str(v))
            if n.get("k") in ("bin", "op") and n.get("op") == "==":
                for a in n.get("a", ()):
                    if a.get("k") == "lit" and a.get("t") == "char":
                        v = a.get("v")
                        cases.add(chr(v) if isinstance(v, int) else str(v))
        R.instance("R44.2", key, sample={"escaper": key,
                                         "handled": sorted(cases & NEED)})
        if not NEED <= cases:
            R.violation(
                "R44.2", key, prog.loc(g),
                "%s does not handle %s: a name containing it is streamed "
                "as markup" % (short(g["qn"]), sorted(NEED - cases)))
        params = {p_["n"] for p_ in g.get("params", ())}

        def cbe(n, guards, line, g=g, key=key, params=params):
            if n.get("k") != "return" or not n.get("e"):
                return
            e = n["e"]
            while e.get("k") in ("cast", "ctor") and len(
                    [a for a in e.get("a", ()) if a.get("k") != "defarg"]) \
                    == 1:
                e = [a for a in e["a"] if a.get("k") != "defarg"][0]
            if not (e.get("k") == "ref" and e.get("n") in params):
                return
            ok = False
            for gd in _sym.flatten_guards(guards):
                if gd[0] == "case":
                    continue
                c, pol = gd
                t = show(c)
                if "find_first_of" in t and "npos" in t and pol \
                        and c.get("op") == "==":
                    lits = [y.get("v") for y in walk(c)
                            if y.get("k") == "lit" and y.get("t") == "str"]
                    if lits and NEED <= set(lits[0]):
                        ok = True
            if not ok:
                R.violation(
                    "R44.2", key + ":unchanged", prog.loc(g, n.get("l")),
                    "%s returns its input unchanged on a path that has not "
                    "established the absence of all of & < > (e.g. a fast "
                    "path whose character set forgets '&')" % short(g["qn"]))
        _sym.visit_guarded_stmts(g["body"], cbe) if hasattr(
            _sym, "visit_guarded_stmts") else _visit_returns(g["body"], cbe)

    # ---------------------------------------------------------------- R44.6
    # totality: std::string::substr(pos) throws std::out_of_range for
    # pos > size(), which is what a failed find*() (npos) produces.  In the
    # printers every substr/erase/at whose position comes from a find*()
    # result must be dominated by a test of that result against npos.
    FIND = {"find", "rfind", "find_first_of", "find_first_not_of",
            "find_last_of", "find_last_not_of"}
    nfind = 0
    from selib import sym as _sym
    for c in ALL_PRINTERS + ["SymEngine::StrPrinter"]:
        for f in functions_of(prog, c, PRINTER_FILES.get(c)):
            from_find = {}
            for d in walk(f["body"]):
                if d.get("k") == "decl":
                    for v in d.get("v", ()):
                        i = v.get("i")
                        if i is not None and any(
                                x.get("k") == "mcall" and x.get("n") in FIND
                                for x in walk(i)):
                            from_find[v["n"]] = show(i)[:40]

            def cb6(n, guards, line, f=f, from_find=from_find):
                nonlocal nfind
                if n.get("k") != "mcall" or n.get("n") not in (
                        "substr", "erase", "at") or not n.get("a"):
                    return
                pos = n["a"][0]
                direct = [x for x in walk(pos) if x.get("k") == "mcall"
                          and x.get("n") in FIND]
                names = [x["n"] for x in walk(pos) if x.get("k") == "ref"
                         and x.get("n") in from_find]
                if not direct and not names:
                    return
                nfind += 1
                key = "%s@%s" % (fkey(f), n.get("l"))
                ok = False
                for g in _sym.flatten_guards(guards):
                    if g[0] == "case":
                        continue
                    cnd, pol = g
                    t = show(cnd)
                    if "npos" in t and cnd.get("k") in ("bin", "op") and (
                            (cnd.get("op") == "!=" and pol)
                            or (cnd.get("op") == "==" and not pol)) \
                            and (any(nm in t for nm in names) or direct):
                        ok = True
                R.instance("R44.6", key, sample={"call": show(n)[:70],
                                                 "npos_tested": ok})
                if not ok:
                    R.violation(
                        "R44.6", fkey(f), prog.loc(f, n.get("l")),
                        "%s calls `%s` with a position that comes from a "
                        "find*() result without a dominating test against "
                        "npos: when nothing is found the call throws "
                        "std::out_of_range and the printer fails" % (
                            fkey(f), show(n)[:70]))
            _sym.visit_guarded(f["body"], cb6)
    R.floor("find-derived string positions in the printers", nfind, 1)

    # ---------------------------------------------------------------- R44.7
    # the MathML printer accumulates the whole document in one member
    # stream; a function that resets that stream must not be reachable from
    # a handler (nested sub-expressions are printed through handlers, so a
    # reset in mid-document drops the opening tags written so far while the
    # enclosing handlers still append their closing tags).
    mm = [f for f in functions_of(prog, XML_PRINTER)]
    by_u = {f["u"]: f for f in mm}

    def resets_stream(f):
        for n in walk(f["body"]):
            if n.get("k") == "mcall" and (n.get("o") or {}).get("k") \
                    == "mem" and EM.is_stream(n["o"].get("t")) \
                    and ((n.get("n") == "str" and n.get("a"))
                         or n.get("n") in ("clear", "seekp", "swap")):
                if n.get("n") == "clear":
                    continue            # clears error flags only
                return n
            if n.get("k") in ("bin", "op") and n.get("op") == "=" \
                    and n.get("a") and n["a"][0].get("k") == "mem" \
                    and EM.is_stream(n["a"][0].get("t")):
                return n
        return None
    resetters = {f["u"]: resets_stream(f) for f in mm}
    resetters = {u: n for u, n in resetters.items() if n is not None}

    def reaches_reset(f, seen=None):
        seen = seen or set()
        if f["u"] in seen:
            return None
        seen.add(f["u"])
        for n in walk(f["body"]):
            if n.get("k") in ("mcall", "call") and n.get("u") in by_u:
                g = by_u[n["u"]]
                if g["u"] in resetters:
                    return (n, g)
                r = reaches_reset(g, seen)
                if r:
                    return r
        return None
    nh7 = 0
    for f in mm:
        if f.get("n") != "bvisit":
            continue
        nh7 += 1
        key = fkey(f)
        R.instance("R44.7", key)
        if f["u"] in resetters:
            R.violation("R44.7", key, prog.loc(f),
                        "%s resets the document stream in the middle of a "
                        "document" % key)
            continue
        r = reaches_reset(f)
        if r:
            n, g = r
            R.violation(
                "R44.7", key, prog.loc(f, n.get("l")),
                "%s prints a nested expression through `%s`, and %s resets "
                "the document stream (`%s`): everything written so far is "
                "dropped while the enclosing handlers still append their "
                "closing tags" % (key, show(n)[:40], fkey(g),
                                  show(resetters[g["u"]])[:40]))
    R.floor("MathML handlers checked for stream resets", nh7, 30)

    # ---------------------------------------------------------------- R44.8
    # SBML round trip of user-defined names: the SBML parser looks names up
    # case-insensitively through a lower-cased copy; that copy may be used
    # for look-ups only — an expression must be built from the name as
    # written, otherwise parse_sbml(sbml(F(x))) is f(x).
    n8 = 0
    for f in prog.functions.values():
        if not (f.get("cls") or "").startswith("SymEngine::SbmlParser") \
                or not f.get("body") or f.get("dependent"):
            continue
        folded = set()
        for d in walk(f["body"]):
            if d.get("k") == "decl":
                for v in d.get("v", ()):
                    if v.get("i") is not None and any(
                            x.get("k") == "call"
                            and x.get("n") in ("lowercase", "tolower",
                                               "uppercase", "toupper")
                            for x in walk(v["i"])):
                        folded.add(v["n"])
        if not folded:
            continue
        for n in walk(f["body"]):
            if n.get("k") == "call" and n.get("u") \
                    and (prog.header(n["u"]).get("qn") or "").startswith(
                        "SymEngine::") \
                    and prog.header(n["u"]).get("n") in (
                        "function_symbol", "symbol", "make_rcp", "constant",
                        "dummy"):
                used = {x["n"] for a in n.get("a", ()) for x in walk(a)
                        if x.get("k") == "ref" and x.get("n") in folded}
                n8 += 1
                key = "%s@%s" % (short(f["qn"]), n.get("l"))
                R.instance("R44.8", key, sample={"call": show(n)[:60],
                                                 "uses_folded_name":
                                                 sorted(used)})
                if used:
                    R.violation(
                        "R44.8", short(f["qn"]), prog.loc(f, n.get("l")),
                        "%s builds `%s` from the case-folded look-up key "
                        "`%s`: a user-defined name written with capitals "
                        "does not survive parse_sbml(sbml(e))" % (
                            short(f["qn"]), show(n)[:50],
                            sorted(used)[0]))
    R.floor("name-constructing calls in SbmlParser methods that fold case",
            n8, 1)

    # ---------------------------------------------------------------- R44.3
    sites = 0
    fns = 0
    for c in ALL_PRINTERS:
        for f in functions_of(prog, c):
            fns += 1
            for line, desc, ok in PR.unordered_iteration_sites(prog, f):
                sites += 1
                key = "%s@%s" % (short(f["qn"]), line)
                R.instance("R44.3", key, sample={"where": key, "what": desc,
                                                 "sorted": ok})
                if not ok:
                    R.violation(
                        "R44.3", short(f["qn"]), prog.loc(f, line),
                        "%s emits while walking an unordered container "
                        "(%s)" % (short(f["qn"]), desc))
    R.instance("R44.3", "printer functions scanned", nontrivial=False,
               sample={"functions": fns, "unordered_walks": sites})
    R.floor("printer functions scanned for iteration order", fns, 150)

    # ---------------------------------------------------------------- R44.4
    pf0, names = PR.printer_names(prog, "SymEngine::init_str_printer_names")
    pf, over = PR.printer_names(prog, "SymEngine::init_sbml_printer_names")
    names = dict(names)
    names.update(over)
    e2c = PR.enum_to_class(prog)
    srcs = prog.fn_by_qn(
        "SymEngine::init_sbml_parser_single_arg_functions") \
        + prog.fn_by_qn("SymEngine::SbmlParser::functionify")
    if len(srcs) < 2:
        raise AnalysisBroken("SBML parser table anchors not found")
    by_key = {}
    known = set()
    nkeys = 0
    for f in srcs:
        for table, es in string_tables(f).items():
            for key, tgt, line in es:
                nkeys += 1
                u = tgt.get("u") if tgt.get("k") == "ref" else None
                ks = PR.constructs(prog, u, depth=1) if u else set()
                by_key.setdefault(key, set()).update(ks)
                known |= ks
    # classes SbmlPrinter::bvisit(const Function&) special-cases by type
    # code (printed with a fixed literal, not through the name table)
    special = set()
    for f in functions_of(prog, "SymEngine::SbmlPrinter"):
        if f["n"] == "bvisit":
            for n in walk(f["body"]):
                if n.get("k") == "ref" and n.get("d") == "enum" \
                        and n.get("n", "").startswith("SYMENGINE_"):
                    special.add(n["n"])
    checked = 0
    for enum, (lit, line) in sorted(names.items()):
        cls = e2c.get(enum)
        if not cls or not lit or cls not in known:
            continue
        if not prog.derives(cls, "SymEngine::Function"):
            continue
        ikey = "%s=%s" % (enum, lit)
        if enum in special and enum not in over:
            R.instance("R44.4", ikey, nontrivial=False)
            continue
        checked += 1
        R.instance("R44.4", ikey, sample={
            "class": short(cls), "printed": lit,
            "parser_key_constructs": sorted(short(x) for x in by_key.get(
                lit, ()))[:6]})
        if cls not in by_key.get(lit, set()):
            other = sorted(k for k, ks in by_key.items() if cls in ks)
            R.violation(
                "R44.4", short(cls), prog.loc(pf if enum in over else pf0,
                                              line),
                "%s prints in SBML as \"%s(...)\" but %s: parse_sbml(sbml(e))"
                " does not give back a %s (the SBML parser constructs it "
                "for: %s)" % (
                    short(cls), lit,
                    "no SBML parser table has that key"
                    if lit not in by_key else
                    "that key constructs {%s}" % ", ".join(sorted(
                        short(x) for x in by_key[lit])),
                    short(cls), ", ".join(other)))
    R.floor("SBML parser keys", nkeys, 60)
    R.floor("SBML-parser-known printed function classes", checked, 25)

    # ---------------------------------------------------------------- R44.5
    nh = 0
    for v, member in sorted(STR_VALUED.items()):
        MA = MustAssign(prog, member)
        for h, Xs in sorted(V.by_handler(v).items()):
            f = prog.functions.get(h)
            if f is None:
                raise AnalysisBroken("handler without body: "
                                     + prog.name_of(h))
            nh += 1
            key = "%s::bvisit(%s)" % (short(v), short(
                f["params"][0]["t"]) if f.get("params") else "?")
            R.instance("R44.5", key)
            bad = MA.unassigned_exits(f)
            if bad:
                R.violation(
                    "R44.5", key, prog.loc(f, bad[0] if bad[0] != "end"
                                           else None),
                    "%s (reached for %s) can finish without assigning `%s`"
                    % (key, ", ".join(short(x) for x in Xs[:4]), member))
    R.floor("handlers of string-valued printers", nh, 150)

    # ---------------------------------------------------------------- R44.9
    stringbox_typestate(prog, R)

    # --------------------------------------------------------------- R44.10
    infix_operands(prog, R, "R44.10")

    # --------------------------------------------------------------- R44.11
    # order of composed output: a forward loop over a sequence that inserts
    # something built from each element at the *front* of an output
    # sequence reverses the order (an exponent 2/3 was drawn as 3 over 2)
    R.rule("R44.11", "no forward loop prepends its elements to an output "
                     "sequence (order reversal)")
    npre = 0
    ncontrol11 = 0
    for u, f in sorted(prog.functions.items(), key=lambda kv: kv[1]["qn"]):
        control11 = f["qn"].startswith("verif_positive::")
        if not f.get("body") or f.get("dependent") or not (
                control11 or "/symengine/printers/" in (f.get("file") or "")):
            continue
        for lp in walk(f["body"]):
            if lp.get("k") != "forr" or not (lp.get("v") or {}).get("n"):
                continue
            var = lp["v"]["n"]
            if "rbegin" in show(lp.get("r") or {}) \
                    or "reverse" in show(lp.get("r") or {}):
                continue
            for n in walk(lp.get("b") or {}):
                if not (n.get("k") == "mcall" and n.get("n") in (
                        "insert", "emplace") and len(n.get("a", ())) >= 2):
                    continue
                pos = n["a"][0]
                while pos.get("k") in ("cast", "ctor") and len(
                        [a for a in pos.get("a", ())
                         if a.get("k") != "defarg"]) == 1:
                    pos = [a for a in pos["a"] if a.get("k") != "defarg"][0]
                at_front = pos.get("k") == "mcall" \
                    and pos.get("n") in ("begin", "cbegin") \
                    and show(pos.get("o") or {}) == show(n.get("o") or {})
                uses = any(y.get("k") == "ref" and y.get("n") == var
                           for a in n["a"][1:] for y in walk(a))
                if not (at_front and uses):
                    continue
                if control11:
                    ncontrol11 += 1
                    continue
                npre += 1
                key = "%s:%s" % (short(f["qn"]), show(n.get("o") or {}))
                R.instance("R44.11", key)
                R.violation(
                    "R44.11", key, prog.loc(f, n.get("l")),
                    "%s walks `%s` forwards and inserts each element at the "
                    "front of `%s`: the elements end up in reverse order "
                    "(a multi-line exponent is drawn upside down)" % (
                        short(f["qn"]), show(lp.get("r") or {})[:40],
                        show(n.get("o") or {})))
    R.info["front_insertions_in_forward_loops"] = npre
    R.floor("positive control (verif_positive::stack_lines_reversed) "
            "recognised", ncontrol11, 1)

    # --------------------------------------------------------------- R44.14
    # nested expressions are printed by the printer itself: streaming a
    # child with operator<<(ostream&, const Basic&) uses the plain string
    # printer, whatever the surrounding format is
    R.rule("R44.14", "no alternative printer streams a child expression "
                     "with the default string printer")
    n14 = 0
    for u, f in sorted(prog.functions.items(), key=lambda kv: kv[1]["qn"]):
        cls = f.get("cls") or ""
        if not f.get("body") or f.get("dependent") \
                or cls not in ALL_PRINTERS or cls == "SymEngine::StrPrinter":
            continue
        for x in walk(f["body"]):
            if not (x.get("k") == "op" and x.get("op") == "<<"
                    and x.get("u") and len(x.get("a", ())) == 2):
                continue
            h = prog.header(x["u"]) or {}
            ps = h.get("params") or []
            if not (len(ps) == 2 and "SymEngine::Basic" in ps[1].get("t", "")
                    and "RCP" not in ps[1].get("t", "")):
                continue
            rhs = x["a"][1]
            child = any(y.get("k") == "mcall" and (y.get("n") or ""
                                                  ).startswith("get_")
                        for y in walk(rhs))
            n14 += 1
            key = "%s(%s)@%s" % (short(f["qn"]), short(
                f["params"][0]["t"]) if f.get("params") else "", x.get("l"))
            R.instance("R44.14", key, sample={"streamed": show(rhs)[:40],
                                              "is_child": child})
            if child:
                R.violation(
                    "R44.14", "%s(%s)" % (short(f["qn"]), short(
                        f["params"][0]["t"]) if f.get("params") else ""),
                    prog.loc(f, x.get("l")),
                    "%s streams the child `%s` with operator<<(ostream&, "
                    "const Basic&), the plain string printer: the operand "
                    "comes out in SymEngine's own syntax inside %s output"
                    % (short(f["qn"]), show(rhs)[:40], short(cls)))
    R.info["basic_stream_insertions_in_alternative_printers"] = n14

    # --------------------------------------------------------------- R44.13
    # sibling agreement on a value-dependent class: Infty is one class for
    # +oo, -oo and zoo; every printer's handler for it consults the
    # direction (all siblings but one did)
    R.rule("R44.13", "every printer's Infty handler distinguishes the "
                     "direction of the infinity")
    n13 = 0
    for v in sorted(set(ALL_PRINTERS) | {"SymEngine::StrPrinter"}):
        h = V.handlers(v).get("SymEngine::Infty")
        f = prog.functions.get(h) if h else None
        if f is None or not f.get("params") or strip_type(
                f["params"][0]["t"]) != "SymEngine::Infty":
            continue
        n13 += 1
        reads = {n.get("n") for n in walk(f["body"])
                 if n.get("k") == "mcall" and n.get("n") in (
                     "is_negative_infinity", "is_positive_infinity",
                     "is_unsigned_infinity", "is_negative", "is_positive",
                     "get_direction")}
        key = "%s::bvisit(Infty)" % short(f.get("cls") or v)
        R.instance("R44.13", key, sample={"handler": key,
                                          "direction_tests": sorted(reads)})
        throws_only = all(st.get("k") == "expr" and (st.get("e") or {}).get(
            "k") == "throw" for st in f["body"].get("s", ())) \
            and f["body"].get("s")
        if not reads and not throws_only:
            R.violation(
                "R44.13", key, prog.loc(f),
                "%s prints every infinity the same way (no test of the "
                "direction): -oo and the complex infinity come out as +oo"
                % key)
    R.floor("Infty handlers of the printers", n13, 5)

    # --------------------------------------------------------------- R44.12
    # contradiction rule: a function that tests whether a sequence is empty
    # believes it can be; stepping or dereferencing its begin() where that
    # test has not excluded emptiness is then undefined (it hung for the
    # zero polynomial)
    R.rule("R44.12", "begin() of a sequence that the function itself tests "
                     "for emptiness is advanced/dereferenced only where "
                     "emptiness is excluded")
    from selib import sym as _sym12
    n12 = 0
    for u, f in sorted(prog.functions.items(), key=lambda kv: kv[1]["qn"]):
        if not f.get("body") or f.get("dependent") \
                or "/symengine/printers/" not in (f.get("file") or ""):
            continue

        def is_begin(e, name=None):
            return e.get("k") == "mcall" and e.get("n") in ("begin",
                                                            "cbegin") \
                and (e.get("o") or {}).get("k") == "ref" \
                and (name is None or e["o"].get("n") == name)

        def empt_test(c):
            """(container, True if the condition being true means empty)"""
            if c.get("k") in ("bin", "op") and c.get("op") in ("==", "!=") \
                    and len(c.get("a", ())) == 2:
                a, b = c["a"]
                for x, y in ((a, b), (b, a)):
                    if is_begin(x) and y.get("k") == "mcall" \
                            and y.get("n") in ("end", "cend") \
                            and (y.get("o") or {}).get("n") == x["o"]["n"]:
                        return x["o"]["n"], c["op"] == "=="
            if c.get("k") == "mcall" and c.get("n") == "empty" \
                    and (c.get("o") or {}).get("k") == "ref":
                return c["o"]["n"], True
            return None
        tested = set()
        for n in walk(f["body"]):
            t = empt_test(n)
            if t:
                tested.add(t[0])
        if not tested:
            continue

        def cb12(n, guards, line, f=f, tested=tested):
            nonlocal n12
            tgt = None
            if n.get("k") in ("op", "un") and n.get("op") in ("++", "*",
                                                              "->") \
                    and n.get("a") and is_begin(n["a"][0]) \
                    and n["a"][0]["o"]["n"] in tested:
                tgt = n["a"][0]["o"]["n"]
            elif n.get("k") == "call" and n.get("n") in ("next", "advance") \
                    and n.get("a") and is_begin(n["a"][0]) \
                    and n["a"][0]["o"]["n"] in tested:
                tgt = n["a"][0]["o"]["n"]
            if tgt is None:
                return
            n12 += 1
            ok = False
            for g in _sym12.flatten_guards(guards):
                if g[0] == "case":
                    continue
                t = empt_test(g[0])
                if t and t[0] == tgt and t[1] != bool(g[1]):
                    ok = True
            key = "%s:%s" % (short(f["qn"]).split("<")[0], tgt)
            R.instance("R44.12", key + "@%s" % n.get("l"))
            if not ok:
                R.violation(
                    "R44.12", key, prog.loc(f, n.get("l")),
                    "%s advances or dereferences %s.begin() (line %s) "
                    "where %s may be empty, although the function itself "
                    "tests %s for emptiness elsewhere: for an empty "
                    "sequence this steps past end() (the zero polynomial "
                    "made printing hang)" % (short(f["qn"])[:60], tgt,
                                             n.get("l"), tgt, tgt))
        _sym12.visit_guarded(f["body"], cb12)
    R.floor("begin() steps in functions that test emptiness", n12, 3)

    # ---------------------------------------------------------------- totality
    unsupported = {}
    for v in ALL_PRINTERS:
        hs = V.handlers(v)
        un = []
        for X, h in sorted(hs.items()):
            f = prog.functions.get(h)
            if not f:
                continue
            stmts = (f.get("body") or {}).get("s", [])
            if len(stmts) == 1 and stmts[0].get("k") == "expr" and (
                    stmts[0].get("e") or {}).get("k") == "throw":
                un.append(short(X))
        unsupported[short(v)] = un
    R.info["unsupported_classes_per_printer"] = unsupported


OPCH = "^*/+-"


def infix_operands(prog, R, rid, only=None):
    """In every _print_pow overrider of the string printers, an operand (a
    parameter) written next to an infix operator literal goes through
    parenthesizeLE/LT, sits between the parentheses/commas of a call, or is
    protected by a condition on that operand."""
    R.rule(rid, "in every _print_pow, an operand written next to an infix "
                "operator goes through parenthesizeLE/LT (or sits inside a "
                "call's parentheses), and the text's top-level operator is "
                "the power operator (or the reciprocal's `/`)")
    fs = [f for f in prog.functions.values()
          if f["n"] == "_print_pow" and f.get("body")
          and not f.get("dependent")
          and prog.derives(f.get("cls") or "", "SymEngine::StrPrinter")
          and (only is None or f.get("cls") in only)]
    nops = 0
    controls = []

    def items_of(e, out):
        # flatten a << chain on the stream parameter
        if e.get("k") == "op" and e.get("op") == "<<" \
                and len(e.get("a", ())) == 2:
            items_of(e["a"][0], out)
            out.append(e["a"][1])

    def branches(stmts, guards, acc):
        items = []
        for st in stmts:
            if st.get("k") == "expr":
                items_of(st.get("e") or {}, items)
            elif st.get("k") == "if":
                for part, pol in (("t", True), ("e", False)):
                    b = st.get(part)
                    if b is None:
                        continue
                    branches(b.get("s", [b]) if b.get("k") == "{}" else [b],
                             guards + [(st.get("c"), pol)], acc)
            elif st.get("k") == "{}":
                branches(st.get("s", ()), guards, acc)
        if items:
            acc.append((guards, items))

    for f in sorted(fs, key=lambda f: f["qn"]):
        params = {p["n"] for p in f.get("params", ())[1:]}
        acc = []
        branches(f["body"].get("s", ()), [], acc)
        for guards, items in acc:
            for i, it in enumerate(items):
                if not (it.get("k") == "mcall" and it.get("n") == "apply"
                        and it.get("a")):
                    continue
                refs = [y["n"] for y in walk(it["a"][0])
                        if y.get("k") == "ref" and y.get("d") == "param"
                        and y["n"] in params]
                if not refs:
                    continue
                prv = items[i - 1] if i > 0 else None
                nxt = items[i + 1] if i + 1 < len(items) else None
                pl = (prv.get("v") or "").rstrip() if prv is not None \
                    and prv.get("k") == "lit" else None
                nl = (nxt.get("v") or "").lstrip() if nxt is not None \
                    and nxt.get("k") == "lit" else None
                after_op = pl is not None and pl[-1:] in OPCH and pl != ""
                before_op = nl is not None and nl[:1] in OPCH and nl != ""
                if not (after_op or before_op):
                    continue
                nops += 1
                key = "%s:%s" % (short(f["qn"]), refs[0])
                R.instance(rid, key + "@%s" % it.get("l"))
                # a condition on the operand itself (other than comparing
                # the *other* operand) is accepted as protection
                guarded = any(
                    refs[0] in [y.get("n") for y in walk(c)
                                if y.get("k") == "ref"]
                    and pol and c.get("n") != "eq"
                    for c, pol in guards if c)
                if not guarded and f["qn"].startswith("verif_positive::"):
                    controls.append(key)
                elif not guarded:
                    R.violation(
                        rid, key, prog.loc(f, it.get("l")),
                        "%s writes the operand `%s` with a bare apply() "
                        "next to the operator `%s`: a compound operand "
                        "(a sum, a product, a power) is emitted without "
                        "parentheses and the text means a different "
                        "expression" % (short(f["qn"]), refs[0],
                                        (pl if after_op else nl).strip()))
    # top-level operator of the text: Precedence reports Pow for every Pow
    # node, so outside call parentheses _print_pow may write only its own
    # power operator; the reciprocal branch (exponent -1, "1/x") is the one
    # accepted exception: a Mul prints its negative powers itself and every
    # other parent either parenthesises a Pow-level operand or wraps it in
    # call parentheses
    LINEAR = {"StrPrinter", "JuliaStrPrinter", "SbmlPrinter",
              "C89CodePrinter", "C99CodePrinter", "JSCodePrinter",
              "MetalCodePrinter", "BarePowPrinter"}
    for f in sorted(fs, key=lambda f: f["qn"]):
        if short(f.get("cls") or "").split("::")[-1] not in LINEAR:
            continue
        acc = []
        branches(f["body"].get("s", ()), [], acc)
        for guards, items in acc:
            depth = 0
            for it in items:
                if it.get("k") != "lit" or it.get("t") != "str":
                    continue
                txt = (it.get("v") or "").replace("**", "^")
                for ch in txt:
                    if ch == "(":
                        depth += 1
                    elif ch == ")":
                        depth -= 1
                    elif depth == 0 and ch in "*/+-":
                        recip = ch == "/" and any(
                            pol and c is not None and c.get("n") == "eq"
                            and "minus_one" in show(c) for c, pol in guards)
                        key = "%s:top-level `%s`" % (short(f["qn"]), ch)
                        R.instance(rid, key)
                        if not recip:
                            R.violation(
                                rid, key, prog.loc(f, it.get("l")),
                                "%s writes the operator `%s` outside any "
                                "parentheses: the text binds more loosely "
                                "than the Pow that Precedence reports for "
                                "the node, so a parent that divides by it "
                                "or raises it to a power omits the "
                                "parentheses" % (short(f["qn"]), ch))
    R.floor("_print_pow overriders inspected", len(fs), 2 if only else 7)
    if only is None:
        R.floor("positive control (verif_positive::BarePowPrinter) "
                "recognised", len(controls), 1)
    return nops


SB = "SymEngine::StringBox"
# classes whose child container cannot be empty: the loop that fills a box
# from it runs at least once.  Each entry is re-validated against the class's
# is_canonical (it must test the size of its argument).
NONEMPTY = {"SymEngine::FiniteSet": "get_container"}
# (function, box): the adder is reached only under a counter that counts the
# fills of that box
COUNT_GUARDED = {("UnicodePrinter::bvisit", "Mul", "box2"):
                 "enclose_parens() runs under `den > 1`; den is incremented "
                 "exactly where box2 receives a factor"}


def stringbox_typestate(prog, R):
    """R44.9: a default-constructed StringBox has no lines; the bracket
    adders index lines_[0] / lines_.back().  A box that may still have no
    lines must not reach an adder that does not first give it one."""
    R.rule("R44.9", "a StringBox that may have no lines never reaches a "
                    "bracket adder that indexes the first/last line "
                    "unguarded")
    methods = {f["n"]: f for u in prog.by_class.get(SB, ())
               for f in [prog.functions[u]] if f.get("body")}
    if len(methods) < 10:
        raise AnalysisBroken("StringBox methods not found")

    def indexes(f):
        for n in walk(f["body"]):
            if n.get("k") == "op" and n.get("op") == "[]" and n.get("a") \
                    and n["a"][0].get("k") == "mem" \
                    and n["a"][0].get("m") == "lines_" \
                    and any(y.get("k") == "lit" for y in walk(n["a"][1])) \
                    and not any(y.get("k") == "ref" for y in walk(n["a"][1])):
                return True     # a fixed line, not a bounded loop index
            if n.get("k") == "mcall" and n.get("n") in ("back", "front") \
                    and (n.get("o") or {}).get("k") == "mem" \
                    and n["o"].get("m") == "lines_":
                return True
        return False

    def ensures_line(f):
        # leading `if (lines_.empty()) { lines_.push_back(...) }`
        for st in f["body"].get("s", ())[:2]:
            if st.get("k") == "if" and "lines_" in show(st.get("c")) \
                    and ("empty" in show(st["c"]) or "size" in show(st["c"])):
                if any(n.get("k") == "mcall" and n.get("n") in (
                        "push_back", "emplace_back", "resize")
                        for n in walk(st.get("t") or {})) or any(
                        n.get("k") == "return"
                        for n in walk(st.get("t") or {})):
                    return True
        return False
    # free helpers that receive the line vector by reference and index a
    # fixed line of it without first giving it one
    def helper_unsafe(g):
        ps = [p_["n"] for p_ in g.get("params", ())
              if "vector<" in p_["t"] and "string" in p_["t"]
              and p_["t"].rstrip().endswith("&")]
        if not ps or not g.get("body"):
            return False
        guarded = any(
            st.get("k") == "if" and any(p_ in show(st.get("c")) for p_ in ps)
            and ("empty" in show(st["c"]) or "size() == 0" in show(st["c"]))
            and any(n.get("k") in ("return",) or (
                n.get("k") == "mcall" and n.get("n") in ("push_back",
                                                         "emplace_back"))
                for n in walk(st.get("t") or {}))
            for st in g["body"].get("s", ())[:2])
        if guarded:
            return False
        for n in walk(g["body"]):
            if n.get("k") == "op" and n.get("op") == "[]" and n.get("a") \
                    and n["a"][0].get("k") == "ref" \
                    and n["a"][0].get("n") in ps \
                    and any(y.get("k") == "lit" for y in walk(n["a"][1])) \
                    and not any(y.get("k") == "ref"
                                for y in walk(n["a"][1])):
                return True
            if n.get("k") == "mcall" and n.get("n") in ("back", "front") \
                    and (n.get("o") or {}).get("k") == "ref" \
                    and n["o"].get("n") in ps:
                return True
        return False
    unsafe_helpers = {u for u, g in prog.functions.items()
                      if "/printers/stringbox" in (g.get("file") or "")
                      and not g.get("cls") and helper_unsafe(g)}

    def calls_unsafe_helper(f):
        return any(n.get("k") == "call" and n.get("u") in unsafe_helpers
                   and any(y.get("k") == "mem" and y.get("m") == "lines_"
                           for a in n.get("a", ()) for y in walk(a))
                   for n in walk(f["body"]))
    unsafe = {n for n, f in methods.items()
              if (indexes(f) or calls_unsafe_helper(f))
              and not ensures_line(f)}
    changed = True
    while changed:
        changed = False
        for n, f in methods.items():
            if n in unsafe or ensures_line(f):
                continue
            for c in walk(f["body"]):
                if c.get("k") == "mcall" and (c.get("o") or {}).get("k") \
                        == "this" and c.get("n") in unsafe:
                    unsafe.add(n)
                    changed = True
                    break
    R.info["stringbox_methods_needing_a_line"] = sorted(unsafe)
    if not unsafe:
        raise AnalysisBroken("no StringBox method indexes lines_ any more: "
                             "R44.9 has nothing to protect")
    for cls, getter in NONEMPTY.items():
        ok = False
        for f in prog.fn_by_qn(cls + "::is_canonical"):
            if any(n.get("k") == "mcall" and n.get("n") in ("size", "empty")
                   for n in walk(f["body"])):
                ok = True
        if not ok:
            raise AnalysisBroken("%s::is_canonical no longer rejects an "
                                 "empty container" % cls)
        R.exception(short(cls), "R44.9: a loop over %s() runs at least once "
                    "(is_canonical rejects an empty container)" % getter)

    nloc = 0
    for u, f in sorted(prog.functions.items(), key=lambda kv: kv[1]["qn"]):
        if not f.get("body") or f.get("dependent"):
            continue
        if not prog.derives(f.get("cls") or "", "SymEngine::UnicodePrinter"):
            continue
        X = strip_type(f["params"][0]["t"]) if f.get("params") else ""

        def scan(stmts, state, nested):
            # state: {local: True if it may have no lines}
            for st in stmts:
                k = st.get("k")
                if k == "decl":
                    for v in st.get("v", ()):
                        if strip_type(v.get("t", "")) == SB:
                            i = v.get("i")
                            state[v["n"]] = i is None or (
                                i.get("k") == "ctor" and not [
                                    a for a in i.get("a", ())
                                    if a.get("k") != "defarg"])
                            if state[v["n"]]:
                                nonlocal_count[0] += 1
                    continue
                if k == "{}":
                    scan(st.get("s", ()), state, nested)
                    continue
                if k in ("if", "for", "forr", "while", "do", "switch"):
                    runs_once = False
                    if k == "forr" and NONEMPTY.get(X) and NONEMPTY[X] in \
                            show(st.get("r") or {}):
                        runs_once = True
                    if k == "do" or (k == "while" and (st.get("c") or {}).get(
                            "k") == "lit" and str(st["c"].get("v")).lower()
                            in ("true", "1")):
                        runs_once = True    # body entered unconditionally
                    sub = dict(state)
                    for part in ("t", "e", "b"):
                        b = st.get(part)
                        if b:
                            scan(b.get("s", [b]) if b.get("k") == "{}"
                                 else [b], sub, not runs_once)
                    if runs_once:
                        state.update(sub)
                    continue
                for n in walk(st):
                    if n.get("k") == "mcall" and (n.get("o") or {}).get(
                            "k") == "ref" and n["o"].get("n") in state:
                        v = n["o"]["n"]
                        if state[v] and n.get("n") in unsafe and (
                                short(f["qn"]), short(X), v) in COUNT_GUARDED:
                            R.exception("%s(%s):%s" % (short(f["qn"]),
                                                       short(X), v),
                                        "R44.9: " + COUNT_GUARDED[(
                                            short(f["qn"]), short(X), v)])
                        elif state[v] and n.get("n") in unsafe:
                            R.violation(
                                "R44.9", "%s(%s)" % (short(f["qn"]),
                                                     short(X)),
                                prog.loc(f, n.get("l")),
                                "%s calls %s() on the box `%s`, which is "
                                "default-constructed and filled only "
                                "conditionally or in a loop that may not "
                                "run: with no lines the adder indexes "
                                "lines_[0] of an empty vector" % (
                                    short(f["qn"]), n["n"], v))
                        elif state[v] and not nested and n.get("n") in (
                                "add_right", "add_below", "add_power",
                                "add_below_unicode_line"):
                            # unconditional fill from another box
                            state[v] = False
                    if n.get("k") in ("op", "bin") and n.get("op") == "=" \
                            and n.get("a") and n["a"][0].get("k") == "ref" \
                            and n["a"][0].get("n") in state and not nested:
                        state[n["a"][0]["n"]] = False
        nonlocal_count = [0]
        scan(f["body"].get("s", ()), {}, False)
        if nonlocal_count[0]:
            nloc += nonlocal_count[0]
            R.instance("R44.9", "%s(%s)" % (short(f["qn"]), short(X)),
                       sample={"function": short(f["qn"]),
                               "default_boxes": nonlocal_count[0]})
    R.floor("default-constructed StringBox locals tracked", nloc, 4)


MANIFEST = dict(
    technique="symbolic enumeration of literal emission streams per "
              "structured path (balance automaton for XML / LaTeX / "
              "parentheses) + taint rule for names + table agreement with "
              "the SBML parser + definite assignment + typestate of "
              "StringBox locals (may-have-no-lines) against the bracket "
              "adders that index a fixed line",
    text="Decides for every expression, by induction over the printer's "
         "functions: on every structured path of every MathMLPrinter "
         "function the literal skeleton written is well-nested XML, of "
         "every LatexPrinter function has nested {} groups and \\left/"
         "\\right pairs, of Sbml/Julia printers has balanced parentheses; "
         "names reach the MathML stream only XML-escaped; no printer emits "
         "in unordered-container order; every printed SBML function name "
         "is an SBML parser key constructing the same class; every handler "
         "assigns its result; no MathML handler resets the document stream; "
         "the SBML parser builds names from the text as written; a unicode "
         "StringBox that may have no lines never reaches a bracket adder "
         "that indexes its first/last line unguarded. Does not decide that the output means the "
         "expression; totality is reported, not judged.",
    note="Symbol names are assumed not to be unbalanced LaTeX markup "
         "themselves; dynamic numbers carry no markup.",
    ref="§2 C44",
)
