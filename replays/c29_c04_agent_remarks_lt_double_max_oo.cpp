#include <symengine/logic.h>
#include <symengine/real_double.h>
#include <symengine/integer.h>
#include <symengine/functions.h>
#include <symengine/infinity.h>
#include <symengine/symbol.h>
#include <symengine/pow.h>
#include <symengine/add.h>
#include <iostream>
using namespace SymEngine;
int main(){
    auto big = add(pow(integer(2), integer(53)), integer(1)); // 2^53+1
    auto d = real_double(9007199254740992.0);                 // 2^53
    std::cout << "Lt(2^53 (double), 2^53+1) = " << Lt(d, big)->__str__() << "   (mathematically True)\n";
    std::cout << "Le(2^53+1, 2^53 (double)) = " << Le(big, d)->__str__() << "   (mathematically False)\n";
    auto x = symbol("x");
    std::cout << "max({oo, x}) = " << max({Inf, x})->__str__() << "\n";
    std::cout << "max({1, oo, x}) = " << max({integer(1), Inf, x})->__str__() << "\n";
    return 0;
}
