#!/usr/bin/env python3
"""Regenerates /verif/MANIFEST.json from the table below (single source of
truth for which properties are claimed).  A property is claimed iff it has an
entry in CLAIMED *and* rules/<id>.py exists."""
import json
import os

HERE = os.path.dirname(os.path.dirname(os.path.abspath(__file__)))

import importlib
import sys
sys.path.insert(0, HERE)


def claimed():
    out = {}
    for fn in sorted(os.listdir(os.path.join(HERE, "rules"))):
        if not (fn.startswith("c") and fn.endswith(".py")):
            continue
        mod = importlib.import_module("rules." + fn[:-3])
        if hasattr(mod, "MANIFEST"):
            out[fn[:-3].upper()] = mod.MANIFEST
    return out


NA = {
    "C07": "value preservation of add/mul/pow rewrites at all complex points: quantifies over numeric values and branch cuts; no structural clause is a necessary condition.",
    "C08": "automatic evaluation of ~60 function constructors equals the function value: table contents and pi-shift arithmetic are run-time values.",
    "C09": "expand value-preserving/complete/idempotent: relates contents of run-time dictionaries and multinomial coefficients.",
    "C10": "derivative rules are formulas; correctness is an analytic identity per rule (only the visitor-protocol clause is structural, too small to claim).",
    "C11": "substitution preserves value / cache independence: depends on which sub-terms match at run time.",
    "C14": "LLVM evaluator: WITH_LLVM is off in the pinned build (the unit is never compiled) and the property is about the numeric result of generated machine code.",
    "C21": "univariate polynomial arithmetic vs schoolbook: Kronecker packing widths and coefficient arithmetic are run-time quantities.",
    "C22": "multivariate polynomial arithmetic / variable reconciliation: index translation vectors are run-time data.",
    "C23": "GF(p) arithmetic and factorisation: number-theoretic algorithms with randomised steps; value-level.",
    "C24": "dense matrix algebra vs exact linear algebra: pivoting and fraction-free updates are value-dependent.",
    "C25": "CSR canonical format and agreement with dense: index-array contents and loop arithmetic; no bound analysis for these C++ units is in reach (goto-cc cannot take libstdc++ code).",
    "C27": "pointwise set semantics: interval endpoint arithmetic and membership are values.",
    "C28": "boolean simplification preserves truth: depends on which run-time arguments are complementary/equal.",
    "C30": "solve returns exactly the solution set: closed-form root formulas; value-level.",
    "C31": "series coefficients equal Taylor coefficients: recurrences over run-time coefficient lists.",
    "C32": "number-theoretic functions agree with definitions: value-level.",
    "C33": "prime sieve after any call history: segment arithmetic over a process-global cache; histories x integer ranges, no sound static bound in reach.",
    "C35": "refine/simplify preserve value under assumptions: each rule is a conditional identity over values.",
    "C36": "rewriting transformations preserve value: identities between special functions.",
    "C37": "CSE is a faithful factoring: depends on run-time sharing structure.",
    "C38": "finite-difference weights exact: a rational recurrence; value-level.",
    "C43": "backend independence: needs the same workload under several builds; the only structural part (every mp_* entry point exists per backend) is already enforced by each configuration's compiler, and FLINT is not installed.",
    "C45": "arbitrary-precision evaluation: MPC is not installed, MPFR/MPC code is not in the pinned build; value-level.",
    "C46": "Hilbert basis of a homogeneous LDE: combinatorial search; value-level.",
}

# clauses added after a property's MANIFEST text was written (appended to the
# claimed level; the rule list per property is in DESIGN.md §9)
LATER = {
    "C02": "R2.10: a decisive `a < b ? -1 : 1` is reached only where a != b is established for the same operands.",
    "C03": "R3.3: handle_minus decides with could_extract_minus, the predicate the validators use; R3.4: and_or<> probes the container it constructs from for complementary literals after the last insertion; R3.2 also requires the split input to be non-numeric; R3.6: a function factory's unevaluated fall-back constructs the factory's own class.",
    "C05": "R5.5: no built-in % on a signed value taken from an Integer; R5.6: no operand test repeated verbatim inside one &&/|| chain.",
    "C06": "R6.7: every returning path of the binary add()/mul() has used both operands; R6.8: Integer and Rational overloads of the Complex operations are one formula; R6.9: div(a, 0) returns zoo only after excluding a == nan and a == 0.",
    "C12": "the evaluators convert Integer/Rational leaves the same way; R12.6: complex-domain evaluators call the complex overload of domain-restricted functions; R12.7: fits-test and machine-word read agree on signedness.",
    "C13": "R13.5: the Symbol handler resolves cse replacement symbols before inputs; R13.6: tree_cse reserves the name of every symbol it visits; R13.7: inputs are matched by identity, never by name.",
    "C16": "R16.5: negative numbers never have Atom precedence; R16.6: the printer's ordering comparator tests __cmp__ == -1 over a range-checked compare and never decides key identity by hash, and the compare() functions it relies on pass C02's antisymmetry rules.",
    "C17": "R17.4 also requires a tested end pointer for strtol results; R17.5: no Integer from a floating-point intermediate in the parser; R17.6: a grammar action over a split IMPLICIT_MUL token uses both halves unless its path establishes the dropped half to be the sentinel `one`.",
    "C19": "R19.7: loaders reject an empty container only for classes that cannot be empty; R19.8: no loader recombines floating parts arithmetically.",
    "C20": "R20.7 also covers the loads() entry points (archive construction and header reads inside the translating try); R20.12: loaders reject an empty operand container for And/Or/Xor/Piecewise/Union/FiniteSet/Derivative/Max/Min; R20.13: the loader's address table holds owning references.",
    "C18": "R18.3: string positions from find*() are tested before use in the hand-written parser code; container members written through mutators count as parser state.",
    "C40": "R40.6: a DenseMatrix member that resizes *this does not read its const DenseMatrix& argument afterwards without an alias test.",
    "C29": "R29.4: no machine-word read (mp_get_si/mp_get_ui) of an Integer in logic.cpp without the dominating fits-test of the same operand.",
    "C15": "R15.6: a node printed through a replacement expression binds as tightly as Precedence reports; R15.7: infix operands of the code printers (C44 R44.10 under C15); R15.8: the literal text a handler writes for an Atom-precedence node has no infix operator outside parentheses.",
    "C39": "R39.5: a stop visitor sets stop_ only after assigning its answer; R39.6: a dedicated free_symbols handler visits every child under a cache test about that child; R39.7: has_symbol compares the needle at every class coeff() admits; R39.8: every binder class (Subs, ConditionSet, ImageSet) has a binding-aware free_symbols handler.",
    "C42": "R42.5/R42.6 index and integer hand-over; R42.7 container wrappers apply the std operation of the same meaning; R42.8 no const input handle is read after an output handle was written; R42.9 enum-valued C integers arrive by cast; R42.10 nullary constructors return the object their name says; R42.11 objects created by *_new() are fully initialised; R42.12 a call that receives an output handle by reference holds its own RCP of every input; R42.13 the C matrix functions size the result with the shape of the operation.",
    "C44": "R44.10 operands next to an infix operator in _print_pow are parenthesised and the top-level operator is the power operator; R44.11 no forward loop prepends its elements to an output sequence; R44.12 begin() of a sequence the function tests for emptiness is stepped only where emptiness is excluded; the XML escaper itself is complete; R44.13 every Infty handler distinguishes the direction; R44.14 children are never streamed with the default string printer.",
}

PENDING_REASON = ("structural clause designed in DESIGN.md §2 but its checker "
                  "is not implemented yet; not claimed until it is")


def main():
    props = [json.loads(l) for l in open(os.path.join(HERE,
                                                      "properties.jsonl"))]
    ids = [p["id"] for p in props]
    CLAIMED = claimed()
    checks = []
    na = []
    for pid in ids:
        have = os.path.exists(os.path.join(HERE, "rules",
                                           pid.lower() + ".py"))
        if pid in CLAIMED and have:
            c = CLAIMED[pid]
            checks.append({
                "property_id": pid,
                "quick_cmd": "./check %s --tier quick" % pid,
                "thorough_cmd": "./check %s --tier thorough" % pid,
                "evidence_file": "/verif/evidence/%s.json" % pid,
                "replay_cmd_template": "./check %s --replay {path}" % pid,
                "engine": "sefacts+rules",
                "technique": c["technique"],
                "level_claimed": {"category": "other",
                                  "text": c["text"] + (
                                      " Later additions — " + LATER[pid]
                                      if pid in LATER else ""),
                                  "design_ref": c["ref"]},
                "level_note": c["note"],
            })
        elif pid in NA:
            na.append({"property_id": pid, "reason": NA[pid]})
        else:
            na.append({"property_id": pid, "reason": PENDING_REASON})
    man = {
        "version": 1,
        "setup_cmd": "python3 -m selib.build default ts",
        "hooks": {
            "guard": "SYMENGINE_VERIF",
            "enable": "none needed: the checks parse /repo's sources with "
                      "the build's own flags (configure-only cmake + "
                      "libTooling); no hook code exists in /repo",
            "baseline_off_cmd": "cmake --build /repo/_build -j16 && ctest "
                                "--test-dir /repo/_build -j8 --timeout 900",
            "source_commits": [],
            "add_only": True,
        },
        "engines": [
            {"name": "sefacts", "path": "tools/sefacts.cpp",
             "serves_properties": [c["property_id"] for c in checks],
             "kind_free_text": "clang-14 libTooling extractor: resolved "
                               "mini-IR of every function, class table, "
                               "globals, per TU"},
            {"name": "rules", "path": "rules/",
             "serves_properties": [c["property_id"] for c in checks],
             "kind_free_text": "Python rules over the fact base: footprint, "
                               "structured-path/guard (dominance) queries, "
                               "finite-domain abstract interpretation, table "
                               "resolution, CHA call graph"},
        ],
        "checks": checks,
        "not_applicable": na,
        "notes": "Static analysis only. exit 0 held / 1 VIOLATION / 2 "
                 "analysis broken. Known genuine defects are in "
                 "known_findings.json.",
    }
    json.dump(man, open(os.path.join(HERE, "MANIFEST.json"), "w"), indent=1,
              ensure_ascii=False)
    print("MANIFEST: %d checks, %d not_applicable" % (len(checks), len(na)))


if __name__ == "__main__":
    main()
