#include <symengine/parser.h>
#include <symengine/basic.h>
#include <iostream>
#include <unistd.h>
#include <sys/wait.h>
using namespace SymEngine;
int main(){
    const char *inputs[] = {"x | y", "x & 1", "~x", "x ^ (y < 1)", "(x < 1) | y", "(x<1) | (y<1)"};
    int bad = 0;
    for (auto s : inputs) {
        fflush(stdout);
        pid_t p = fork();
        if (p == 0) {
            try { auto e = parse(s, false); std::cout << "parse(\"" << s << "\") = " << e->__str__() << std::endl; }
            catch (std::exception &ex) { std::cout << "parse(\"" << s << "\") threw: " << ex.what() << std::endl; }
            _exit(0);
        }
        int st; waitpid(p, &st, 0);
        if (WIFSIGNALED(st)) { std::cout << "parse(\"" << s << "\") KILLED BY SIGNAL " << WTERMSIG(st) << std::endl; bad++; }
    }
    return bad;
}
