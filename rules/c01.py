"""C01 — equal expressions have equal hashes.

Decides: for every concrete class K deriving Basic, K::__hash__ is a function
of the equivalence class of K::__eq__ (DESIGN.md §2 C01, rules R1.0–R1.5).
"""
from selib import sym
from selib.program import walk, show, short, strip_type, type_code_of
from selib.build import AnalysisBroken

BASIC = "SymEngine::Basic"

# functions that return true only if their two arguments are equal
EQ_CALLS = {"eq", "unified_eq", "ordered_eq", "unordered_eq", "vec_basic_eq",
            "vec_basic_eq_perm", "map_basic_basic_eq", "map_uint_mpz_eq",
            "map_int_Expr_eq", "umap_eq", "set_eq", "multiset_eq"}
NEQ_CALLS = {"neq"}
FLOAT_TYPES = {"double", "float", "long double"}
COMPLEX_FLOAT = {"std::complex<double>", "std::complex<float>",
                 "std::complex<long double>"}
UNORDERED = ("std::unordered_map<", "std::unordered_set<",
             "std::unordered_multimap<", "std::unordered_multiset<")
# fields of Basic itself: the type tag is covered by the type test, the hash
# cache is not part of the value
BASIC_FIELDS = {"type_code_", "hash_"}


def other_root(fn):
    ps = fn.get("params", [])
    if len(ps) != 1:
        raise AnalysisBroken("%s: expected 1 parameter" % fn["qn"])
    return "param:" + ps[0]["n"]


def compared_paths(atom, pol, P, env, oroot):
    """paths (tuple) of `this` that the atom — assumed to evaluate to pol —
    proves equal to the same path of `other`; plus type tests.
    returns (set_of_paths, set_of_tested_types)"""
    paths = set()
    types = set()
    k = atom.get("k")
    pair = None
    if k == "call":
        n = atom.get("n")
        a = atom.get("a", [])
        if n in EQ_CALLS and pol and len(a) >= 2:
            pair = (a[0], a[1])
        elif n in NEQ_CALLS and not pol and len(a) >= 2:
            pair = (a[0], a[1])
        elif n in ("is_a", "is_a_sub") and pol and a:
            r = P.norm(a[0], env)
            if r and r[0] == oroot and not r[1]:
                if n == "is_a":
                    types.add(atom.get("ta", ["?"])[0])
        elif n == "is_same_type" and pol and len(a) == 2:
            ra, rb = P.norm(a[0], env), P.norm(a[1], env)
            if ra and rb and {ra[0], rb[0]} == {"this", oroot} \
                    and not ra[1] and not rb[1]:
                types.add("<same>")
    elif k == "mcall" and atom.get("n") == "__eq__" and pol:
        pair = (atom.get("o"), atom["a"][0])
    elif k in ("bin", "op") and atom.get("op") in ("==", "!="):
        if (atom["op"] == "==") == pol and len(atom.get("a", ())) == 2:
            pair = tuple(atom["a"])
    if pair:
        ra, rb = P.norm(pair[0], env), P.norm(pair[1], env)
        if ra and rb and {ra[0], rb[0]} == {"this", oroot} \
                and ra[1] == rb[1] and ra[1]:
            paths.add(ra[1])
    return paths, types


def singleton_idiom(facts, cmp_paths, P, env, oroot):
    """`1 == c.size() && 1 == o.c.size()` together with equality of
    c.begin()->first and ->second (or of *c.begin()) proves c == o.c"""
    sized = {}
    empty = {}
    for atom, pol in facts:
        if not pol or atom.get("k") not in ("bin", "op") \
                or atom.get("op") != "==":
            continue
        a, b = atom["a"]
        for x, y in ((a, b), (b, a)):
            if x.get("k") == "lit" and str(x.get("v")) in ("0", "1"):
                r = P.norm(y, env)
                if r and r[1] and r[1][-1] == "size()":
                    (sized if str(x.get("v")) == "1" else empty).setdefault(
                        r[1][:-1], set()).add(r[0])
    out = set()
    for c, roots in empty.items():
        if roots >= {"this", oroot}:
            out.add(c)      # both containers are empty, hence equal
    for c, roots in sized.items():
        if roots >= {"this", oroot}:
            b = c + ("begin()",)
            if b in cmp_paths or (b + ("first",) in cmp_paths
                                  and b + ("second",) in cmp_paths):
                out.add(c)
    return out


def hash_footprint(prog, P, fn):
    """[(path, kernel-info)] for every `this`-rooted read in __hash__"""
    env = {}
    reads = []
    identity_uses = []
    for n in walk(fn["body"]):
        if n.get("k") == "decl":
            sym.bind_locals(n, P, env)
    # loop variables bound to container fields: `for (auto &p : dict_)`
    for n in walk(fn["body"]):
        if n.get("k") == "forr" and n.get("v"):
            r = P.norm(n["r"], env)
            if r is not None:
                env[n["v"]["n"]] = (r[0], r[1] + ("[*]",))
    for r in P.reads(fn["body"], env):
        if r[0] == "this":
            reads.append(r[1])
    # identity: `this` used as a value (not as object of a member access)
    def rec(n, parent):
        if not isinstance(n, dict):
            return
        if n.get("k") == "this":
            pk = parent.get("k") if parent else None
            ok = (pk == "mem" and parent.get("o") is n) or \
                 (pk == "mcall" and parent.get("o") is n) or \
                 (pk == "un" and parent.get("op") == "*")
            if not ok:
                identity_uses.append(parent)
        for key, v in n.items():
            if isinstance(v, dict):
                rec(v, n)
            elif isinstance(v, list):
                for c in v:
                    if isinstance(c, dict):
                        rec(c, n)
    rec(fn["body"], None)
    return reads, identity_uses, env


def covered(hpath, cmp_paths):
    """hashed path is covered if a compared path is a prefix of it
    (comparing the whole object covers every part of it)"""
    hp = tuple(x for x in hpath if x != "[*]")
    for c in cmp_paths:
        if hp[:len(c)] == c:
            return True
    return False


def float_kernel_normalises(prog, usr, seen=None):
    """does the hash kernel normalise signed zero before taking bits?"""
    seen = seen or set()
    if usr in seen:
        return False
    seen.add(usr)
    f = prog.functions.get(usr)
    if not f or not f.get("body"):
        return None     # library function (std::hash<double>): trusted table
    pnames = {p["n"] for p in f.get("params", [])}
    for n in walk(f["body"]):
        if n.get("k") == "bin" and n.get("op") in ("==", "!=", "+"):
            a, b = n["a"]
            for x, y in ((a, b), (b, a)):
                if x.get("k") == "ref" and x.get("n") in pnames \
                        and y.get("k") == "lit" \
                        and float(str(y.get("v")) or 1) == 0.0:
                    return True
        if n.get("k") in ("call",) and n.get("u") and n.get("u") != usr:
            h = prog.header(n["u"])
            ps = [strip_type(p["t"]) for p in h.get("params", [])]
            if any(p in FLOAT_TYPES for p in ps):
                r = float_kernel_normalises(prog, n["u"], seen)
                if r:
                    return True
    return False


def run(loader, R, tier):
    prog = loader()
    P = sym.Paths(prog)
    R.explanation = (
        "Footprint analysis of the (__hash__, __eq__) pair of every concrete "
        "class deriving Basic, over all library TUs: R1.0 every true path of "
        "__eq__ tests that the other operand has this class; R1.1 every "
        "member read by __hash__ is compared for equality on every true "
        "path of __eq__; R1.2 floating members compared with == are hashed "
        "through a zero-normalising kernel; R1.3 loops over unordered "
        "containers combine element hashes commutatively; R1.4 Basic::hash_ "
        "is written only by Basic::hash(); R1.5 __hash__ does not depend on "
        "object identity. Decides that the hash is a function of the "
        "__eq__ class, not hash quality.")
    R.rule("R1.0", "every true path of __eq__ proves other has the "
                   "receiver's class")
    R.rule("R1.1", "members read by __hash__ ⊆ members compared on every "
                   "true path of __eq__")
    R.rule("R1.2", "floating member compared with == must be hashed after "
                   "signed-zero normalisation")
    R.rule("R1.3", "unordered-container loops in __hash__ combine "
                   "commutatively")
    R.rule("R1.4", "Basic::hash_ written only in Basic::hash()")
    R.rule("R1.5", "__hash__ does not use object identity")
    R.trusted += ["clang 14 AST", "EQ_CALLS table (eq, unified_eq, ... return "
                  "true only for equal arguments)",
                  "std::hash<double> maps +0.0 and -0.0 to the same value"]
    R.assumptions += [
        "unified_eq/ordered_eq/eq return true only for equal arguments",
        "accessor inlining: a getter whose body is `return member;` denotes "
        "that member",
        "loops inside __eq__ are assumed to perform their comparisons "
        "(optimistic, avoids false alarms)"]

    classes = prog.concrete_subclasses(BASIC, include_self=False)
    pairs = 0
    hashed_classes = 0
    for cls in classes:
        hu = prog.find_method(cls, "__hash__")
        eu = prog.find_method(cls, "__eq__")
        if hu not in prog.functions or eu not in prog.functions:
            raise AnalysisBroken("no resolved __hash__/__eq__ body for " + cls)
        hf, ef = prog.functions[hu], prog.functions[eu]
        pairs += 1
        reads, ident, henv = hash_footprint(prog, P, hf)
        H0 = {tuple(x for x in p if x != "[*]") for p in reads
              if p and p[0] not in BASIC_FIELDS}
        # keep only the shortest prefixes (a whole member subsumes its parts)
        H = sorted(p for p in H0
                   if not any(q != p and p[:len(q)] == q for q in H0))
        oroot = other_root(ef)
        env = {}
        tps = sym.true_paths(ef["body"],
                             on_stmt=lambda s: sym.bind_locals(s, P, env))
        # locals must be bound before facts are interpreted: second pass
        path_infos = []
        for facts, line in tps:
            cmp_paths, types = set(), set()
            for atom, pol in facts:
                ps, ts = compared_paths(atom, pol, P, env, oroot)
                cmp_paths |= ps
                types |= ts
            cmp_paths |= singleton_idiom(facts, cmp_paths, P, env, oroot)
            path_infos.append((cmp_paths, types, line, facts))
        if not path_infos:
            raise AnalysisBroken("%s: __eq__ has no path returning true"
                                 % cls)
        if H:
            hashed_classes += 1
        # R1.0
        for cmp_paths, types, line, facts in path_infos:
            ok = "<same>" in types or cls in types
            R.instance("R1.0", cls + "@" + str(line))
            if not ok:
                R.violation("R1.0", short(cls), prog.loc(ef, line),
                            "%s::__eq__ can return true (line %s) without "
                            "testing that the other operand is a %s (tests: "
                            "%s)" % (short(cls), line, short(cls),
                                     sorted(types) or "none"))
        # R1.1
        for hp in H:
            key = "%s:%s" % (short(cls), ".".join(hp))
            bad = [(line, cmp_paths) for cmp_paths, types, line, facts
                   in path_infos if not covered(hp, cmp_paths)]
            R.instance("R1.1", key, sample={
                "class": short(cls), "hashed": ".".join(hp),
                "eq_true_paths": len(path_infos),
                "compared_on_first_path": sorted(
                    ".".join(c) for c in path_infos[0][0])})
            if bad:
                line, cp = bad[0]
                R.violation(
                    "R1.1", key, prog.loc(ef, line),
                    "%s::__hash__ reads member `%s` (%s) but %s can return "
                    "true at line %s having compared only {%s}: two objects "
                    "differing in `%s` are equal with different hashes"
                    % (short(cls), ".".join(hp), prog.loc(hf),
                       short(ef["qn"]), line,
                       ", ".join(sorted(".".join(c) for c in cp)),
                       ".".join(hp)))
        if not H:
            R.instance("R1.1", short(cls) + ":<no members>", nontrivial=False)
        # R1.2: floating kernels
        for n in walk(hf["body"]):
            if n.get("k") != "call" or n.get("n") != "hash_combine":
                continue
            ta = (n.get("ta") or ["?"])[0]
            if ta not in FLOAT_TYPES or len(n.get("a", ())) < 2:
                continue
            val = n["a"][1]
            rs = [r for r in P.reads(val, henv) if r[0] == "this"]
            fld = ".".join(rs[0][1]) if rs else show(val)
            key = "%s:%s" % (short(cls), fld)
            R.instance("R1.2", key, sample={"class": short(cls),
                                            "member": fld, "kernel":
                                            "hash_combine<%s>" % ta})
            # is the member compared with a floating ==
            float_eq = False
            for cmp_paths, types, line, facts in path_infos:
                for atom, pol in facts:
                    if atom.get("k") == "bin" and atom.get("op") in (
                            "==", "!=") and strip_type(
                            atom.get("ot", "")) in FLOAT_TYPES:
                        float_eq = True
                    if atom.get("k") == "op" and atom.get("op") in (
                            "==", "!="):
                        h = prog.header(atom.get("u", ""))
                        if any(strip_type(p["t"]) in COMPLEX_FLOAT
                               for p in h.get("params", [])):
                            float_eq = True
            # normalised at the call site?
            site_norm = val.get("k") == "?:" or (
                val.get("k") == "bin" and val.get("op") == "+")
            kern = float_kernel_normalises(prog, n.get("u"))
            if float_eq and not site_norm and kern is False:
                R.violation(
                    "R1.2", key, prog.loc(hf, n.get("l")),
                    "%s hashes the bit pattern of floating member `%s` "
                    "while __eq__ compares it with ==: +0.0 and -0.0 are "
                    "equal but hash differently (no zero normalisation in "
                    "the kernel %s)" % (short(cls), fld,
                                        short(prog.name_of(n.get("u")))))
        # R1.3: unordered loops
        for n in walk(hf["body"]):
            if n.get("k") != "forr":
                continue
            rt = strip_type(n.get("rt", ""))
            if not rt.startswith(UNORDERED):
                continue
            key = "%s@%s" % (short(cls), n.get("l"))
            R.instance("R1.3", key, sample={"class": short(cls),
                                            "container": short(rt)[:60]})
            declared_in = set()
            assigned_first = set()
            for s in walk(n.get("b")):
                if s.get("k") == "decl":
                    for v in s.get("v", ()):
                        declared_in.add(v["n"])
            # plain assignment as a statement of the loop body resets a temp
            body = n.get("b") or {}
            for s in body.get("s", []) if body.get("k") == "{}" else [body]:
                if s.get("k") == "expr":
                    e = s["e"]
                    if e.get("k") == "bin" and e.get("op") == "=" \
                            and e["a"][0].get("k") == "ref":
                        assigned_first.add(e["a"][0]["n"])
            inner = declared_in | assigned_first
            for s in walk(n.get("b")):
                tgt = None
                how = None
                if s.get("k") == "call" and s.get("n") in (
                        "hash_combine", "hash_combine_impl") and s.get("a"):
                    tgt, how = s["a"][0], "hash_combine"
                elif s.get("k") == "bin" and s.get("op", "").endswith("=") \
                        and s["op"] not in ("==", "!=", "<=", ">=", "^=",
                                            "+=", "|=", "&="):
                    tgt, how = s["a"][0], s["op"]
                if tgt is None or tgt.get("k") != "ref":
                    continue
                if tgt.get("n") in inner:
                    continue
                if how == "=" and tgt.get("n") in assigned_first:
                    continue
                R.violation(
                    "R1.3", key, prog.loc(hf, s.get("l") or n.get("l")),
                    "%s::__hash__ folds elements of an unordered container "
                    "into `%s` with the order-sensitive `%s`: equal objects "
                    "with different bucket orders hash differently"
                    % (short(cls), tgt.get("n"), how))
        # R1.5
        R.instance("R1.5", short(cls), nontrivial=bool(H))
        for parent in ident:
            R.violation("R1.5", short(cls), prog.loc(hf),
                        "%s::__hash__ uses the object's address (%s)"
                        % (short(cls), show(parent) if parent else "this"))

    # R1.4 writes to Basic::hash_
    writers = []
    for u, f in prog.functions.items():
        if not f.get("body") or f.get("dependent"):
            continue
        for n in walk(f["body"]):
            if n.get("k") == "bin" and n.get("op", "").endswith("=") \
                    and n["op"] not in ("==", "!=", "<=", ">="):
                t = n["a"][0]
                if t.get("k") == "mem" and t.get("m") == "hash_" \
                        and t.get("c") == BASIC:
                    writers.append((f, n))
    for f, n in writers:
        R.instance("R1.4", f["qn"], sample={"writer": f["qn"]})
        if f["qn"] != "SymEngine::Basic::hash":
            R.violation("R1.4", short(f["qn"]), prog.loc(f, n.get("l")),
                        "Basic::hash_ (the cached hash) is written outside "
                        "Basic::hash(): %s" % show(n))
    R.floor("concrete classes with resolved (__hash__, __eq__)", pairs, 100)
    R.floor("classes with >=1 hashed member", hashed_classes, 80)
    R.floor("writers of Basic::hash_", len(writers), 1)
    R.floor("R1.2 floating kernels", R.instances.get("R1.2", 0), 2)
    R.floor("R1.3 unordered loops", R.instances.get("R1.3", 0), 1)
    R.info["classes"] = pairs


MANIFEST = dict(
    technique='static footprint analysis: members read by __hash__ vs members compared on every true path of __eq__ (libTooling facts + structured-path enumeration)',
    text='Decides, for every concrete class deriving Basic (all library TUs, resolved through CRTP bases), that __hash__ is a function of the equivalence class of __eq__: type test on every true path, hashed members ⊆ compared members on every true path, zero-normalising float kernel, commutative folding of unordered containers, hash cache written only by Basic::hash(). One run covers all pairs of objects by induction on structure. Does not decide hash quality or that canonicalisation makes equal values structurally equal (C03/C04).',
    note='Trusted: clang 14 AST; the table of equality-respecting library calls (eq, unified_eq, ==); accessor inlining. Loops inside __eq__ are assumed to perform their comparisons.',
    ref='§2 C01',
)
