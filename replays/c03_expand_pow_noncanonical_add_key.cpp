#include <symengine/basic.h>
#include <symengine/add.h>
#include <symengine/mul.h>
#include <symengine/pow.h>
#include <symengine/symbol.h>
#include <symengine/visitor.h>
#include <iostream>
using namespace SymEngine;
int main(){
    RCP<const Basic> x = symbol("x"), y = symbol("y");
    // base expands to 4*x ; y + sqrt(base) so that the result is an Add
    RCP<const Basic> base = sub(mul({integer(4), add(x, integer(1)), x}), mul(integer(4), pow(x, integer(2))));
    RCP<const Basic> e = add(y, pow(base, div(integer(1), integer(2))));
    RCP<const Basic> r = expand(e);
    RCP<const Basic> want = add(y, mul(integer(2), pow(x, div(integer(1), integer(2)))));
    std::cout << "e = " << e->__str__() << "\nexpand(e) = " << r->__str__() << "\nwant      = " << want->__str__() << "\n";
    std::cout << "eq(expand(e), y + 2*sqrt(x)) = " << eq(*r, *want) << "\n";
    if (is_a<Add>(*r)) {
        const Add &a = down_cast<const Add &>(*r);
        std::cout << "is_canonical = " << a.is_canonical(a.get_coef(), a.get_dict()) << "\n";
        for (auto &p : a.get_dict()) std::cout << "   term " << p.first->__str__() << " coef " << p.second->__str__() << "\n";
        return a.is_canonical(a.get_coef(), a.get_dict()) && eq(*r,*want) ? 0 : 1;
    }
    return 0;
}
