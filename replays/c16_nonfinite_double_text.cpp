#include <symengine/basic.h>
#include <symengine/real_double.h>
#include <symengine/parser.h>
#include <iostream>
#include <limits>
using namespace SymEngine;
int main(){
    double inf = std::numeric_limits<double>::infinity();
    for (double v : {inf, -inf, std::numeric_limits<double>::quiet_NaN(), 1e300, 1.5}) {
        RCP<const Basic> e = real_double(v);
        std::string s = e->__str__();
        std::cout << "str = \"" << s << "\"  ";
        try { auto r = parse(s); std::cout << "parse -> " << r->__str__() << (eq(*r, *e) ? "" : "   DIFFERENT") << "\n"; }
        catch (std::exception &ex) { std::cout << "parse throws: " << ex.what() << "\n"; }
    }
    return 0;
}
