#include <symengine/basic.h>
#include <symengine/add.h>
#include <symengine/real_double.h>
#include <symengine/infinity.h>
#include <symengine/functions.h>
#include <symengine/matrix_expressions.h>
#include <symengine/cwrapper.h>
#include <symengine/lambda_double.h>
#include <symengine/printers.h>
#include <symengine/tuple.h>
#include <symengine/test_visitors.h>
#include <symengine/ntheory_funcs.h>
#include <iostream>
#include <unistd.h>
#include <sys/wait.h>
using namespace SymEngine;
template <class F> void child(const char *label, F f){
  std::cout << label << ": " << std::flush;
  pid_t p = fork();
  if (p == 0) { try { f(); std::cout << std::flush; } catch (std::exception &e) { std::cout << "EXC(caught in C++) " << e.what() << std::flush; } _exit(0); }
  int st; waitpid(p, &st, 0);
  if (WIFSIGNALED(st)) std::cout << " [killed by signal " << WTERMSIG(st) << "]";
  std::cout << std::endl;
}
int main(){
  child("C05 rational_set_si(1,0)", []{ basic s; basic_new_stack(s); auto r = rational_set_si(s, 1, 0); char *c = basic_str(s); std::cout << "ret=" << r << " val=" << c; });
  child("C02 Infty(1) vs Infty(1.0) cmp", []{ auto a = Infty::from_direction(integer(1)); auto b = Infty::from_direction(real_double(1.0)); std::cout << "eq=" << eq(*a,*b) << " cmp=" << a->__cmp__(*b) << " " << b->__cmp__(*a); });
  child("C02 Transpose(A) vs Transpose(A+B) cmp", []{ auto A = matrix_symbol("A"), B = matrix_symbol("B"); auto t1 = transpose(A); auto t2 = transpose(matrix_add({A,B})); std::cout << type_code_name(t1->get_type_code()) << "," << type_code_name(t2->get_type_code()) << " cmp=" << t1->__cmp__(*t2) << " " << t2->__cmp__(*t1); });
  child("C02 Trace(A) vs Trace(A*B) cmp", []{ auto A = matrix_symbol("A"), B = matrix_symbol("B"); auto t1 = trace(A); auto t2 = trace(matrix_mul({A,B})); std::cout << type_code_name(t1->get_type_code()) << "," << type_code_name(t2->get_type_code()) << " cmp=" << t1->__cmp__(*t2) << " " << t2->__cmp__(*t1); });
  child("C02 ZeroMatrix(2,2) vs ZeroMatrix(n,2) cmp", []{ auto z1 = zero_matrix(integer(2), integer(2)); auto z2 = zero_matrix(symbol("n"), integer(2)); std::cout << " cmp=" << z1->__cmp__(*z2) << " " << z2->__cmp__(*z1); });
  child("C42 basic_dumps(Complexes) via C API", []{ basic s; basic_new_stack(s); basic_set_complexes(s); unsigned long sz; char *c = basic_dumps(s, &sz); std::cout << "returned " << (void*)c; });
  child("C42 lambda_real_double_visitor_init(f(x)) via C API", []{ CVecBasic *args = vecbasic_new(); CVecBasic *exprs = vecbasic_new(); basic x, e; basic_new_stack(x); basic_new_stack(e); symbol_set(x, "x"); vecbasic_push_back(args, x); function_symbol_set(e, "f", args); vecbasic_push_back(exprs, e); auto *v = lambda_real_double_visitor_new(); lambda_real_double_visitor_init(v, args, exprs, 0); std::cout << "returned"; });
  child("C44 mathml(symbol a<b&c)", []{ std::cout << mathml(*add(symbol("a<b&c"), integer(1))); });
  child("C13 stale cse map after failed init", []{
     LambdaRealDoubleVisitor v; auto x = symbol("x"), y = symbol("y");
     auto sh = add(x, y);
     vec_basic outs = {mul(sin(sh), cos(sh)), function_symbol("g", sh)};
     try { v.init({x, y}, outs, true); std::cout << "init1 ok?! "; } catch (std::exception &e) { std::cout << "init1 threw (" << e.what() << "); "; }
     // now a fresh-like init without cse using the CSE symbol name
     for (const char *nm : {"x0", "x1", "_x0"}) { try { v.init({x}, *symbol(nm), false); std::cout << nm << ": init2 accepted unknown symbol (stale map!) call=" << v.call({1.0}) << "; "; } catch (std::exception &e) { std::cout << nm << ": init2 threw as fresh would; "; } }
  });
  child("C34 is_nonpositive(zoo)/(nan) is_nonnegative(zoo)", []{ std::cout << (int)is_nonpositive(*ComplexInf) << " " << (int)is_nonpositive(*Nan) << " " << (int)is_nonnegative(*ComplexInf) << " (0=true?) tritrue=" << (int)tribool::tritrue; });
  return 0;
}
