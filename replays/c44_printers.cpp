#include <symengine/printers.h>
#include <symengine/constants.h>
#include <symengine/add.h>
#include <symengine/mul.h>
#include <symengine/sets.h>
#include <symengine/symbol.h>
#include <iostream>
using namespace SymEngine;
int main(){
    RCP<const Basic> c = constant("myconst"), x = symbol("x");
    std::cout << "unicode(myconst)       = [" << unicode(*c) << "]\n";
    std::cout << "unicode(x*myconst)     = [" << unicode(*mul(x, c)) << "]\n";
    std::cout << "unicode(x + myconst)   = [" << unicode(*add(x, c)) << "]\n";
    std::cout << "str(x + myconst)       = [" << str(*add(x,c)) << "]\n";
    std::cout << "latex({1,2})           = [" << latex(*finiteset({integer(1), integer(2)})) << "]\n";
    std::cout << "mathml(symbol a<b&c)   = [" << mathml(*symbol("a<b&c")) << "]\n";
}
