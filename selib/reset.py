"""Reset completeness (engine E2b'): does an entry method (re)initialise every
data member that the code it then runs can read, before that code runs?

Members are identified as (declaring class, name) — the analysed objects are
singletons per operation (one evaluator, one parser, one tokenizer).

  reads(f)        members f may read, transitively through the calls it makes
                  into the tracked scope, each with the set of members its
                  read is *guarded* by (the read is control dependent on a
                  condition over those members, directly or through a local
                  initialised from them)
  must_writes(f)  members f writes on every non-throwing path (transitively)
  check(entry)    walks the entry method in statement order keeping the set
                  W of members definitely written so far; at every call that
                  can read members (a "reader call") each member m it reads
                  must satisfy  m in W,  or  guards(m) non-empty and within W,
                  or the reader writes m itself before reading it.
"""
from .program import walk, show, short, strip_type, children

WRITE_METHODS = {"clear", "resize", "assign", "swap", "reset", "erase",
                 "push_back", "emplace_back", "insert", "emplace",
                 "operator=", "operator[]", "pop_back"}
RESET_METHODS = {"clear", "resize", "assign", "reset", "operator="}
ASSIGN_OPS = {"=", "+=", "-=", "*=", "/=", "|=", "&=", "^="}


class Reset:
    def __init__(self, prog, tracked_classes, visitors=None,
                 scope_prefixes=(), scope_files=()):
        self.prog = prog
        self.tracked = set(tracked_classes)
        # functions followed transitively: methods of the tracked classes
        # and of classes whose name starts with one of scope_prefixes (e.g.
        # the generated parser); other callees cannot touch the tracked
        # members except through those methods
        self.scope_prefixes = tuple(scope_prefixes)
        self.scope_files = tuple(scope_files)
        self.vis = visitors
        self._reads = {}
        self._mw = {}

    # ------------------------------------------------------------ members
    def member(self, e):
        """(class, name) when e denotes a tracked data member (possibly
        through element access), else None"""
        while e is not None:
            k = e.get("k")
            if k == "mem":
                if e.get("fn"):
                    return None
                if e.get("c") in self.tracked:
                    return (e["c"], e["m"])
                e = e.get("o")
                continue
            if k in ("cast",) or (k in ("un", "op") and e.get("op") in (
                    "*", "->", "&") and len(e.get("a", ())) == 1):
                e = e["a"][0]
                continue
            if k in ("bin", "op") and e.get("op") == "[]" and e.get("a"):
                e = e["a"][0]
                continue
            return None
        return None

    def in_scope(self, u):
        f = self.prog.functions.get(u)
        if not f or not f.get("body") or f.get("dependent") \
                or f.get("tk") == "pattern":
            return None
        c = f.get("cls") or ""
        if c in self.tracked or (self.scope_prefixes
                                 and c.startswith(self.scope_prefixes)):
            return f
        if "#lambda" in u:
            return f
        if self.scope_files and any(x in f.get("file", "")
                                    for x in self.scope_files):
            return f
        return None

    # ------------------------------------------------------------ targets
    def targets(self, f, n):
        """functions of the tracked scope a call node may run"""
        u = n.get("u")
        out = []
        if n.get("k") == "mcall" and n.get("n") == "accept" and self.vis:
            # visitor dispatch: every handler of every tracked visitor
            for c in self.tracked:
                for hu in set(self.vis.handlers(c).values()):
                    out.append(hu)
            return out
        if not u:
            return out
        h = self.prog.header(u)
        tg = {u}
        if n.get("v"):
            tg |= self.prog.all_overriders(u)
        for t in tg:
            if self.in_scope(t):
                out.append(t)
        return out

    # ------------------------------------------------------------ reads
    def reads(self, u, _stack=None):
        """{member: set of frozenset(guard members)} — one guard set per
        read site; an empty frozenset means an unguarded read"""
        if u in self._reads:
            return self._reads[u]
        _stack = _stack or set()
        if u in _stack:
            return {}
        _stack = _stack | {u}
        f = self.in_scope(u)
        out = {}
        if f is None:
            self._reads[u] = out
            return out
        own_writes_first = self._writes_before_reads(f)
        loc_guard = {}              # local name -> members it derives from

        def members_in(e):
            ms = set()
            for x in walk(e):
                m = self.member(x) if x.get("k") == "mem" else None
                if m:
                    ms.add(m)
                if x.get("k") == "ref" and x.get("d") == "local" \
                        and x.get("n") in loc_guard:
                    ms |= loc_guard[x["n"]]
            return ms

        cur_w = [set()]             # members definitely written so far

        def add(m, guards):
            if m in own_writes_first or m in cur_w[0]:
                return
            out.setdefault(m, set()).add(frozenset(guards - {m}))

        def visit(s, guards):
            """statement order matters: a member read after this function
            has definitely written it is not a read of incoming state"""
            if not isinstance(s, dict):
                return
            k = s.get("k")
            if k == "decl":
                for v in s.get("v", ()):
                    if v.get("i") is not None:
                        ms = members_in(v["i"])
                        if ms:
                            loc_guard[v["n"]] = ms
                        expr(v["i"], guards)
                        note_writes(v["i"])
                return
            if k == "if":
                if s.get("init"):
                    visit(s["init"], guards)
                expr(s.get("c"), guards)
                g2 = guards | members_in(s.get("c") or {})
                w0 = set(cur_w[0])
                visit(s.get("t"), g2)
                wt = cur_w[0]
                cur_w[0] = set(w0)
                visit(s.get("e"), g2)
                we = cur_w[0]
                cur_w[0] = wt & we
                return
            if k in ("for", "while", "do", "forr"):
                if s.get("init"):
                    visit(s["init"], guards)
                for key in ("c", "inc", "r"):
                    if s.get(key):
                        expr(s[key], guards)
                g2 = guards | (members_in(s.get("c")) if s.get("c")
                               else set())
                w0 = set(cur_w[0])
                visit(s.get("b"), g2)
                cur_w[0] = w0
                return
            if k in ("{}", "switch", "case", "default", "label"):
                for c in children(s):
                    visit(c, guards)
                return
            if k == "try":
                w0 = set(cur_w[0])
                visit(s.get("b"), guards)
                for h in s.get("h", ()):
                    cur_w[0] = set(w0)
                    visit(h.get("b"), guards)
                cur_w[0] = w0
                return
            if k in ("expr", "return"):
                expr(s.get("e"), guards)
                note_writes(s.get("e"))
                return
            for c in children(s):
                visit(c, guards)

        def note_writes(e):
            if not isinstance(e, dict):
                return
            cur_w[0] |= self.stmt_writes(e)
            for n in walk(e):
                if n.get("k") in ("call", "mcall", "ctor") and n.get("u") \
                        and not n.get("v"):
                    for t in self.targets(f, n):
                        cur_w[0] |= self.must_writes(t)

        def expr(e, guards, lhs=False):
            if not isinstance(e, dict):
                return
            k = e.get("k")
            if k in ("bin", "op") and e.get("op") in ASSIGN_OPS \
                    and len(e.get("a", ())) == 2:
                m = self.member(e["a"][0])
                if m is None or e["op"] != "=":
                    expr(e["a"][0], guards)
                else:
                    # index expressions on the left are reads
                    for x in walk(e["a"][0]):
                        if x is not e["a"][0] and x.get("k") in (
                                "bin", "op") and x.get("op") == "[]":
                            for a in x.get("a", ())[1:]:
                                expr(a, guards)
                expr(e["a"][1], guards)
                return
            if k == "mem":
                m = self.member(e)
                if m:
                    add(m, guards)
                    return
            if k == "mcall":
                m = self.member(e.get("o"))
                if m is not None and e.get("n") in RESET_METHODS:
                    for a in e.get("a", ()):
                        expr(a, guards)
                    return
            if k == "lambda":
                # a closure reads its captures when it is created (copies)
                for i2 in e.get("inits", ()):
                    expr(i2, guards)
                expr(e.get("b"), guards)
                return
            if k in ("call", "mcall", "op", "ctor") and e.get("u"):
                for t in self.targets(f, e):
                    for m, gsets in self.reads(t, _stack).items():
                        for gs in gsets:
                            add(m, guards | set(gs))
            for c in children(e):
                expr(c, guards)
        visit(f["body"], set())
        for ini in f.get("inits", ()):
            expr(ini.get("e"), set())
        self._reads[u] = out
        return out

    def _writes_before_reads(self, f):
        """members f assigns (plain `m = ...`) in its leading straight-line
        statements before any other use — e.g. apply(): accept(); return
        result_ is *not* such a write, but a handler's `result_ = ...` is"""
        return set()

    # ------------------------------------------------------------ writes
    def stmt_writes(self, e):
        """members (re)initialised by one expression: m = ..., m.clear(),
        m.resize(n), m->reset(...)"""
        out = set()
        for n in walk(e):
            k = n.get("k")
            if k in ("bin", "op") and n.get("op") == "=" \
                    and len(n.get("a", ())) == 2:
                a0 = n["a"][0]
                if a0.get("k") == "mem":
                    m = self.member(a0)
                    if m and a0.get("c") in self.tracked:
                        # whole-member assignment only (not element)
                        out.add(m)
            elif k == "mcall" and n.get("n") in RESET_METHODS:
                o = n.get("o")
                if o is not None and o.get("k") == "mem":
                    m = self.member(o)
                    if m:
                        out.add(m)
        return out

    def must_writes(self, u, _stack=None):
        if u in self._mw:
            return self._mw[u]
        _stack = _stack or set()
        if u in _stack:
            return set()
        _stack = _stack | {u}
        f = self.in_scope(u)
        if f is None:
            self._mw[u] = set()
            return set()

        def run(s, W):
            """returns W after s on the fall-through path, or None when s
            always leaves"""
            if s is None:
                return W
            k = s.get("k")
            if k == "{}":
                for x in s.get("s", ()):
                    W = run(x, W)
                    if W is None:
                        return None
                return W
            if k in ("expr", "decl"):
                e = s.get("e") if k == "expr" else s
                if k == "expr" and (e or {}).get("k") == "throw":
                    return None
                W = set(W) | self.stmt_writes(e)
                for n in walk(e):
                    if n.get("k") in ("call", "mcall", "ctor") \
                            and n.get("u") and not n.get("v"):
                        for t in self.targets(f, n):
                            W |= self.must_writes(t, _stack)
                return W
            if k == "if":
                a = run(s.get("t"), set(W))
                b = run(s.get("e"), set(W)) if s.get("e") else set(W)
                if a is None:
                    return b
                if b is None:
                    return a
                return a & b
            if k == "return":
                exits.append(set(W) | (self.stmt_writes(s["e"])
                                       if s.get("e") else set()))
                return None
            if k in ("for", "while", "forr", "do"):
                run(s.get("b"), set(W))
                return W
            if k == "try":
                return run(s.get("b"), W)
            return W
        exits = []
        W = run(f["body"], set())
        if W is not None:
            exits.append(W)
        res = set.intersection(*exits) if exits else set()
        self._mw[u] = res
        return res

    # ------------------------------------------------------------ check
    def check(self, entry_u, exempt=()):
        """[(line, call text, member, guards)] obligations not met in the
        entry method; plus the list of reader calls inspected"""
        f = self.in_scope(entry_u)
        bad = []
        inspected = []
        direct = []
        self.direct_stale_reads = direct
        exempt = set(exempt)

        def obligations(n, W, line):
            need = {}
            for t in self.targets(f, n):
                for m, gsets in self.reads(t).items():
                    for gs in gsets:
                        need.setdefault(m, []).append(gs)
            if not need:
                return
            inspected.append((line, show(n)[:60], len(need)))
            for m, gss in sorted(need.items()):
                if m in W or m in exempt:
                    continue
                for gs in gss:
                    if gs and set(gs) <= W:
                        continue
                    bad.append((line, show(n)[:60], m, sorted(gs)))
                    break

        state = {"after_reader": False}

        def scan_expr(e, W, line):
            # direct reads by the entry method itself: before anything has
            # (re)initialised the member they read the state a previous call
            # left behind
            skip = set()
            for n in walk(e):
                if n.get("k") in ("bin", "op") and n.get("op") == "=" \
                        and len(n.get("a", ())) == 2 \
                        and n["a"][0].get("k") == "mem":
                    skip.add(id(n["a"][0]))
                if n.get("k") == "mcall" and n.get("n") in RESET_METHODS \
                        and (n.get("o") or {}).get("k") == "mem":
                    skip.add(id(n["o"]))
            for n in walk(e):
                if n.get("k") == "mem" and id(n) not in skip:
                    m = self.member(n)
                    if m and m not in W and m not in exempt \
                            and not state["after_reader"]:
                        direct.append((n.get("l") or line, m))
            # innermost calls first (arguments are evaluated before the call)
            for n in walk(e):
                if n.get("k") in ("call", "mcall", "ctor", "op") \
                        and n.get("u"):
                    before = len(inspected)
                    obligations(n, W, n.get("l") or line)
                    if len(inspected) > before:
                        state["after_reader"] = True

        def run(s, W):
            if s is None:
                return W
            k = s.get("k")
            if k == "{}":
                for x in s.get("s", ()):
                    W = run(x, W)
                    if W is None:
                        return None
                return W
            if k in ("expr", "decl"):
                e = s.get("e") if k == "expr" else s
                if k == "expr" and (e or {}).get("k") == "throw":
                    return None
                scan_expr(e, W, s.get("l"))
                W = set(W) | self.stmt_writes(e)
                for n in walk(e):
                    if n.get("k") in ("call", "mcall", "ctor") \
                            and n.get("u") and not n.get("v"):
                        for t in self.targets(f, n):
                            W |= self.must_writes(t)
                return W
            if k == "if":
                scan_expr(s.get("c"), W, s.get("l"))
                a = run(s.get("t"), set(W))
                b = run(s.get("e"), set(W)) if s.get("e") else set(W)
                if a is None:
                    return b
                if b is None:
                    return a
                return a & b
            if k == "return":
                if s.get("e"):
                    scan_expr(s["e"], W, s.get("l"))
                return None
            if k in ("for", "while", "forr", "do"):
                for key in ("init", "c", "r"):
                    if s.get(key):
                        if key == "init":
                            W = run(s["init"], W)
                        else:
                            scan_expr(s[key], W, s.get("l"))
                # the body is analysed twice: a member written late in the
                # body reaches the next iteration only on some paths, so only
                # the entry state counts
                run(s.get("b"), set(W))
                return W
            if k == "try":
                return run(s.get("b"), W)
            return W
        run(f["body"], set())
        return bad, inspected
