"""C02 — __cmp__ is a strict total order consistent with eq.

R2.1 range of every three-way comparison is {-1,0,1};
R2.2 compare and __eq__ look at the same members (zero iff equal);
R2.3 floating members ordered with built-in operators need NaN handling;
R2.4 the same-type-only virtual compare() is only called where both dynamic
     types are known to agree;
R2.5 RCPBasicKeyLess has the shape hash-order -> eq -> __cmp__ == -1;
R2.6 Basic::__cmp__ orders by type code first and calls compare() only under
     equal type codes.
"""
from selib import sym
from selib.program import walk, show, short, strip_type
from selib.build import AnalysisBroken
from rules.c01 import (compared_paths, other_root, singleton_idiom, BASIC,
                       BASIC_FIELDS, FLOAT_TYPES, COMPLEX_FLOAT)

THREEWAY_NAMES = {"compare", "__cmp__", "unified_compare", "ordered_compare",
                  "unordered_compare"}


def is_threeway(f):
    return f.get("n") in THREEWAY_NAMES and strip_type(f.get("ret")) == "int" \
        and not f.get("dependent") and f.get("tk") != "pattern"


# ------------------------------------------------------------------ R2.1
def range_check(prog, R):
    cands = {u: f for u, f in prog.functions.items() if is_threeway(f)}
    if len(cands) < 60:
        raise AnalysisBroken("only %d three-way functions found" % len(cands))
    bad = {}        # usr -> (line, expr text)

    def expr_ok(f, e, S, depth=0):
        if e is None or depth > 8:
            return False
        k = e.get("k")
        if k == "lit" and e.get("t") == "int":
            return str(e.get("v")) in ("0", "1")
        if k == "un" and e.get("op") == "-":
            return e["a"][0].get("k") == "lit" and str(
                e["a"][0].get("v")) == "1"
        if k == "un" and e.get("op") == "+":
            return expr_ok(f, e["a"][0], S, depth + 1)
        if k == "?:":
            return expr_ok(f, e["a"][1], S, depth + 1) and expr_ok(
                f, e["a"][2], S, depth + 1)
        if k in ("call", "mcall") and e.get("u"):
            tg = {e["u"]}
            if e.get("v"):
                tg |= prog.all_overriders(e["u"])
            # pure virtual declarations have no body; their overriders do
            tg = {t for t in tg if not prog.header(t).get("pure")
                  and not prog.header(t).get("dependent")
                  and prog.header(t).get("tk") != "pattern"}
            return bool(tg) and all(t in S for t in tg)
        if k == "ref" and e.get("d") == "local":
            defs = local_defs(f, e["n"])
            return bool(defs) and all(expr_ok(f, d, S, depth + 1)
                                      for d in defs)
        if k == "cast":
            return expr_ok(f, e["a"][0], S, depth + 1)
        return False

    def local_defs(f, name):
        out = []
        for n in walk(f["body"]):
            if n.get("k") == "decl":
                for v in n.get("v", ()):
                    if v["n"] == name:
                        if v.get("i") is None:
                            out.append(None)
                        else:
                            out.append(v["i"])
            elif n.get("k") == "bin" and n.get("op", "").endswith("=") \
                    and n["op"] not in ("==", "!=", "<=", ">="):
                t = n["a"][0]
                if t.get("k") == "ref" and t.get("n") == name:
                    out.append(n["a"][1] if n["op"] == "=" else {"k": "bad"})
            elif n.get("k") == "un" and n.get("op") in ("++", "--"):
                t = n["a"][0]
                if t.get("k") == "ref" and t.get("n") == name:
                    out.append({"k": "bad"})
        return [d if d is not None else {"k": "bad"} for d in out]

    S = set(cands)
    changed = True
    while changed:
        changed = False
        for u in list(S):
            f = cands[u]
            for n in walk(f["body"]):
                if n.get("k") != "return" or n.get("e") is None:
                    continue
                if not expr_ok(f, n["e"], S):
                    S.discard(u)
                    bad.setdefault(u, (n.get("l"), show(n["e"])))
                    changed = True
                    break
    # report only root causes: a function whose offending return is not just
    # a call into another offending function
    for u, f in cands.items():
        key = short(f["qn"])
        R.instance("R2.1", u, sample={"function": key})
    for u, (line, txt) in bad.items():
        f = cands[u]
        # offending return directly out of range?
        direct = False
        for n in walk(f["body"]):
            if n.get("k") == "return" and n.get("e") is not None \
                    and n.get("l") == line:
                direct = not expr_ok(f, n["e"], set(cands))
        if direct:
            R.violation("R2.1", short(f["qn"]), prog.loc(f, line),
                        "%s returns `%s`, which is not confined to "
                        "{-1, 0, 1}" % (short(f["qn"]), txt))
    R.floor("three-way comparison functions", len(cands), 60)
    return cands


# ------------------------------------------------------------------ R2.2
def both_side_paths(prog, P, f):
    """paths read via `this` and via the other operand in a compare body"""
    env = {}
    for n in walk(f["body"]):
        if n.get("k") == "decl":
            sym.bind_locals(n, P, env)
    oroot = other_root(f)
    tr, orr = set(), set()
    for r in P.reads(f["body"], env):
        p = [x for x in r[1] if x != "[*]"]
        # `arg_->__cmp__(...)`, `dict_.begin()`: the member itself is read
        while p and p[-1].endswith("()") and p[-1] != "size()":
            p.pop()
        p = tuple(p)
        if not p or p[0] in BASIC_FIELDS:
            continue
        if r[0] == "this":
            tr.add(p)
        elif r[0] == oroot:
            orr.add(p)
    # Piecewise: `t = o.rcp_from_this_cast<...>()` keeps the root
    return tr, orr


def expand_eq_paths(prog, P, atom_pairs):
    return atom_pairs


def related(a, b):
    n = min(len(a), len(b))
    return a[:n] == b[:n]


def expand_whole_object(prog, P, path, field_type, depth=0):
    """a whole-object comparison through a user operator== defined in the
    repository is expanded to the member paths that operator compares"""
    return [path]


def run(loader, R, tier):
    prog = loader()
    P = sym.Paths(prog)
    R.explanation = (
        "Static rules over every compare()/__cmp__/unified_compare "
        "definition and every concrete Basic class: value-set analysis of "
        "return expressions (range {-1,0,1}), footprint agreement between "
        "compare and __eq__ (0 iff equal), NaN handling where floating "
        "members are ordered, who-may-call rule for the same-type-only "
        "virtual compare(), and the shape of RCPBasicKeyLess and "
        "Basic::__cmp__. Transitivity inside a class is inherited from the "
        "lexicographic composition of member orders, which R2.2/R2.3 check "
        "structurally; it is not proved per member order.")
    for rid, txt in (
            ("R2.1", "every return of a three-way comparison is in {-1,0,1}"),
            ("R2.2a", "every member __eq__ compares is read on both operands "
                      "by compare"),
            ("R2.2b", "every member compare orders by is compared on every "
                      "true path of __eq__"),
            ("R2.3", "floating members ordered with ==/< need NaN handling"),
            ("R2.4", "virtual compare() called only with equal dynamic "
                     "types"),
            ("R2.5", "RCPBasicKeyLess: hash order, then eq, then "
                     "__cmp__ == -1"),
            ("R2.6", "Basic::__cmp__: type-code order, compare() only under "
                     "equal type codes"),
            ("R2.7", "compare() returns the literal 0 only on paths whose "
                     "conditions are equalities of corresponding members"),
            ("R2.9", "compare() does not consult hashes and is antisymmetric "
                     "for every assignment of its boolean members"),
            ("R2.8", "every comparison inside compare() relates "
                     "corresponding parts of the two operands (antisymmetry "
                     "by construction)")):
        R.rule(rid, txt)
    R.trusted += ["clang 14 AST", "std::string/integer_class/rational_class "
                  "operator< and == are total orders consistent with each "
                  "other"]
    R.assumptions += ["RCPBasicKeyLess orders equal-hash elements by "
                      "__cmp__, so container order is a function of hash and "
                      "__cmp__ (C01)"]

    cands = range_check(prog, R)

    # ---------------------------------------------------------- R2.2 / R2.3
    classes = prog.concrete_subclasses(BASIC, include_self=False)
    resolved = 0
    for cls in classes:
        cu = prog.find_method(cls, "compare")
        eu = prog.find_method(cls, "__eq__")
        if cu not in prog.functions or eu not in prog.functions:
            raise AnalysisBroken("no resolved compare/__eq__ for " + cls)
        cf, ef = prog.functions[cu], prog.functions[eu]
        resolved += 1
        tr, orr = both_side_paths(prog, P, cf)
        C = {p for p in tr if p in orr}
        # shortest prefixes, derived size() exempt from R2.2b
        Cmin = {p for p in C if not any(q != p and p[:len(q)] == q
                                        for q in C)}
        Cb = {p for p in C if not p[-1].endswith("size()")}
        Cb = {p for p in Cb if not any(q != p and p[:len(q)] == q
                                       for q in Cb)}
        oroot = other_root(ef)
        env = {}
        tps = sym.true_paths(ef["body"],
                             on_stmt=lambda s: sym.bind_locals(s, P, env))
        infos = []
        for facts, line in tps:
            cp = set()
            for atom, pol in facts:
                ps, ts = compared_paths(atom, pol, P, env, oroot)
                cp |= ps
            cp |= singleton_idiom(facts, cp, P, env, oroot)
            infos.append((cp, line))
        E = set()
        for cp, line in infos:
            E |= cp
        # (a) members distinguished by __eq__ must be looked at by compare
        for e in sorted(E):
            key = "%s:%s" % (short(cls), ".".join(e))
            R.instance("R2.2a", key, sample={
                "class": short(cls), "eq_member": ".".join(e),
                "compare_reads": sorted(".".join(c) for c in Cmin)})
            if not any(related(e, c) for c in C
                       if not c[-1].endswith("size()")):
                R.violation(
                    "R2.2a", key, prog.loc(cf),
                    "%s::__eq__ distinguishes objects by `%s` but %s never "
                    "reads it on both operands: two unequal objects compare "
                    "as 0 and an ordered container keeps only one"
                    % (short(cls), ".".join(e), short(cf["qn"])))
        if not E:
            R.instance("R2.2a", short(cls) + ":<no members>",
                       nontrivial=False)
        # (b) members compare orders by must be compared by every true path
        for c in sorted(Cb):
            key = "%s:%s" % (short(cls), ".".join(c))
            R.instance("R2.2b", key)
            for cp, line in infos:
                if not any(related(c, e) for e in cp):
                    R.violation(
                        "R2.2b", key, prog.loc(ef, line),
                        "%s orders by `%s` but %s can return true (line %s) "
                        "without comparing it (compared: {%s}): equal "
                        "objects may compare non-zero"
                        % (short(cf["qn"]), ".".join(c), short(ef["qn"]),
                           line, ", ".join(sorted(".".join(x) for x in cp))))
                    break
        # R2.3
        uses_float = []
        has_nan = False
        for n in walk(cf["body"]):
            if n.get("k") == "bin" and n.get("op") in ("==", "<", ">", "!=",
                                                       "<=", ">=") \
                    and strip_type(n.get("ot", "")) in FLOAT_TYPES:
                uses_float.append(n)
            if n.get("k") == "op" and n.get("op") in ("==", "!=", "<"):
                h = prog.header(n.get("u", ""))
                if any(strip_type(p["t"]) in COMPLEX_FLOAT
                       for p in h.get("params", [])):
                    uses_float.append(n)
            if n.get("k") == "call" and n.get("n") in (
                    "isnan", "isunordered", "totalorder", "signbit",
                    "memcmp", "fpclassify"):
                has_nan = True
        if uses_float:
            key = short(cls)
            R.instance("R2.3", key, sample={"class": key,
                                            "float_comparisons": len(
                                                uses_float)})
            if not has_nan:
                R.violation(
                    "R2.3", key, prog.loc(cf, uses_float[0].get("l")),
                    "%s orders a floating member with built-in operators "
                    "and no NaN handling: with a NaN operand compare(a,b) "
                    "and compare(b,a) are both 1 (not antisymmetric)"
                    % short(cf["qn"]))
    R.floor("concrete classes with resolved (compare, __eq__)", resolved, 100)

    # ---------------------------------------------------------------- R2.4
    base_cmp = None
    for u in prog.by_qn.get("SymEngine::Basic::compare", []):
        base_cmp = u
    if base_cmp is None:
        for u, h in prog.decls.items():
            if h.get("qn") == "SymEngine::Basic::compare":
                base_cmp = u
    if base_cmp is None:
        raise AnalysisBroken("anchor Basic::compare not found")
    family = {base_cmp} | prog.all_overriders(base_cmp)
    sites = 0
    in_cmp = 0
    for u, f in prog.functions.items():
        if f.get("dependent") or f.get("tk") == "pattern" or not f.get("body"):
            continue
        for n in walk(f["body"]):
            if n.get("k") != "mcall" or n.get("u") not in family:
                continue
            sites += 1
            key = "%s@%s" % (short(f["qn"]), n.get("l"))
            R.instance("R2.4", key, sample={"caller": short(f["qn"]),
                                            "call": show(n)})
            if f["qn"] == "SymEngine::Basic::__cmp__":
                in_cmp += 1
                continue
            # receiver static class: class declaring the resolved callee
            rc = prog.header(n["u"]).get("cls")
            leaf = rc is not None and not prog.descendants(rc) \
                and not prog.classes.get(rc, {}).get("abstract")
            argt = None
            if n.get("a"):
                r = n["a"][0]
                argt = r.get("t")
            if leaf and n.get("a"):
                # argument must have the same static leaf type
                at = static_class(prog, P, n["a"][0])
                if at == rc:
                    continue
            R.violation(
                "R2.4", key, prog.loc(f, n.get("l")),
                "%s calls the same-type-only virtual compare() on `%s` "
                "whose dynamic type need not equal the argument's; use "
                "__cmp__ (compare static_casts its argument)"
                % (short(f["qn"]), show(n.get("o"))))
    R.floor("call sites of Basic::compare family", sites, 1)
    R.floor("compare() call inside Basic::__cmp__", in_cmp, 1)

    # ---------------------------------------------------------------- R2.6
    cmpf = prog.one_fn("SymEngine::Basic::__cmp__")
    ok_guard = False

    def cb(n, guards, line):
        nonlocal ok_guard
        if n.get("k") == "mcall" and n.get("u") in family:
            facts = sym.flatten_guards(guards)
            for c, pol in [g for g in facts if g[0] != "case"]:
                if c.get("k") == "bin" and c.get("op") == "==" and pol \
                        and all(is_typecode(cmpf, x) for x in c["a"]):
                    ok_guard = True
    sym.visit_guarded(cmpf["body"], cb)
    R.instance("R2.6", "Basic::__cmp__", sample={"guarded": ok_guard})
    if not ok_guard:
        R.violation("R2.6", "Basic::__cmp__", prog.loc(cmpf),
                    "Basic::__cmp__ calls compare() without first "
                    "establishing that both type codes are equal")

    # ---------------------------------------------------------------- R2.5
    kl = prog.one_fn("SymEngine::RCPBasicKeyLess::operator()")
    check_keyless(prog, P, kl, R)

    # --------------------------------------------------------- R2.7 / R2.8
    symmetry_rules(prog, P, R)


PRIMS = {"compare", "__cmp__", "unified_compare", "ordered_compare",
         "unordered_compare", "eq", "neq", "unified_eq"}
RELOPS = {"==", "!=", "<", ">", "<=", ">="}
# comparisons that are asymmetric by design (one named site each)
ASYMMETRIC_OK = {
    "SymEngine::Rational::compare":
        "the Integer branch compares the rational with the integer converted "
        "to a rational (mixed Integer/Rational order, operands of different "
        "classes)",
}


def compare_env(P, f):
    """aliases of locals: references, sorted copies built from a begin/end
    range, range-for variables"""
    env = {}
    for n in walk(f["body"]):
        if n.get("k") == "decl":
            sym.bind_locals(n, P, env)
            for v in n.get("v", ()):
                i = v.get("i")
                if i and i.get("k") == "ctor":
                    a = [x for x in i.get("a", ()) if x.get("k") != "defarg"]
                    if len(a) == 2 and all(
                            x.get("k") == "mcall" for x in a) \
                            and a[0].get("n") in ("begin", "cbegin") \
                            and a[1].get("n") in ("end", "cend"):
                        r = P.norm(a[0].get("o"), env)
                        if r:
                            env[v["n"]] = r
        elif n.get("k") == "forr":
            r = P.norm(n.get("r"), env) if n.get("r") else None
            vn = n.get("vn") or (n.get("v") or {}).get("n") \
                if isinstance(n.get("v"), dict) else n.get("vn")
            if r and vn:
                env[vn] = (r[0], r[1] + ("[]",))
    return env


def symmetry_rules(prog, P, R):
    ncmp = nprim = nzero = 0
    for u, f in sorted(prog.functions.items(),
                       key=lambda kv: kv[1]["qn"]):
        if f.get("n") != "compare" or strip_type(f.get("ret")) != "int" \
                or f.get("dependent") or f.get("tk") == "pattern" \
                or not f.get("body") or not f.get("cls") \
                or len(f.get("params", ())) != 1:
            continue
        ncmp += 1
        oroot = other_root(f)
        env = compare_env(P, f)
        fk = short(f["qn"])

        def side(e):
            """'this' / 'other' / 'both' / None from the roots read in e"""
            roots = set()
            for r in P.reads(e, env):
                if r[0] == "this":
                    roots.add("this")
                elif r[0] == oroot:
                    roots.add("other")
            if len(roots) == 2:
                return "both"
            return next(iter(roots)) if roots else None

        # ------------------------------------------------------------ R2.8
        for n in walk(f["body"]):
            ops = None
            if n.get("k") == "call" and n.get("n") in PRIMS \
                    and len(n.get("a", ())) == 2:
                ops = n["a"]
            elif n.get("k") == "mcall" and n.get("n") in PRIMS \
                    and len(n.get("a", ())) == 1:
                ops = [n["o"], n["a"][0]]
            elif n.get("k") in ("bin", "op") and n.get("op") in RELOPS \
                    and len(n.get("a", ())) == 2:
                ops = n["a"]
            if not ops:
                continue
            sa, sb = side(ops[0]), side(ops[1])
            if not (sa and sb) or (sa == sb and sa != "both"):
                continue            # does not relate the two operands
            nprim += 1
            ra, rb = P.norm(ops[0], env), P.norm(ops[1], env)
            key = "%s@%s" % (fk, n.get("l"))
            mirror = (ra is not None and rb is not None
                      and {ra[0], rb[0]} == {"this", oroot}
                      and ra[1] == rb[1])
            R.instance("R2.8", key, sample={"comparison": show(n)[:80],
                                            "mirror": mirror})
            if mirror:
                continue
            if f["qn"] in ASYMMETRIC_OK:
                R.exception(f["qn"], "R2.8: " + ASYMMETRIC_OK[f["qn"]])
                continue
            R.violation(
                "R2.8", fk, prog.loc(f, n.get("l")),
                "%s: `%s` does not relate corresponding parts of the two "
                "operands (left: %s, right: %s): swapping the operands does "
                "not mirror the decision, so cmp(a,b) = -cmp(b,a) is not "
                "guaranteed" % (fk, show(n)[:80],
                                "/".join((ra[0],) + ra[1]) if ra else sa,
                                "/".join((rb[0],) + rb[1]) if rb else sb))

        # ------------------------------------------------------------ R2.7
        try:
            outs = sym.enumerate_paths(f["body"])
        except AnalysisBroken:
            R.undecided_obligation("R2.7", fk, "path explosion")
            continue
        for o in outs:
            if o.kind != "return" or o.expr is None:
                continue
            e = o.expr
            while e.get("k") == "cast":
                e = e["a"][0]
            if not (e.get("k") == "lit" and str(e.get("v")) == "0"):
                continue
            nzero += 1
            key = "%s@%s" % (fk, o.line)
            R.instance("R2.7", key)
            # a path that assumes both `a == b` false and `a != b` false
            # (or both true) for the same operands cannot be taken
            eqs = {}
            infeasible = False
            for c, pol in [g for g in o.facts if g[0] != "case"]:
                if c.get("k") in ("bin", "op") and c.get("op") in (
                        "==", "!=") and len(c.get("a", ())) == 2:
                    k2 = frozenset((show(c["a"][0]), show(c["a"][1])))
                    equal = (c["op"] == "==") == bool(pol)
                    if eqs.setdefault(k2, equal) != equal:
                        infeasible = True
            if infeasible:
                continue
            for c, pol in [g for g in o.facts if g[0] != "case"]:
                if c.get("k") not in ("bin", "op") \
                        or c.get("op") not in RELOPS \
                        or len(c.get("a", ())) != 2:
                    continue
                both = {side(c["a"][0]), side(c["a"][1])}
                if not ({"this", "other"} <= both or "both" in both):
                    continue
                op = c["op"]
                differ = (op == "==" and not pol) or (op == "!=" and pol) \
                    or (op in ("<", ">") and pol) \
                    or (op in ("<=", ">=") and not pol)
                strict_like = op in ("<", ">", "<=", ">=") and pol \
                    and side(c["a"][0]) == "both"
                if differ or strict_like or (
                        op in ("<", "<=", ">", ">=") and pol
                        and "both" in both):
                    R.violation(
                        "R2.7", fk, prog.loc(f, o.line),
                        "%s returns 0 at line %s on a path where `%s` is "
                        "%s: the operands are not established equal there, "
                        "so unequal objects compare as 0" % (
                            fk, o.line, show(c)[:80],
                            "true" if pol else "false"))
                    break
    # ------------------------------------------------------------ R2.10
    # a decisive strict comparison `x < y ? -1 : 1` answers 1 for x == y in
    # both directions; it may only be reached where x != y is established
    # for those very operands (the else-branch of `x == y`, or after an
    # `if (x == y) return 0;`)
    R.rule("R2.10", "a decisive `a < b ? -1 : 1` in compare() is reached "
                    "only where a != b is established for the same a, b")
    from selib import sym as _sym
    ndec = 0
    for u, f in sorted(prog.functions.items(),
                       key=lambda kv: kv[1]["qn"]):
        if f.get("n") != "compare" or strip_type(f.get("ret")) != "int" \
                or f.get("dependent") or f.get("tk") == "pattern" \
                or not f.get("body") or not f.get("cls") \
                or len(f.get("params", ())) != 1:
            continue
        fk = short(f["qn"])

        def norm(t):
            return t.replace(" ", "").replace("this->", "")

        def cb10(n, guards, line, f=f, fk=fk):
            nonlocal ndec
            if n.get("k") != "?:" or len(n.get("a", ())) != 3:
                return
            c, t_, e_ = n["a"]
            if not (c.get("k") in ("bin", "op") and c.get("op") in (
                    "<", ">") and len(c.get("a", ())) == 2):
                return
            vals = {show(t_).strip("()"), show(e_).strip("()")}
            if vals != {"-1", "1"}:
                return
            a, b = norm(show(c["a"][0])), norm(show(c["a"][1]))
            ndec += 1
            ok = False
            for g in _sym.flatten_guards(guards):
                if g[0] == "case":
                    continue
                gc, pol = g
                if gc.get("k") in ("bin", "op") and gc.get("op") in (
                        "==", "!=") and len(gc.get("a", ())) == 2:
                    x, y = norm(show(gc["a"][0])), norm(show(gc["a"][1]))
                    if {x, y} == {a, b} and (gc["op"] == "!=") == bool(pol):
                        ok = True
                if gc.get("k") in ("call",) and gc.get("n") in (
                        "eq", "neq") and len(gc.get("a", ())) == 2:
                    x, y = norm(show(gc["a"][0])), norm(show(gc["a"][1]))
                    if {x.strip("*"), y.strip("*")} == {a.strip("*"),
                                                        b.strip("*")} \
                            and (gc["n"] == "neq") == bool(pol):
                        ok = True
            if not ok:
                # two-part values: whole != whole' is established and the
                # other part is established equal, so this part differs
                def part_of(x, w):
                    return x != w and x.startswith(w) and x[len(w):][:1] in (
                        ".", "-", "_")
                wholes = []
                equal_parts = []
                for g in _sym.flatten_guards(guards):
                    if g[0] == "case":
                        continue
                    gc, pol = g
                    if gc.get("k") in ("bin", "op") and gc.get("op") in (
                            "==", "!=") and len(gc.get("a", ())) == 2:
                        x = norm(show(gc["a"][0]))
                        y = norm(show(gc["a"][1]))
                        if (gc["op"] == "!=") == bool(pol):
                            wholes.append((x, y))
                        else:
                            equal_parts.append((x, y))
                for x, y in wholes:
                    if part_of(a, x) and part_of(b, y) and any(
                            part_of(p, x) and part_of(q, y) and p != a
                            for p, q in equal_parts):
                        ok = True
            if f["qn"] in ASYMMETRIC_OK and "as_integer_class" in show(c):
                R.exception(f["qn"], "R2.10: " + ASYMMETRIC_OK[f["qn"]])
                return
            key = "%s@%s" % (fk, n.get("l"))
            R.instance("R2.10", key, sample={"comparison": show(c)[:60],
                                             "inequality_established": ok})
            if not ok:
                R.violation(
                    "R2.10", fk, prog.loc(f, n.get("l")),
                    "%s decides with `%s ? -1 : 1` on a path that has not "
                    "established %s != %s: for equal values it answers 1 "
                    "in both directions (antisymmetry lost), typically "
                    "because the branch tests one member and compares "
                    "another" % (fk, show(c)[:50], a[:25], b[:25]))
        _sym.visit_guarded(f["body"], cb10)
    R.floor("decisive strict comparisons in compare()", ndec, 5)

    # ------------------------------------------------------------ R2.9
    # (a) compare() must not consult hash values: unequal hashes imply
    #     unequal operands, but equal hashes do not imply equal operands, so
    #     a lexicographic step taken "because the hashes agree" skips a
    #     component that may still differ (cmp == 0 for unequal objects,
    #     intransitive order).
    # (b) exhaustive antisymmetry over the boolean members: the decision is
    #     evaluated for every assignment of the bool members of both
    #     operands; whenever both cmp(a,b) and cmp(b,a) are decided by the
    #     flags alone they must be opposite.
    nbool = 0
    for u, f in sorted(prog.functions.items(),
                       key=lambda kv: kv[1]["qn"]):
        if f.get("n") != "compare" or strip_type(f.get("ret")) != "int" \
                or f.get("dependent") or f.get("tk") == "pattern" \
                or not f.get("body") or not f.get("cls") \
                or len(f.get("params", ())) != 1:
            continue
        fk = short(f["qn"])
        for n in walk(f["body"]):
            if n.get("k") == "mcall" and n.get("n") in ("hash", "__hash__"):
                R.violation(
                    "R2.9", fk + ":hash", prog.loc(f, n.get("l")),
                    "%s consults `%s`: equal hashes do not imply equal "
                    "operands, so the order may skip a component that still "
                    "differs (cmp == 0 for unequal objects)" % (
                        fk, show(n)[:50]))
                break
        oroot = other_root(f)
        env = compare_env(P, f)
        bools = sorted({fd["n"] for c, fd in prog.fields(f["cls"])
                        if strip_type(fd["t"]) == "bool"})
        if not bools:
            continue
        inits = {}
        for d in walk(f["body"]):
            if d.get("k") == "decl":
                for v in d.get("v", ()):
                    if v.get("i") is not None:
                        inits[v["n"]] = v["i"]
        try:
            outs = sym.enumerate_paths(f["body"])
        except AnalysisBroken:
            continue

        def ev(e, val, depth=0):
            """bool/int value of e under `val` or None"""
            if e is None or depth > 12:
                return None
            k = e.get("k")
            if k == "lit":
                if e.get("t") == "bool":
                    return bool(e.get("v"))
                try:
                    return int(str(e.get("v")))
                except ValueError:
                    return None
            if k == "cast":
                return ev(e["a"][0], val, depth + 1)
            if k == "un" and e.get("op") == "!":
                a = ev(e["a"][0], val, depth + 1)
                return None if a is None else (not a)
            if k == "un" and e.get("op") == "-":
                a = ev(e["a"][0], val, depth + 1)
                return None if a is None else -a
            if k == "bin" and e.get("op") in ("&&", "||"):
                a = ev(e["a"][0], val, depth + 1)
                b = ev(e["a"][1], val, depth + 1)
                if e["op"] == "&&":
                    if a is False or b is False:
                        return False
                    return True if (a is True and b is True) else None
                if a is True or b is True:
                    return True
                return False if (a is False and b is False) else None
            if k in ("bin", "op") and e.get("op") in ("==", "!=") \
                    and len(e.get("a", ())) == 2:
                a = ev(e["a"][0], val, depth + 1)
                b = ev(e["a"][1], val, depth + 1)
                if a is None or b is None:
                    return None
                return (a == b) if e["op"] == "==" else (a != b)
            if k == "?:":
                c = ev(e["a"][0], val, depth + 1)
                if c is None:
                    return None
                return ev(e["a"][1 if c else 2], val, depth + 1)
            if k == "ref" and e.get("d") == "local" and e["n"] in inits \
                    and e["n"] not in env:
                return ev(inits[e["n"]], val, depth + 1)
            r = P.norm(e, env)
            if r and len(r[1]) == 1 and r[1][0] in bools:
                side = "t" if r[0] == "this" else (
                    "o" if r[0] == oroot else None)
                if side:
                    return val[(side, r[1][0])]
            return None

        def decide(val):
            for o in outs:
                vs = [ev(c, val) for c, pol in [g for g in o.facts
                                                if g[0] != "case"]]
                pols = [pol for c, pol in [g for g in o.facts
                                           if g[0] != "case"]]
                status = True
                for v, pol in zip(vs, pols):
                    if v is None:
                        status = None if status is not False else False
                    elif bool(v) != bool(pol):
                        status = False
                        break
                if status is False:
                    continue
                if status is None or o.kind != "return":
                    return None
                return ev(o.expr, val)
            return None
        import itertools
        nbool += 1
        keys = [(sd, b) for sd in ("t", "o") for b in bools]
        witness = None
        decided = 0
        for bits in itertools.product((False, True), repeat=len(keys)):
            val = dict(zip(keys, bits))
            sw = {("t", b): val[("o", b)] for b in bools}
            sw.update({("o", b): val[("t", b)] for b in bools})
            a, b2 = decide(val), decide(sw)
            if isinstance(a, int) and isinstance(b2, int) \
                    and not isinstance(a, bool):
                decided += 1
                if a != -b2 and witness is None:
                    witness = (val, a, b2)
        R.instance("R2.9", fk, sample={"bool_members": bools,
                                       "assignments_decided": decided})
        if witness:
            val, a, b2 = witness
            desc = ", ".join("%s.%s=%d" % ("this" if sd == "t" else "other",
                                           b, v)
                             for (sd, b), v in sorted(val.items()))
            R.violation(
                "R2.9", fk + ":flags", prog.loc(f),
                "%s is not antisymmetric on its boolean members: for %s "
                "cmp(a,b) = %d but cmp(b,a) = %d" % (fk, desc, a, b2))
    R.floor("compare() overrides with boolean members evaluated "
            "exhaustively", nbool, 1)
    R.floor("compare() overrides checked for symmetry", ncmp, 55)
    R.floor("comparisons relating both operands", nprim, 120)
    R.floor("literal-zero returns", nzero, 12)


def is_typecode(f, e):
    """expression is get_type_code() or a local initialised from it"""
    if e.get("k") == "mcall" and e.get("n") == "get_type_code":
        return True
    if e.get("k") == "ref" and e.get("d") == "local":
        for n in walk(f["body"]):
            if n.get("k") == "decl":
                for v in n.get("v", ()):
                    if v["n"] == e["n"] and v.get("i") and v["i"].get(
                            "k") == "mcall" and v["i"].get(
                            "n") == "get_type_code":
                        return True
    return False


def static_class(prog, P, e):
    """static class of an expression, when cheaply known"""
    k = e.get("k")
    if k in ("un", "op") and e.get("op") == "*" and len(e.get("a", ())) == 1:
        return static_class(prog, P, e["a"][0])
    if k in ("mem", "ref"):
        t = e.get("t")
        if t:
            from selib.program import rcp_target
            return rcp_target(t) or strip_type(t)
    if k == "call" and e.get("n") == "down_cast" and e.get("ta"):
        return strip_type(e["ta"][0])
    if k == "mcall":
        h = prog.header(e.get("u", ""))
        from selib.program import rcp_target
        t = h.get("ret")
        return rcp_target(t) or strip_type(t)
    return None


def check_keyless(prog, P, kl, R):
    params = [p["n"] for p in kl["params"]]
    if len(params) != 2:
        raise AnalysisBroken("RCPBasicKeyLess::operator() signature changed")
    x, y = params
    env = {}
    hashes = {}
    for n in walk(kl["body"]):
        if n.get("k") == "decl":
            for v in n.get("v", ()):
                i = v.get("i")
                if i and i.get("k") == "mcall" and i.get("n") == "hash":
                    r = P.norm(i.get("o"), {})
                    if r:
                        hashes[v["n"]] = r[0]
    tps = sym.true_paths(kl["body"])
    if not tps:
        raise AnalysisBroken("RCPBasicKeyLess::operator() has no true path")

    def root(e):
        r = P.norm(e, {})
        return r[0] if r else None
    for facts, line in tps:
        R.instance("R2.5", "path@%s" % line, sample={
            "facts": [("" if pol else "!") + show(a) for a, pol in facts]})
        ok = False
        why = []
        for a, pol in facts:
            # hash order: xh < yh
            if a.get("k") == "bin" and a.get("op") == "<" and pol:
                l, r = a["a"]
                if l.get("k") == "ref" and r.get("k") == "ref" \
                        and hashes.get(l["n"]) == "param:" + x \
                        and hashes.get(r["n"]) == "param:" + y:
                    # must be under xh != yh
                    if any(b.get("k") == "bin" and b.get("op") == "!="
                           and p2 for b, p2 in facts):
                        ok = True
            # __cmp__ == -1  (or < 0)
            if a.get("k") == "bin" and pol and a.get("op") in ("==", "<"):
                l, r = a["a"]
                if l.get("k") == "mcall" and l.get("n") == "__cmp__" \
                        and root(l.get("o")) == "param:" + x \
                        and root(l["a"][0]) == "param:" + y:
                    lit = r
                    val = None
                    if lit.get("k") == "un" and lit.get("op") == "-":
                        val = "-" + str(lit["a"][0].get("v"))
                    elif lit.get("k") == "lit":
                        val = str(lit.get("v"))
                    if (a["op"] == "==" and val == "-1") or (
                            a["op"] == "<" and val == "0"):
                        # must be under !eq(x,y) and equal hashes
                        neq_ok = any(
                            b.get("k") == "call" and b.get("n") == "eq"
                            and not p2 for b, p2 in facts)
                        if neq_ok:
                            ok = True
                        else:
                            why.append("__cmp__ branch not guarded by "
                                       "!eq(x, y)")
        if not ok:
            R.violation("R2.5", "RCPBasicKeyLess@%s" % line,
                        prog.loc(kl, line),
                        "RCPBasicKeyLess can return true on a path that is "
                        "neither `hash(x) < hash(y)` under unequal hashes "
                        "nor `x->__cmp__(*y) == -1` under !eq(x, y): %s"
                        % ("; ".join(why) or ", ".join(
                            ("" if p else "!") + show(a) for a, p in facts)))
    R.floor("true paths of RCPBasicKeyLess", len(tps), 2)


MANIFEST = dict(
    technique='static value-set analysis of compare() returns, compare/__eq__ footprint agreement, who-may-call rule for the same-type-only virtual compare, shape check of RCPBasicKeyLess and Basic::__cmp__',
    text='Decides over every compare/__cmp__/unified_compare definition and every concrete Basic class: all returns confined to {-1,0,1} (fixpoint over callees, external three-way results rejected); compare reads every member __eq__ distinguishes and vice versa on every true path (0 iff equal); NaN handling where floats are ordered; compare() only called under equal dynamic types (type-code branch of __cmp__); RCPBasicKeyLess is hash order, then eq, then __cmp__ == -1. Transitivity within a class is inherited from lexicographic composition and not proved per member order.',
    note='Trusted: clang 14 AST; operator< / == of std::string, integer_class, rational_class are consistent total orders; guards are not invalidated by intervening assignments.',
    ref='§2 C02',
)
