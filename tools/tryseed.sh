#!/bin/sh
# usage: tools/tryseed.sh <patch> <PROP> [more PROPs...]  — applies the patch to /repo, runs the checks, undoes it
p=$1; shift
if [ -n "$(git -C /repo status --porcelain --untracked-files=no)" ]; then echo "refusing: /repo has uncommitted changes (commit them first)"; exit 4; fi
git -C /repo apply --check "$p" || { echo "patch does not apply"; exit 3; }
git -C /repo apply "$p"
for id in "$@"; do
  VERIF_EVIDENCE_DIR=/tmp/seed-evidence /verif/check $id --tier quick > /tmp/tryseed_$id.out 2>&1
  echo "$id exit=$? $(grep -c '^  R' /tmp/tryseed_$id.out) new-violations"
  grep '^  R' /tmp/tryseed_$id.out | cut -c1-400
done
git -C /repo checkout -- .
git -C /repo status --short | grep -v _build
