"""Kleene monotonicity of three-valued decision procedures.

A handler of a query visitor computes a tribool from the tribool answers of
sub-queries.  If weakening one sub-answer from definite to indeterminate can
turn the handler's answer into a *different definite* answer, one of the two
definite answers is unsound (indeterminate is consistent with the sub-query
being true and with it being false, so the answer given for indeterminate
must hold in both worlds).  The engine interprets a handler (engine E3) under
every assignment of {T, F, I} to its tribool sub-expressions and of
{true, false} to its other boolean atoms, discovered lazily, and compares the
leaves pairwise.
"""
from .absint import Interp, Domain, TOP, Lazy
from .program import show, strip_type, short

TRI = "SymEngine::tribool"
CONST = {"tritrue": "T", "trifalse": "F", "indeterminate": "I"}


class NeedVar(Exception):
    def __init__(self, key, kind):
        self.key, self.kind = key, kind


def k_not(a):
    return {"T": "F", "F": "T", "I": "I"}[a]


def k_and(a, b):
    if a == "F" or b == "F":
        return "F"
    return "T" if a == b == "T" else "I"


def k_or(a, b):
    if a == "T" or b == "T":
        return "T"
    return "F" if a == b == "F" else "I"


def wk(op):
    def f(a, b):
        if "I" in (a, b):
            return "I"
        return op(a, b)
    return f


OPS2 = {"and_tribool": k_and, "or_tribool": k_or,
        "andwk_tribool": wk(k_and), "orwk_tribool": wk(k_or)}


# the worlds a sub-query talks about: (sign class, number class) of the value
WORLDS = [("zero", "int")] + [(s, k) for s in ("neg", "pos")
                              for k in ("int", "rat", "alg", "transc")] \
    + [("nonreal", k) for k in ("alg", "transc")] + [("inf", "inf")]
QUERIES = {
    "zero": lambda w: w[0] == "zero",
    "nonzero": lambda w: w[0] != "zero",
    "positive": lambda w: w[0] == "pos",
    "negative": lambda w: w[0] == "neg",
    "nonnegative": lambda w: w[0] in ("zero", "pos"),
    "nonpositive": lambda w: w[0] in ("zero", "neg"),
    "real": lambda w: w[0] in ("zero", "pos", "neg"),
    "complex": lambda w: w[0] != "inf",
    "finite": lambda w: w[0] != "inf",
    "infinite": lambda w: w[0] == "inf",
    "integer": lambda w: w[1] == "int",
    "rational": lambda w: w[1] in ("int", "rat"),
    "irrational": lambda w: w[0] in ("pos", "neg") and w[1] in ("alg",
                                                                "transc"),
    "algebraic": lambda w: w[1] in ("int", "rat", "alg"),
    "transcendental": lambda w: w[1] == "transc",
}


def norm_obj(txt):
    return txt.replace("*", "").replace("->", "").replace(
        ".rcp_from_this()", "").replace(" ", "").strip("()")


def feasible(assign, meta):
    """False if the definite sub-answers about one object contradict each
    other in every world (is_positive(x) and is_negative(x) both true)"""
    by = {}
    for k, v in assign.items():
        if v in ("T", "F") and k in meta and meta[k][1] in QUERIES:
            by.setdefault(meta[k][0], []).append((QUERIES[meta[k][1]],
                                                  v == "T"))
    for obj, cons in by.items():
        if len(cons) > 1 and not any(all(q(w) == want for q, want in cons)
                                     for w in WORLDS):
            return False
    return True


class TriDomain(Domain):
    def __init__(self, prog, member, own=None, meta=None):
        self.prog = prog
        self.member = member
        self.own = own              # query decided by the visitor itself
        self.assign = {}
        self.meta = meta if meta is not None else {}

    def describe(self, e):
        """(object text, query name) a tribool sub-expression asks about"""
        k = e.get("k")
        if k == "mcall" and e.get("n") == "accept":
            return norm_obj(show(e.get("o") or {})), self.own
        if k == "mcall" and e.get("n") == "apply" and e.get("a"):
            t = short(strip_type((e.get("o") or {}).get("t") or ""))
            q = t[:-len("Visitor")].lower() if t.endswith("Visitor") else None
            return norm_obj(show(e["a"][0])), q
        if k in ("call", "mcall") and (e.get("n") or "").startswith("is_") \
                and e.get("a"):
            return norm_obj(show(e["a"][0])), e["n"][3:]
        return None

    def var(self, key, kind, env=None, e=None):
        it = (env or {}).get("__iter")
        if it:
            key += " #" + ".".join(str(i) for _l, i in it)
        if e is not None and key not in self.meta:
            d = self.describe(e)
            if d and d[1]:
                self.meta[key] = (d[0] + (" #" + ".".join(
                    str(i) for _l, i in it) if it else ""), d[1])
        if key not in self.assign:
            raise NeedVar(key, kind)
        return self.assign[key]

    def is_tri(self, e):
        t = strip_type(e.get("t") or "")
        if t == TRI:
            return True
        if e.get("k") in ("call", "mcall"):
            g = self.prog.functions.get(e.get("u"))
            if g is not None and strip_type(g.get("ret", "")) == TRI:
                return True
        return False

    def value(self, I, e, env):
        k = e.get("k")
        if k == "ref" and e.get("d") == "enum" and e.get("n") in CONST \
                and "tribool" in (e.get("q") or ""):
            return CONST[e["n"]]
        if k == "call" and e.get("n") == "not_tribool" and e.get("a"):
            a = I.eval(e["a"][0], env)
            return k_not(a) if a in ("T", "F", "I") else TOP
        if k == "call" and e.get("n") in OPS2 and len(e.get("a", ())) == 2:
            a = I.eval(e["a"][0], env)
            b = I.eval(e["a"][1], env)
            if a in ("T", "F", "I") and b in ("T", "F", "I"):
                return OPS2[e["n"]](a, b)
            return TOP
        if k == "call" and e.get("n") == "tribool_from_bool" and e.get("a"):
            c = I.cond(e["a"][0], env)
            return TOP if c is None else ("T" if c else "F")
        if k == "un" and e.get("op") in ("++", "--") and e.get("a") \
                and e["a"][0].get("k") == "ref" \
                and e["a"][0].get("d") == "local" \
                and type(env.get(e["a"][0]["n"])) is int:
            # counter updated inside a condition (the engine hands every
            # state its own environment before evaluating a condition)
            old = env[e["a"][0]["n"]]
            env[e["a"][0]["n"]] = old + (1 if e["op"] == "++" else -1)
            return old if e.get("post") else env[e["a"][0]["n"]]
        if k == "lit" and e.get("t") == "int":
            try:
                return int(str(e.get("v")), 0)
            except ValueError:
                return TOP
        if k in ("call", "mcall", "mem") and self.is_tri(e):
            return self.var("tri:" + show(e)[:90], "tri", env, e)
        return TOP

    def atom(self, I, e, env):
        k = e.get("k")
        if k == "call" and e.get("n") in ("is_true", "is_false",
                                          "is_indeterminate") and e.get("a"):
            v = I.eval(e["a"][0], env)
            if v in ("T", "F", "I"):
                return v == {"is_true": "T", "is_false": "F",
                             "is_indeterminate": "I"}[e["n"]]
            return None
        if k in ("bin", "op") and e.get("op") in ("==", "!=") \
                and len(e.get("a", ())) == 2:
            a = I.eval(e["a"][0], env)
            b = I.eval(e["a"][1], env)
            if a in ("T", "F", "I") and b in ("T", "F", "I"):
                return (a == b) == (e["op"] == "==")
        if k in ("bin", "op") and e.get("op") in ("==", "!=", "<", ">",
                                                  "<=", ">=") \
                and len(e.get("a", ())) == 2:
            a = I.eval(e["a"][0], env)
            b = I.eval(e["a"][1], env)
            if type(a) is int and type(b) is int:
                return {"==": a == b, "!=": a != b, "<": a < b, ">": a > b,
                        "<=": a <= b, ">=": a >= b}[e["op"]]
        if k in ("call", "mcall", "bin", "op", "mem") or (
                k == "ref" and e.get("d") not in ("local", "param")):
            return self.var("bool:" + show(e)[:90], "bool", env)
        return None

    def effect(self, I, e, env):
        # child.accept(*this): the result member now holds the child's answer
        if e.get("k") == "mcall" and e.get("n") == "accept" and any(
                a.get("k") == "this" or (a.get("k") == "un" and any(
                    y.get("k") == "this" for y in a.get("a", ())))
                for a in e.get("a", ())):
            key = "tri:%s@%s" % (show(e)[:60], e.get("l"))
            return {"this." + self.member: self.var(key, "tri", env, e)}
        return None


def leaves(prog, fn, member, limit=2000, unroll=0, own=None, meta=None):
    """[(assignment, [Outcome])] for every discovered total assignment;
    `meta` (dict) receives, per tribool variable, the (object, query) it asks
    about"""
    out = []
    stack = [{}]
    meta = meta if meta is not None else {}
    while stack:
        a = stack.pop()
        if not feasible(a, meta):
            continue
        D = TriDomain(prog, member, own, meta)
        D.assign = a
        I = Interp(prog, D)
        I.unroll = unroll
        try:
            outs = I.run(fn, TOP, [TOP] * len(fn.get("params", ())))
        except NeedVar as nv:
            for v in (("T", "F", "I") if nv.kind == "tri"
                      else (True, False)):
                b = dict(a)
                b[nv.key] = v
                stack.append(b)
            if len(stack) + len(out) > limit:
                return None
            continue
        out.append((a, outs))
    return out


def result_of(outs, member):
    """the handler's answer on this leaf: 'T'/'F'/'I', 'throw', or None
    (not determined)"""
    vals = set()
    for o in outs:
        if o.kind == "throw":
            vals.add("throw")
            continue
        if not o.definite:
            return None
        v = (o.env or {}).get("this." + member, "unset")
        if isinstance(v, Lazy):
            return None
        vals.add(v if v in ("T", "F", "I") else None)
    if len(vals) == 1:
        return vals.pop()
    return None


def nonmonotone(lv, member):
    """pairs (strong leaf, weak leaf, weakened var) that break monotonicity"""
    res = []
    rs = [(a, result_of(o, member)) for a, o in lv]
    for a, r in rs:
        if r not in ("T", "F", "I"):
            continue
        for k, v in a.items():
            if not k.startswith("tri:") or v == "I":
                continue
            for b, r2 in rs:
                if b.get(k) != "I" or r2 not in ("T", "F") or r2 == r:
                    continue
                if not all(b.get(k2, v2) == v2 for k2, v2 in a.items()
                           if k2 != k):
                    continue
                # the weak leaf must not rest on definite evidence that the
                # strong leaf never consulted: sub-queries are correlated
                # (is_zero(e) and is_zero(e - 1)), and such evidence can
                # legitimately exclude the strong world
                if all(k2 in a or (k2.startswith("tri:") and v2 == "I")
                       for k2, v2 in b.items()):
                    res.append((a, r, b, r2, k))
    return res


# ---------------------------------------------------------------- worlds
# attainable worlds of a sum / product of two values of given worlds.  Every
# listed world is attained by some concrete pair (the tables under-approximate
# on purpose: an alarm needs a world that can really occur).
def _kinds_add(k1, k2):
    ks = {k1, k2}
    if "transc" in ks:
        return {"int", "rat", "alg", "transc"} if k1 == k2 else {"transc"}
    if "alg" in ks:
        return {"int", "rat", "alg"} if k1 == k2 else {"alg"}
    if ks == {"int"}:
        return {"int"}
    if ks == {"int", "rat"}:
        return {"rat"}
    return {"int", "rat"}


def _kinds_mul(k1, k2):
    ks = {k1, k2}
    if "transc" in ks:
        return {"int", "rat", "alg", "transc"} if k1 == k2 else {"transc"}
    if "alg" in ks:
        return {"int", "rat", "alg"} if k1 == k2 else {"alg"}
    if ks == {"int"}:
        return {"int"}
    return {"int", "rat"}


def _nonreal_kinds(ks):
    return {"transc" if k == "transc" else "alg" for k in ks}


def world_sum(a, b):
    if "inf" in (a[0], b[0]):
        return set() if a[0] == b[0] else {("inf", "inf")}
    if a[0] == "zero":
        return {b}
    if b[0] == "zero":
        return {a}
    ks = _kinds_add(a[1], b[1])
    ra, rb = a[0] != "nonreal", b[0] != "nonreal"
    out = set()
    if ra and rb:
        signs = {a[0]} if a[0] == b[0] else {"neg", "pos"}
        out = {(s, k) for s in signs for k in ks}
        if a[0] != b[0] and a[1] == b[1]:
            out.add(("zero", "int"))
    elif ra != rb:
        out = {("nonreal", k) for k in _nonreal_kinds(ks)}
    else:
        out = {("nonreal", k) for k in _nonreal_kinds(ks)}
        out |= {(s, k) for s in ("neg", "pos") for k in ks}
        if a[1] == b[1]:
            out.add(("zero", "int"))
    return out


def world_prod(a, b):
    if "inf" in (a[0], b[0]):
        return set() if "zero" in (a[0], b[0]) else {("inf", "inf")}
    if "zero" in (a[0], b[0]):
        return {("zero", "int")}
    ks = _kinds_mul(a[1], b[1])
    ra, rb = a[0] != "nonreal", b[0] != "nonreal"
    if ra and rb:
        s = "pos" if a[0] == b[0] else "neg"
        return {(s, k) for k in ks}
    if ra != rb:
        return {("nonreal", k) for k in _nonreal_kinds(ks)}
    return {("nonreal", k) for k in _nonreal_kinds(ks)} \
        | {(s, k) for s in ("neg", "pos") for k in ks}


def consistent(value, query, world):
    """a sound sub-answer `value` to `query` about an object in `world`"""
    q = QUERIES.get(query)
    if q is None:
        return None
    if value == "T":
        return q(world)
    if value == "F":
        return not q(world)
    return True


ONE = ("pos", "int", "one")          # the exponent 1 (a positive integer)


def unsound_worlds(lv, meta, member, own, op, objects, extra=None,
                   result=None, slot_worlds=None):
    """objects: {object text -> slot number | fixed world}; every tribool
    variable of a leaf must ask a known query about one of them.  `extra`
    (optional) maps the boolean atoms of a leaf to the world of one more
    operand (the numeric coefficient) or None if it cannot interpret them.
    Yields (assignment, answer, child worlds, offending result world) for
    definite answers that some attainable value of the node contradicts."""
    import itertools
    q_own = QUERIES[own]
    slots = sorted({v for v in objects.values() if isinstance(v, int)}
                   | {v[1] for v in objects.values()
                      if isinstance(v, tuple) and v and v[0] == "derived"})
    for a, outs in lv:
        r = result_of(outs, member)
        if r not in ("T", "F"):
            continue
        cons = []
        ok = True
        bools = {k: v for k, v in a.items() if k.startswith("bool:")}
        first = None
        if bools and result is None:
            first = extra(bools) if extra else None
            if first is None:
                continue
        for k, v in a.items():
            if k.startswith("bool:"):
                continue
            m = meta.get(k)
            if m is None or m[0] not in objects or m[1] not in QUERIES:
                if v != "I":
                    ok = False
                    break
                continue
            cons.append((objects[m[0]], m[1], v))
        if not ok:
            continue
        sigs = set()
        def world_of(s, wmap):
            if isinstance(s, int):
                return wmap[s]
            if s and s[0] == "derived":
                return s[2](wmap[s[1]])
            return s

        def ok_all(wmap):
            for s, q, v in cons:
                w = world_of(s, wmap)
                if w is None:
                    if v != "I":
                        return False
                    continue
                if not consistent(v, q, w):
                    return False
            return True
        pools = [(slot_worlds or {}).get(sl, WORLDS) for sl in slots]
        for ws in itertools.product(*pools):
            wmap = dict(zip(slots, ws))
            if not ok_all(wmap):
                continue
            seq = ([first] if first else []) + list(ws)
            if result is not None:
                # the caller computes the node's attainable worlds from the
                # boolean atoms (signs of numeric coefficients) and the
                # operand worlds; None = cannot interpret this leaf
                rr = result(bools, dict(wmap))
                if rr is None:
                    continue
                if isinstance(rr, list):
                    # alternatives (e.g. several possible coefficients): each
                    # is attainable on its own; take the first that exposes
                    # an unsound answer
                    pick = None
                    for seq_, res_ in rr:
                        if any(q_own(w) != (r == "T") for w in res_):
                            pick = (seq_, res_)
                            break
                    if pick is None:
                        continue
                    seq, res = pick
                else:
                    seq, res = rr
            else:
                res = {seq[0]}
                for w in seq[1:]:
                    res = set().union(*[op(x, w) for x in res]) \
                        if res else set()
            bad = [w for w in res if q_own(w) != (r == "T")]
            sg = tuple(w[0] for w in seq)
            if bad and sg not in sigs:
                sigs.add(sg)
                yield a, r, seq, sorted(bad)[0]


def world_pow(b, e):
    """attainable worlds of b**e for an integer exponent world e (empty set =
    no claim)"""
    if len(e) == 3:                 # the exponent one
        return {b}
    if e == ("zero", "int"):
        return {("pos", "int")} if b[0] not in ("inf",) else set()
    if e[1] != "int" or e[0] not in ("pos", "neg") or b[0] == "inf":
        return set()
    if b[0] == "zero":
        # 0**(negative integer) is the unsigned infinity
        return {("zero", "int")} if e[0] == "pos" else {("inf", "inf")}
    signs = {"pos": {"pos"}, "neg": {"pos", "neg"},
             "nonreal": {"nonreal", "pos", "neg"}}[b[0]]
    if e[0] == "pos":
        kinds = {"int": {"int"}, "rat": {"rat"},
                 "alg": {"int", "rat", "alg"}, "transc": {"transc"}}[b[1]]
    else:
        kinds = {"int": {"int", "rat"}, "rat": {"int", "rat"},
                 "alg": {"int", "rat", "alg"}, "transc": {"transc"}}[b[1]]
    out = set()
    for s_ in signs:
        for k in kinds:
            if s_ == "nonreal":
                out.add(("nonreal", "transc" if k == "transc" else "alg"))
            else:
                out.add((s_, k))
    return out
