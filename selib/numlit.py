"""Numeric-literal reading rules shared by C16 (round trip) and C17 (syntax):
every string->integer conversion below Parser::parse_numeric uses base 10, and
a strtol result is only used where errno != ERANGE holds."""
from .program import walk, show, short
from .build import AnalysisBroken

# (function name) -> index of the base argument
BASE_ARG = {"strtol": 2, "strtoll": 2, "strtoul": 2, "strtoull": 2,
            "strtoimax": 2, "strtoumax": 2, "stoi": 2, "stol": 2, "stoll": 2,
            "stoul": 2, "stoull": 2, "mpz_set_str": 2, "mpz_init_set_str": 2,
            "fmpz_set_str": 2, "mpq_set_str": 2,
            # gmp.h defines the mpz_* names as macros for these
            "__gmpz_set_str": 2, "__gmpz_init_set_str": 2,
            "__gmpq_set_str": 2, "__gmpf_set_str": 2}
CTOR_BASE = {"SymEngine::mpz_wrapper": 1, "SymEngine::mpq_wrapper": 1,
             "__gmp_expr<__mpz_struct[1], __mpz_struct[1]>": 1}

def lit_value(n):
    while n is not None and n.get("k") in ("defarg", "cast"):
        n = n["a"][0] if n.get("a") else None
    if n is not None and n.get("k") == "lit" and n.get("t") == "int":
        return str(n.get("v"))
    return None


def reachable(prog, root, depth=4):
    seen = {root["u"]: root}
    frontier = [root]
    for _ in range(depth):
        nxt = []
        for f in frontier:
            for n in walk(f["body"]):
                u = n.get("u")
                if n.get("k") in ("call", "mcall", "ctor", "op") and u \
                        and u in prog.functions and u not in seen:
                    g = prog.functions[u]
                    if g.get("file", "").startswith("/usr"):
                        continue
                    seen[u] = g
                    nxt.append(g)
        frontier = nxt
    return list(seen.values())



def literal_rules(prog, R, RID1, RID4):
    pn = prog.one_fn("SymEngine::Parser::parse_numeric")
    conv = 0
    reach = reachable(prog, pn)
    for f in reach:
        for n in walk(f["body"]):
            k = n.get("k")
            idx = None
            what = None
            if k == "call" and n.get("n") in BASE_ARG:
                idx = BASE_ARG[n["n"]]
                what = n["n"]
            elif k == "ctor":
                t = n.get("t", "").replace("const ", "")
                if t in CTOR_BASE and len(n.get("a", ())) == 2 \
                        and "basic_string" in (prog.header(n.get("u", ""))
                                               .get("params", [{}])[0]
                                               .get("t", "")):
                    idx = CTOR_BASE[t]
                    what = short(t) + "(string, base)"
            if idx is None:
                continue
            conv += 1
            key = "%s@%s:%s" % (what, short(f["qn"]), n.get("l"))
            args = n.get("a", [])
            base = lit_value(args[idx]) if len(args) > idx else "10"
            R.instance(RID1, key, sample={"call": show(n)[:120],
                                             "base": base})
            if base is None and len(args) > idx:
                b = args[idx]
                while b.get("k") in ("cast", "defarg") and b.get("a"):
                    b = b["a"][0]
                if b.get("k") == "ref" and b.get("d") == "param":
                    # the base is a parameter of the wrapper: the obligation
                    # moves to every call of the wrapper in the reachable set
                    pi = b.get("i")
                    okall = True
                    for g in reach:
                        for m in walk(g["body"]):
                            if m.get("u") == f["u"] and m.get("k") in (
                                    "call", "mcall", "ctor"):
                                ma = m.get("a", [])
                                bv = lit_value(ma[pi]) if len(ma) > pi \
                                    else None
                                if bv != "10":
                                    okall = False
                                    R.violation(
                                        RID1, "%s@%s" % (
                                            short(f["qn"]), short(g["qn"])),
                                        prog.loc(g, m.get("l")),
                                        "%s passes base `%s` to %s, which "
                                        "forwards it to %s" % (
                                            short(g["qn"]),
                                            show(ma[pi]) if len(ma) > pi
                                            else "?", short(f["qn"]), what))
                    if okall:
                        continue
            if base != "10":
                R.violation(
                    RID1, "%s@%s" % (what, short(f["qn"])),
                    prog.loc(f, n.get("l")),
                    "%s converts a numeric literal with base `%s` (not the "
                    "constant 10): base 0 auto-detects octal/hex, so "
                    "leading zeros change the value"
                    % (show(n)[:100], base if base is not None
                       else show(args[idx])))
    R.floor("string->integer conversions under parse_numeric", conv, 1)

    strtol_range_rule(prog, R, RID4, reach, floor=1)


def strtol_range_rule(prog, R, RID4, reach, floor=0):
    """strtol saturates on overflow: its result may only be used where
    errno != ERANGE has been established (and errno was cleared before); a
    result that is used directly (not stored) cannot be checked at all."""
    # strtol saturates on overflow: its result may only be used where
    # errno != ERANGE has been established (and errno was cleared before)
    from selib import sym as _sym
    nrange = 0

    def is_errno(e):
        return any(x.get("k") == "call" and x.get("n") == "__errno_location"
                   for x in walk(e))
    for f in reach:
        for d in walk(f["body"]):
            if d.get("k") != "decl":
                continue
            for v in d.get("v", ()):
                i = v.get("i")
                while i is not None and i.get("k") == "cast":
                    i = i["a"][0]
                if not (i is not None and i.get("k") == "call"
                        and i.get("n") in ("strtol", "strtoll", "strtoul",
                                           "strtoull")):
                    continue
                nrange += 1
                var = v["n"]
                key = "%s:%s" % (short(f["qn"]), var)
                cleared = any(
                    n.get("k") in ("bin", "op") and n.get("op") == "="
                    and n.get("a") and is_errno(n["a"][0])
                    and (n.get("l") or 0) < (d.get("l") or 0)
                    for n in walk(f["body"]))
                bad_use = []

                def cb(n, guards, line, var=var):
                    if n.get("k") == "ref" and n.get("n") == var \
                            and n.get("d") == "local":
                        ok = False
                        for g in _sym.flatten_guards(guards):
                            if g[0] == "case":
                                continue
                            c, pol = g
                            if c.get("k") in ("bin", "op") \
                                    and c.get("op") in ("!=", "==") \
                                    and is_errno(c) \
                                    and any(lit_value(x) == "34"
                                            for x in c.get("a", ())):
                                if (c["op"] == "!=") == bool(pol):
                                    ok = True
                        if not ok:
                            bad_use.append(line or n.get("l"))
                _sym.visit_guarded(f["body"], cb)
                # consumption: the end pointer tells how much of the token
                # was converted; a discarded or untested end pointer lets a
                # token with a suffix (1E5) be truncated silently
                endarg = i["a"][1] if len(i.get("a", ())) > 1 else None
                endvar = None
                if endarg is not None:
                    for x in walk(endarg):
                        if x.get("k") == "ref" and x.get("d") == "local":
                            endvar = x["n"]
                unconsumed = []
                if endvar is None:
                    unconsumed = [d.get("l")]
                else:
                    def cb2(n, guards, line, var=var, endvar=endvar):
                        if n.get("k") == "ref" and n.get("n") == var \
                                and n.get("d") == "local":
                            if not any(
                                    g[0] != "case" and any(
                                        y.get("k") == "ref"
                                        and y.get("n") == endvar
                                        for y in walk(g[0]))
                                    for g in _sym.flatten_guards(guards)):
                                unconsumed.append(line or n.get("l"))
                    _sym.visit_guarded(f["body"], cb2)
                R.instance(RID4, key, sample={
                    "result_variable": var, "errno_cleared_before": cleared,
                    "unguarded_uses": bad_use, "end_pointer": endvar,
                    "uses_without_consumption_test": unconsumed})
                if unconsumed:
                    R.violation(
                        RID4, key + ":consumed",
                        prog.loc(f, unconsumed[0]),
                        "%s uses the result `%s` of %s %s: the conversion "
                        "stops at the first character it does not "
                        "understand, so a token with a suffix (an exponent "
                        "it does not know, a letter) silently becomes its "
                        "prefix" % (
                            short(f["qn"]), var, i["n"],
                            "whose end pointer is discarded"
                            if endvar is None else
                            "where the end pointer `%s` has not been "
                            "tested (line %s)" % (endvar, unconsumed[0])))
                if not cleared or bad_use:
                    R.violation(
                        RID4, key, prog.loc(f, bad_use[0] if bad_use
                                               else d.get("l")),
                        "%s uses the result `%s` of %s %s: strtol saturates "
                        "at LONG_MAX/LONG_MIN on overflow, so a literal "
                        "outside the range of long silently becomes another "
                        "number" % (
                            short(f["qn"]), var, i["n"],
                            "without clearing errno first" if not cleared
                            else "where errno != ERANGE has not been "
                                 "established (line %s)" % bad_use[0]))
    # results used directly, without being stored first
    STR = ("strtol", "strtoll", "strtoul", "strtoull")
    for f in reach:
        stored = set()
        for d in walk(f["body"]):
            if d.get("k") == "decl":
                for v in d.get("v", ()):
                    i = v.get("i")
                    while i is not None and i.get("k") == "cast":
                        i = i["a"][0]
                    if i is not None and i.get("k") == "call" \
                            and i.get("n") in STR:
                        stored.add(id(i))
        for n in walk(f["body"]):
            if n.get("k") == "call" and n.get("n") in STR \
                    and id(n) not in stored:
                nrange += 1
                key = "%s:direct@%s" % (short(f["qn"]), n.get("l"))
                R.instance(RID4, key, sample={"call": show(n)[:60],
                                              "stored": False})
                R.violation(
                    RID4, key, prog.loc(f, n.get("l")),
                    "%s uses the value of `%s` directly: strtol saturates "
                    "at LONG_MAX/LONG_MIN on overflow and without storing "
                    "the result errno cannot be consulted, so a value "
                    "outside the range of long silently becomes another "
                    "number" % (short(f["qn"]), show(n)[:60]))
    if floor:
        R.floor("strtol results checked for range", nrange, floor)
    return nrange

