#!/usr/bin/env python3
"""Regenerates the seeded-change table of DESIGN.md (§11) from
seeded/*/meta.json, between the SEEDTABLE markers."""
import glob, json, os, re
HERE = os.path.dirname(os.path.dirname(os.path.abspath(__file__)))
rows = []
stats = {"as delivered": 0, "after": 0, "missed": 0}
for d in sorted(glob.glob(os.path.join(HERE, "seeded", "*"))):
    m = json.load(open(os.path.join(d, "meta.json")))
    name = os.path.basename(d)
    exp = m.get("expected_detection", "")
    note = (m.get("note") or "").replace("|", "/")
    what = (m.get("breaks") or "").replace("|", "/").replace("\n", " ")
    what = re.sub(r"\s+", " ", what)[:150]
    if exp.startswith("missed"):
        caught = "— (missed)"
        stats["missed"] += 1
    else:
        caught = exp.replace("violation ", "")
        if "as delivered" in note and "missed at first" not in note:
            stats["as delivered"] += 1
        else:
            stats["after"] += 1
    rows.append("| %s | %s | %s | %s | %s |" % (name, m["property"], what,
                                                caught, note[:230]))
table = ["| seed | property | what it breaks | caught by (rule key) | note |",
         "|---|---|---|---|---|"] + rows
summary = ("%d seeded changes: %d caught as delivered, %d after a rule was "
           "added or an engine/table repaired, %d missed (kept with "
           "expectation `missed`)." % (len(rows), stats["as delivered"],
                                       stats["after"], stats["missed"]))
p = os.path.join(HERE, "DESIGN.md")
s = open(p).read()
b, e = "<!-- SEEDTABLE:BEGIN -->", "<!-- SEEDTABLE:END -->"
if b in s:
    s = s[:s.index(b) + len(b)] + "\n" + summary + "\n\n" + "\n".join(table) \
        + "\n" + s[s.index(e):]
    open(p, "w").write(s)
print(summary)
