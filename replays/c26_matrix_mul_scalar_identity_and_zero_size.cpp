#include <symengine/matrices/matrix_mul.h>
#include <symengine/matrices/identity_matrix.h>
#include <symengine/matrices/zero_matrix.h>
#include <symengine/matrices/matrix_symbol.h>
#include <symengine/matrices/immutable_dense_matrix.h>
#include <symengine/matrices/size.h>
#include <symengine/integer.h>
#include <iostream>
using namespace SymEngine;
int main(){
    int bad=0;
    auto I2 = identity_matrix(integer(2));
    auto r = matrix_mul({integer(2), I2, I2});
    std::cout << "2*I*I = " << r->__str__() << std::endl;
    if (eq(*r, *I2)) { std::cout << "  scalar 2 dropped\n"; bad++; }
    auto Z = zero_matrix(integer(2), integer(3));
    auto A = matrix_symbol("A");
    auto D = immutable_dense_matrix(3,4,{integer(1),integer(2),integer(3),integer(4),integer(1),integer(2),integer(3),integer(4),integer(1),integer(2),integer(3),integer(4)});
    auto z = matrix_mul({Z, D});
    auto sz = size(*z);
    std::cout << "Zero(2x3)*D(3x4) = " << z->__str__() << " size " << sz.first->__str__() << "x" << sz.second->__str__() << std::endl;
    if (!eq(*sz.second, *integer(4))) { std::cout << "  wrong size\n"; bad++; }
    return bad;
}
