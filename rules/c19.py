"""C19 — serialization round trip: writer/reader agreement.

R19.1 pairing      a TypeID that dumps (non-stub saver) also loads
R19.2 sequence     typed archive-operation sequences of saver and loader agree
R19.3 routing      the k-th saved member is fed back into the same member
R19.4 doubles      floating members are archived as binary doubles
R19.5 sharing      (address, first_seen) protocol is paired in both directions
"""
from selib import sym
from selib.program import walk, show, short, strip_type
from selib import archive as AR
from selib.printers import enum_to_class
from selib.build import AnalysisBroken

FLOAT = {"double", "float", "long double", "std::complex<double>",
         "std::complex<float>"}


def cat_compatible(prog, s, l):
    """saver category s can be read back as loader category l"""
    if s == l:
        return True
    if s.startswith("rcp:") and l.startswith("rcp:"):
        return prog.derives(s[4:], l[4:])
    return False


def ctor_param_members(prog, cls, nargs, depth=0):
    """{param index: member name} for the constructor of cls with nargs
    parameters, following member initialisers and base-class initialisers"""
    cands = [f for f in prog.functions.values()
             if f.get("ctor") and f.get("cls") == cls
             and len(f.get("params", ())) == nargs and not f.get("dependent")]
    if len(cands) != 1:
        return None
    f = cands[0]
    pidx = {p["n"]: i for i, p in enumerate(f["params"])}
    out = {}

    def param_of(e):
        while e is not None and e.get("k") in ("ctor", "call", "cast"):
            if e.get("k") == "call" and e.get("n") not in ("move", "forward"):
                return None
            if not e.get("a") or len(e["a"]) != 1:
                return None
            e = e["a"][0]
        if e is not None and e.get("k") == "ref" and e.get("d") == "param":
            return pidx.get(e["n"])
        return None
    for ini in f.get("inits", ()):
        e = ini.get("e")
        if "m" in ini:
            i = param_of(e)
            if i is not None:
                out[i] = ini["m"]
        elif "base" in ini and e is not None and e.get("k") == "ctor" \
                and depth < 4:
            base = strip_type(ini["base"])
            sub = ctor_param_members(prog, base, len(e.get("a", ())),
                                     depth + 1)
            if sub:
                for j, a in enumerate(e["a"]):
                    i = param_of(a)
                    if i is not None and j in sub:
                        out[i] = sub[j]
    return out


def strip_wrappers(a):
    while a is not None and a.get("k") in ("call", "ctor", "cast") \
            and a.get("a") and len(a["a"]) == 1 \
            and (a.get("k") != "call" or a.get("n") in ("move", "forward")):
        a = a["a"][0]
    return a


def route_call(prog, call, depth=0):
    """{argument index: member name} for a construction expression: either
    make_rcp<const K>(args...) or a factory whose body forwards its
    parameters to one (depth <= 2)"""
    if call is None:
        return None, None
    if call.get("k") == "ctor" and len(call.get("a", ())) == 1:
        return route_call(prog, call["a"][0], depth)
    if call.get("k") != "call":
        return None, None
    if call.get("n") == "make_rcp" and call.get("ta"):
        K = strip_type(call["ta"][0])
        pm = ctor_param_members(prog, K, len(call.get("a", ())))
        return pm, K
    g = prog.functions.get(call.get("u", ""))
    if g is None or depth >= 2 or not g.get("body"):
        return None, None
    pidx = {p["n"]: i for i, p in enumerate(g.get("params", ()))}
    inner = [n for n in walk(g["body"]) if n.get("k") == "call"
             and n.get("n") == "make_rcp" and n.get("ta")]
    if len(inner) != 1:
        return None, None
    pm, K = route_call(prog, inner[0], depth + 1)
    if not pm:
        return None, None
    out = {}
    for j, a in enumerate(inner[0].get("a", ())):
        a = strip_wrappers(a)
        if a is not None and a.get("k") == "ref" and a.get("d") == "param" \
                and j in pm and a["n"] in pidx:
            out[pidx[a["n"]]] = pm[j]
    return out, K


def run(loader, R, tier):
    prog = loader()
    P = sym.Paths(prog)
    R.explanation = (
        "Writer/reader agreement of the cereal serializer, decided on the "
        "instantiated AST: the save_basic/load_basic overload clang resolved "
        "for each TypeID inside the two archive switches, the typed sequence "
        "of archive operations in each (helpers inlined), and the routing "
        "of each saved member through the loader's constructor call back "
        "into the same member. A canonicalising loader reproducing an equal "
        "object (Rational::from_two_ints ...) is value-level and not "
        "decided.")
    for rid, t in (("R19.1", "non-stub saver => non-stub loader"),
                   ("R19.2", "typed archive sequences agree"),
                   ("R19.3", "k-th saved member initialises the same "
                             "member on load"),
                   ("R19.4", "floating members archived as double"),
                   ("R19.5", "address/first_seen sharing protocol paired")):
        R.rule(rid, t)
    R.trusted += ["cereal's container (de)serializers are inverse to each "
                  "other for equal element categories"]

    sf, stab, sdefault = AR.saver_table(prog)
    lf, ltab, decode_sw, alias_sw = AR.loader_table(prog)
    e2c = enum_to_class(prog)
    supported = 0
    for enum in sorted(stab):
        s = prog.functions.get(stab[enum])
        l = prog.functions.get(ltab.get(enum, ""))
        if s is None:
            raise AnalysisBroken("saver body missing for " + enum)
        sstub = AR.is_throwing_stub(s)
        if enum not in ltab or l is None:
            if not sstub:
                R.violation("R19.1", enum, prog.loc(s),
                            "%s is saved but load_rcp_basic has no loader "
                            "case for it" % enum)
            continue
        lstub = AR.is_throwing_stub(l)
        R.instance("R19.1", enum, nontrivial=not sstub,
                   sample={"type": enum, "saver": short(s["qn"])[:60],
                           "saver_is_stub": sstub, "loader_is_stub": lstub})
        if sstub:
            continue
        supported += 1
        if lstub:
            R.violation(
                "R19.1", enum, prog.loc(l),
                "%s can be dumped (saver %s) but the load_basic overload "
                "that load_rcp_basic resolves for it only throws: dumps() "
                "output cannot be loaded"
                % (enum, prog.loc(s)))
            continue
        sops = AR.archive_ops(prog, s)
        lops = AR.archive_ops(prog, l)
        sc = [c for c, _, _, _ in sops]
        lc = [c for c, _, _, _ in lops]
        R.instance("R19.2", enum, nontrivial=bool(sc),
                   sample={"type": enum, "saved": [short(c) for c in sc],
                           "loaded": [short(c) for c in lc]})
        ok = len(sc) == len(lc) and all(
            cat_compatible(prog, a, b) for a, b in zip(sc, lc)) and \
            [x[3] for x in sops] == [x[3] for x in lops]
        if not ok:
            R.violation(
                "R19.2", enum, prog.loc(l),
                "%s: saver archives [%s] but loader reads [%s]"
                % (enum, ", ".join(short(c) for c in sc),
                   ", ".join(short(c) for c in lc)))
            continue
        # ---------------------------------------------------- R19.3
        cls = e2c.get(enum)
        bname = s["params"][1]["n"] if len(s.get("params", ())) > 1 else None
        saved_members = []
        for c, e, line, inloop in sops:
            r = P.norm(e, {})
            if r and r[0] == "param:%s" % bname and r[1] \
                    and not r[1][-1].endswith("()"):
                saved_members.append(r[1][-1] if len(r[1]) == 1
                                     else ".".join(r[1]))
            else:
                saved_members.append(None)
        loaded_vars = []
        for c, e, line, inloop in lops:
            loaded_vars.append(e.get("n") if e.get("k") == "ref" else None)
        ret = None
        for n in walk(l["body"]):
            if n.get("k") == "return" and n.get("e"):
                ret = n["e"]
        while ret is not None and ret.get("k") in ("ctor", "cast") \
                and len(ret.get("a", ())) == 1:
            ret = ret["a"][0]
        if ret is None or ret.get("k") != "call" or cls is None \
                or None in saved_members or None in loaded_vars \
                or any(x[3] for x in sops) or not sops:
            R.undecided_obligation(
                "R19.3", enum, "nothing archived, or values are computed / "
                "archived in a loop; routing not decided")
            continue
        args = []
        for a in ret.get("a", ()):
            a = strip_wrappers(a)
            if a is not None and a.get("k") in ("un", "op") \
                    and a.get("op") == "*":
                a = strip_wrappers(a["a"][0])
            args.append(a.get("n") if a is not None
                        and a.get("k") == "ref" else None)
        pm, K = route_call(prog, ret)
        if not pm:
            R.undecided_obligation(
                "R19.3", enum, "construction %s not resolved to member "
                "initialisers" % show(ret)[:50])
            continue
        R.instance("R19.3", enum, sample={
            "type": enum, "saved_members": saved_members,
            "loaded_vars": loaded_vars, "ctor_args": args,
            "ctor_param_members": {str(k): v for k, v in pm.items()}})
        for k, (m, v) in enumerate(zip(saved_members, loaded_vars)):
            if v not in args:
                continue
            j = args.index(v)
            tgt = pm.get(j)
            if tgt is None:
                continue
            if tgt != m:
                R.violation(
                    "R19.3", enum, prog.loc(l),
                    "%s: the %d-th archived value is member `%s` but the "
                    "loader passes the %d-th value read (`%s`) to the "
                    "constructor parameter that initialises `%s`"
                    % (enum, k + 1, m, k + 1, v, tgt))
        # ---------------------------------------------------- R19.4
    R.floor("TypeIDs in the save switch", len(stab), 100)
    R.floor("TypeIDs with a non-stub saver", supported, 70)
    R.floor("R19.3 decided routings", R.instances.get("R19.3", 0), 30)

    # R19.4 floating members
    for enum, su in sorted(stab.items()):
        cls = e2c.get(enum)
        s = prog.functions.get(su)
        if not cls or s is None or AR.is_throwing_stub(s):
            continue
        ff = [f for c, f in prog.fields(cls)
              if strip_type(f["t"]) in FLOAT]
        if not ff:
            continue
        cats = [c for c, _, _, _ in AR.archive_ops(prog, s)]
        R.instance("R19.4", enum, sample={"type": enum, "float_members": [
            f["n"] for f in ff], "archived": cats})
        if not any(c in ("double", "float", "long double")
                   or c.startswith("rcp:") for c in cats):
            R.violation(
                "R19.4", enum, prog.loc(s),
                "%s has floating member(s) %s but archives only [%s]: the "
                "value goes through text and is not bit-for-bit preserved"
                % (enum, [f["n"] for f in ff], ", ".join(cats)))
    R.floor("classes with floating members", R.instances.get("R19.4", 0), 2)

    # ---------------------------------------------------------- R19.8
    # floating values are restored from their archived parts as they are:
    # a loader that recombines parts arithmetically (re + I*im) must have
    # excluded floating parts on that path (inf and signed zeros do not
    # survive the arithmetic)
    R.rule("R19.8", "no loader recombines floating parts arithmetically")
    from selib import sym as _sym8
    ARITH = ("addnum", "mulnum", "subnum", "divnum", "add", "mul", "sub",
             "div")
    n8 = 0
    for f in prog.functions.values():
        if f["n"] != "load_basic" or not f.get("body") \
                or f.get("tk") != "inst" or len(f.get("params", ())) < 2:
            continue
        K = strip_type(f["params"][1]["t"]).replace(
            "SymEngine::RCP<const SymEngine::", "").rstrip(">").strip()
        if K not in ("ComplexDouble", "RealDouble"):
            continue

        def cb8(n, guards, line, f=f, K=K):
            nonlocal n8
            if not (n.get("k") == "call" and n.get("n") in ARITH):
                return
            n8 += 1
            ok = False
            for g in _sym8.flatten_guards(guards):
                if g[0] == "case":
                    continue
                c, pol = g
                t = show(c)
                if "RealDouble" in t and "is_a" in t and not pol:
                    ok = True
            R.instance("R19.8", "%s:%s@%s" % (K, n["n"], n.get("l")))
            if not ok:
                R.violation(
                    "R19.8", K, prog.loc(f, n.get("l")),
                    "load_basic<%s> rebuilds the value with `%s`: in "
                    "floating point re + I*im is not the identity "
                    "((1, inf) becomes (nan, inf), (-0.0, 2) becomes "
                    "(0.0, 2)), so a dumped %s does not come back "
                    "bit for bit" % (K, show(n)[:50], K))
        _sym8.visit_guarded(f["body"], cb8)
    R.floor("arithmetic reconstructions in floating loaders", n8, 1)

    # ---------------------------------------------------------- R19.7
    # a loader may reject only what no saver can have written: an
    # emptiness test that throws is legitimate for the node classes that
    # cannot be empty (the frozen, replayed table of C20 R20.12) or whose
    # is_canonical rejects an empty container; a zero-argument
    # FunctionSymbol c() is a valid expression and must load
    R.rule("R19.7", "loaders reject an empty container only for classes "
                    "that cannot be empty")
    from rules.c20 import NONEMPTY_CLASSES
    nrej = 0
    for f in prog.functions.values():
        if f["n"] != "load_basic" or not f.get("body") \
                or f.get("tk") != "inst" or len(f.get("params", ())) < 2:
            continue
        K = strip_type(f["params"][1]["t"]).replace(
            "SymEngine::RCP<const SymEngine::", "").rstrip(">").strip()
        rej = [n for n in walk(f["body"]) if n.get("k") == "if"
               and any(y.get("k") == "mcall" and y.get("n") in ("empty",)
                       for y in walk(n.get("c") or {}))
               and any(y.get("k") == "throw" for y in walk(n.get("t") or {}))]
        if not rej:
            continue
        nrej += 1
        ok = K in NONEMPTY_CLASSES
        if not ok:
            for g in prog.fn_by_qn("SymEngine::%s::is_canonical" % K):
                if any(y.get("k") == "mcall" and y.get("n") in ("size",
                                                                "empty")
                       for y in walk(g.get("body") or {})):
                    ok = True
        R.instance("R19.7", K, sample={"class": K, "may_reject_empty": ok})
        if not ok:
            R.violation(
                "R19.7", K, prog.loc(f, rej[0].get("l")),
                "load_basic rejects a %s with an empty container, but "
                "nothing says a %s cannot be empty (no is_canonical size "
                "test, not in the table of classes that cannot be empty): "
                "an expression the library builds and dumps (a function "
                "symbol without arguments) no longer loads" % (K, K))
    R.floor("loaders that reject empty containers", nrej, 7)

    # ---------------------------------------------------------- R19.6
    # integers are archived as decimal strings of arbitrary length: the
    # loader must not route them through a machine-word conversion that
    # saturates (strtol family) unless it checks the range
    from selib.numlit import strtol_range_rule
    ser = [f for f in prog.functions.values()
           if f.get("file", "").endswith("serialize-cereal.h")
           and f.get("body") and not f.get("dependent")
           and f.get("tk") != "pattern"]
    R.rule("R19.6", "archived integers are not read through an unchecked "
                    "strtol-family conversion")
    nst = strtol_range_rule(prog, R, "R19.6", ser)
    R.instance("R19.6", "serialize-cereal.h functions scanned",
               nontrivial=False, sample={"functions": len(ser),
                                         "strtol_family_calls": nst})

    # ---------------------------------------------------------- R19.5
    sops = AR.archive_ops(prog, sf, arname="this")
    lops = AR.archive_ops(prog, lf, arname="this")
    R.instance("R19.5", "save_rcp_basic", sample={
        "ops": [show(e) for _, e, _, _ in sops][:4]})
    R.instance("R19.5", "load_rcp_basic", sample={
        "ops": [show(e) for _, e, _, _ in lops][:4]})
    if [c for c, _, _, _ in sops][:2] != ["unsigned long", "unsigned char"] \
            or [c for c, _, _, _ in lops][:2] != ["unsigned long",
                                                  "unsigned char"]:
        R.violation("R19.5", "header", prog.loc(sf),
                    "save_rcp_basic/load_rcp_basic do not both start with "
                    "(address, first_seen): saver %s, loader %s"
                    % ([c for c, _, _, _ in sops][:2],
                       [c for c, _, _, _ in lops][:2]))
    ins = [n for n in walk(sf["body"]) if n.get("k") == "mcall"
           and n.get("n") in ("insert", "emplace")
           and (n.get("o") or {}).get("m") == "_addresses"]
    if not ins:
        R.violation("R19.5", "save:record", prog.loc(sf),
                    "save_rcp_basic never records the address in "
                    "_addresses: shared sub-expressions are re-serialised "
                    "and not restored as shared")
    # the early return for an already-seen object must be under !first_seen
    ok_ret = False

    def cb(n, guards, line):
        pass
    for st in sf["body"].get("s", []):
        if st.get("k") == "if" and sym.always_exits(st.get("t")):
            c = st.get("c")
            if c.get("k") == "un" and c.get("op") == "!" \
                    and c["a"][0].get("n") == "first_seen":
                ok_ret = True
    if not ok_ret:
        R.violation("R19.5", "save:early-return", prog.loc(sf),
                    "save_rcp_basic has no early return under !first_seen")
    # address identity: an address written to the archive identifies an
    # object only while that object is alive.  Serialised objects may be
    # temporaries (Complex::real_part(), Rational::get_num()), so the saver
    # must pin *every* first-seen object for the archive's lifetime: the
    # keep-alive push must be a top-level statement of save_rcp_basic (on
    # every path past the early return), not under a condition.
    top_push = [st for st in sf["body"].get("s", [])
                if st.get("k") == "expr" and any(
                    n.get("k") == "mcall"
                    and n.get("n") in ("push_back", "emplace_back", "insert")
                    and "keep" in ((n.get("o") or {}).get("m") or "")
                    for n in walk(st))]
    any_push = [n for n in walk(sf["body"]) if n.get("k") == "mcall"
                and n.get("n") in ("push_back", "emplace_back", "insert")
                and "keep" in ((n.get("o") or {}).get("m") or "")]
    R.instance("R19.5", "save:keep-alive", sample={
        "keep_alive_pushes": len(any_push),
        "unconditional": bool(top_push)})
    if not top_push:
        R.violation(
            "R19.5", "save:keep-alive", prog.loc(sf, any_push[0].get("l")
                                                  if any_push else None),
            "save_rcp_basic does not keep every first-seen object alive "
            "for the lifetime of the archive (%s): a temporary can be freed "
            "and its address reused by another object, which is then "
            "written as 'already seen' and restored as the wrong value"
            % ("the keep-alive push is conditional" if any_push
               else "no keep-alive push"))
    # loader: every decoding case registers the object under addr
    reg_missing = []
    ncase = 0
    for enum, stmts in AR.switch_cases(decode_sw):
        if enum is None:
            continue
        ncase += 1
        reg = False
        for s in stmts:
            for n in walk(s):
                if n.get("k") == "op" and n.get("op") == "=" and n.get("a"):
                    lhs = n["a"][0]
                    if lhs.get("k") == "op" and lhs.get("op") == "[]" \
                            and lhs["a"][0].get("m") == "_rcp_map" \
                            and lhs["a"][1].get("n") == "addr":
                        reg = True
        if not reg:
            reg_missing.append(enum)
    R.instance("R19.5", "decode-cases", sample={"cases": ncase})
    if reg_missing:
        R.violation("R19.5", "load:register", prog.loc(lf),
                    "load_rcp_basic does not register the loaded object in "
                    "_rcp_map[addr] for %s: later references to the shared "
                    "object fail" % reg_missing[:5])
    # alias path returns it->second looked up by addr
    finds = [n for n in walk(lf["body"]) if n.get("k") == "mcall"
             and n.get("n") == "find"
             and (n.get("o") or {}).get("m") == "_rcp_map"]
    if not finds or finds[0]["a"][0].get("n") != "addr":
        R.violation("R19.5", "load:lookup", prog.loc(lf),
                    "load_rcp_basic does not look shared objects up by "
                    "their address")
    R.floor("decode cases", ncase, 100)


MANIFEST = dict(
    technique="writer/reader agreement over the instantiated AST: resolved "
              "overload per TypeID, typed archive-operation sequences, "
              "constructor-parameter routing",
    text="Decides for every TypeID that the serializer's writer and reader "
         "agree: a type that dumps also loads; the typed sequence of "
         "archive operations is the same on both sides (helpers inlined, "
         "loops matched); each saved member is routed by the loader's "
         "constructor call back into the same member (so swapped fields are "
         "caught); floating members go through binary doubles; the "
         "(address, first_seen) sharing protocol is paired. Equality of the "
         "object rebuilt by canonicalising factories is value-level and is "
         "not decided; DenseMatrix::loads is covered through the same "
         "element protocol only.",
    note="Trusted: cereal's container serializers are mutually inverse; "
         "clang's overload resolution inside the instantiated switches.",
    ref="§2 C19",
)
