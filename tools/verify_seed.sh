#!/bin/bash
# usage: tools/verify_seed.sh <patch> <demo.cpp> <outdir>
# Confirms a seeded change in the scratch worktree /tmp/vfy (never /repo):
#   with the change:    builds, whole test-suite passes, demo exits non-zero
#   without the change: demo exits 0
patch=$1; demo=$2; out=$3
W=/tmp/vfy
mkdir -p $out
cd $W || exit 9
git checkout -q -- . ; git clean -fdq symengine 2>/dev/null
git apply --check $patch || { echo "APPLY FAILED" > $out/verify.txt; exit 3; }
git apply $patch
{
echo "== with change: build"
nice cmake --build _build -j12 2>&1 | tail -2
echo "build_exit=${PIPESTATUS[0]}"
echo "== with change: ctest"
ctest --test-dir _build -j8 --timeout 900 2>&1 | grep -E "tests passed|tests failed|Failed|\*\*\*" | head
g++ -std=gnu++17 -O1 -I$W -I$W/_build -isystem $W/symengine/utilities/cereal/include $demo $W/_build/symengine/libsymengine.a -lgmp -lpthread -o /tmp/vfy_demo 2>&1 | tail -3
timeout 600 /tmp/vfy_demo > $out/demo_with_change.txt 2>&1; echo "demo_with_change_exit=$?"
git checkout -q -- .
echo "== without change: build"
nice cmake --build _build -j12 --target symengine 2>&1 | tail -1
g++ -std=gnu++17 -O1 -I$W -I$W/_build -isystem $W/symengine/utilities/cereal/include $demo $W/_build/symengine/libsymengine.a -lgmp -lpthread -o /tmp/vfy_demo 2>&1 | tail -3
timeout 600 /tmp/vfy_demo > $out/demo_without_change.txt 2>&1; echo "demo_without_change_exit=$?"
} > $out/verify.txt 2>&1
cat $out/verify.txt
