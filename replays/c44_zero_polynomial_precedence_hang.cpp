#include <symengine/basic.h>
#include <symengine/pow.h>
#include <symengine/mul.h>
#include <symengine/symbol.h>
#include <symengine/polys/uintpoly.h>
#include <symengine/polys/uratpoly.h>
#include <symengine/printers.h>
#include <iostream>
#include <unistd.h>
#include <sys/wait.h>
using namespace SymEngine;
template <class F> void child(const char *name, F f){
    std::cout << name << ": " << std::flush;
    pid_t p = fork();
    if (p == 0) { alarm(5); try { std::cout << f() << std::endl; } catch (std::exception &e) { std::cout << "exception " << e.what() << std::endl; } _exit(0); }
    int st; waitpid(p, &st, 0);
    if (WIFSIGNALED(st)) std::cout << (WTERMSIG(st) == 14 ? "HANG (killed after 5 s)" : "SIGNAL ") << WTERMSIG(st) << std::endl;
}
int main(){
    RCP<const Symbol> x = symbol("x");
    RCP<const Basic> y = symbol("y");
    RCP<const UIntPoly> z = UIntPoly::from_dict(x, {});          // the zero polynomial
    RCP<const UIntPoly> p1 = UIntPoly::from_dict(x, {{1, integer_class(1)}});
    RCP<const Basic> zero_poly = sub_upoly(*p1, *p1);
    child("str(zero poly)", [&]{ return zero_poly->__str__(); });
    child("str(zero_poly**y)", [&]{ return pow(zero_poly, y)->__str__(); });
    child("str(y*zero_poly)", [&]{ return mul(y, zero_poly)->__str__(); });
    child("latex(zero_poly**y)", [&]{ return latex(*pow(zero_poly, y)); });
    return 0;
}
