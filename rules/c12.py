"""C12 — double-precision evaluation: the evaluators that implement one node
class agree with each other and with the node's definition on which library
function they apply; no evaluator returns a stale result.

R12.1 sibling agreement: for each node class the *formula signature* of its
      handler — multiset of math-library callees plus the shape tokens
      reciprocal-of-argument / reciprocal-of-result / negation — is identical
      in every evaluator that has a dedicated handler for it
      (EvalRealDoubleVisitorFinal/Pattern, EvalComplexDoubleVisitor, the
      init_eval_double table, LambdaRealDoubleVisitor,
      LambdaComplexDoubleVisitor).
R12.2 definition table: for the one-function classes the signature equals
      the mathematical definition (Sec = 1/cos, ASec = acos(1/x), ...).
R12.3 slot/class agreement: table[SYMENGINE_X] = lambda casts to the class
      whose type code is X.
R12.4 definite assignment of result_ in every reachable handler.
R12.5 attribute use: a node attribute fetched into a local inside a handler
      is used (a fetched-but-ignored attribute means the formula ignores
      part of the node).
"""
from collections import Counter

from selib.program import walk, show, short, strip_type
from selib.tables import enum_index_assignments
from selib.visitors import Visitors, MustAssign
from selib import printers as PR
from selib.build import AnalysisBroken

EVAL_VISITORS = ["SymEngine::EvalRealDoubleVisitorFinal",
                 "SymEngine::EvalRealDoubleVisitorPattern",
                 "SymEngine::EvalComplexDoubleVisitor",
                 "SymEngine::LambdaRealDoubleVisitor",
                 "SymEngine::LambdaComplexDoubleVisitor"]
RESULT_MEMBER = "result_"
MATH = {"sin", "cos", "tan", "asin", "acos", "atan", "atan2", "sinh", "cosh",
        "tanh", "asinh", "acosh", "atanh", "exp", "log", "log2", "log10",
        "sqrt", "cbrt", "pow", "tgamma", "lgamma", "erf", "erfc", "abs",
        "fabs", "floor", "ceil", "trunc", "round", "fmod", "hypot", "conj",
        "real", "imag", "arg", "norm", "fmax", "fmin", "max", "min",
        "isnan", "copysign"}
ALIAS = {"fabs": "abs"}
# (function, where the reciprocal sits) — the mathematical definitions
DEFINITION = {
    "Sin": ("sin", None), "Cos": ("cos", None), "Tan": ("tan", None),
    "Cot": ("tan", "result"), "Csc": ("sin", "result"),
    "Sec": ("cos", "result"),
    "ASin": ("asin", None), "ACos": ("acos", None), "ATan": ("atan", None),
    "ACsc": ("asin", "arg"), "ASec": ("acos", "arg"), "ACot": ("atan", "arg"),
    "Sinh": ("sinh", None), "Cosh": ("cosh", None), "Tanh": ("tanh", None),
    "Csch": ("sinh", "result"), "Sech": ("cosh", "result"),
    "Coth": ("tanh", "result"),
    "ASinh": ("asinh", None), "ACosh": ("acosh", None),
    "ATanh": ("atanh", None), "ACsch": ("asinh", "arg"),
    "ASech": ("acosh", "arg"), "ACoth": ("atanh", "arg"),
    "Log": ("log", None), "Gamma": ("tgamma", None),
    "LogGamma": ("lgamma", None), "Erf": ("erf", None),
    "Erfc": ("erfc", None), "Abs": ("abs", None), "ATan2": ("atan2", None),
    "Floor": ("floor", None), "Ceiling": ("ceil", None),
    "Truncate": ("trunc", None),
}
# one named class each: evaluators that legitimately differ
SIBLING_EXCEPTIONS = {}


def math_name(prog, n):
    """canonical math-library name of a call node, else None"""
    if n.get("k") not in ("call", "mcall") or not n.get("u"):
        return None
    h = prog.header(n["u"])
    nm = h.get("n") or n.get("n")
    if nm not in MATH:
        return None
    qn = h.get("qn") or ""
    file = h.get("file", "")
    if qn.startswith("SymEngine::"):
        return None
    return ALIAS.get(nm, nm)


def is_one(e):
    while e is not None and e.get("k") in ("cast", "ctor") and e.get("a"):
        e = e["a"][0]
    return e is not None and e.get("k") == "lit" and str(e.get("v")) in (
        "1", "1.0", "1.")


def signature(prog, root):
    """Counter of tokens for one formula (an expression or a whole body)"""
    sig = Counter()
    inits = {}
    for n in walk(root):
        if n.get("k") == "decl":
            for v in n.get("v", ()):
                if v.get("i") is not None:
                    inits[v["n"]] = v["i"]

    def deref(x):
        """look through casts and locals initialised once"""
        for _ in range(4):
            while x is not None and x.get("k") in ("cast", "ctor") \
                    and x.get("a"):
                x = x["a"][0]
            if x is not None and x.get("k") == "ref" \
                    and x.get("d") == "local" and x.get("n") in inits:
                x = inits[x["n"]]
            else:
                break
        return x
    for n in walk(root):
        m = math_name(prog, n)
        if m:
            sig["fn:" + m] += 1
            # reciprocal of an argument?
            for a in n.get("a", ()):
                x = deref(a)
                if x is not None and x.get("k") in ("bin", "op") \
                        and x.get("op") == "/" \
                        and len(x.get("a", ())) == 2 and is_one(x["a"][0]):
                    sig["recip:arg"] += 1
        if n.get("k") in ("bin", "op") and n.get("op") == "/" \
                and len(n.get("a", ())) == 2 and is_one(n["a"][0]):
            d = deref(n["a"][1])
            if d is not None and math_name(prog, d):
                sig["recip:result"] += 1
        if n.get("k") in ("un", "op") and n.get("op") == "-" \
                and len(n.get("a", ())) == 1:
            sig["neg"] += 1
        if n.get("k") in ("bin", "op") and n.get("op") in (
                "<", "<=", ">", ">=", "==", "!=") \
                and len(n.get("a", ())) == 2:
            sig["cmp:" + n["op"]] += 1
    # a reciprocal counted as recip:arg is also seen by the generic '/' scan
    return sig


def fmt(sig):
    return ", ".join("%s x%d" % (k, v) if v > 1 else k
                     for k, v in sorted(sig.items())) or "(no library call)"


def attribute_use(prog, V, R, rid, visitors):
    """a node attribute fetched into a local inside a handler must be
    used"""
    nattr = 0
    for v in visitors:
        for h, Xs in sorted(V.by_handler(v).items()):
            f = prog.functions.get(h)
            pname = f["params"][0]["n"] if f.get("params") else None
            if not pname:
                continue
            decls = {}
            derived = {pname}
            for n in walk(f["body"]):
                if n.get("k") == "decl":
                    for var in n.get("v", ()):
                        i = var.get("i")
                        if i is None:
                            continue
                        # fetched through an accessor of the node, or of an
                        # object itself fetched from the node
                        from_node = any(
                            x.get("k") == "mcall" and any(
                                y.get("k") == "ref" and y.get("n") in derived
                                and y.get("d") in ("param", "local")
                                for y in walk(x.get("o") or {}))
                            for x in walk(i))
                        mentions = any(
                            y.get("k") == "ref" and y.get("n") in derived
                            for y in walk(i))
                        if mentions:
                            derived.add(var["n"])
                        if from_node:
                            decls[var["n"]] = n.get("l")
            if not decls:
                continue
            used = Counter()
            for n in walk(f["body"]):
                if n.get("k") == "ref" and n.get("d") == "local" \
                        and n.get("n") in decls:
                    used[n["n"]] += 1
                if n.get("k") == "lambda":
                    for c in n.get("caps", ()):
                        pass
            # references inside lambda capture initialisers are copies, not
            # uses: count references in lambda bodies and ordinary code only
            cap_refs = Counter()
            for n in walk(f["body"]):
                if n.get("k") == "lambda":
                    for i2 in n.get("inits", ()):
                        for y in walk(i2):
                            if y.get("k") == "ref" and y.get("n") in decls:
                                cap_refs[y["n"]] += 1
            for name, line in sorted(decls.items()):
                nattr += 1
                real_uses = used[name] - cap_refs[name]
                key = "%s::bvisit(%s):%s" % (short(v), short(
                    f["params"][0]["t"]), name)
                R.instance(rid, key)
                if real_uses <= 0:
                    R.violation(
                        rid, key, prog.loc(f, line),
                        "%s fetches `%s` from the node but never uses it: "
                        "the value computed ignores that attribute of the "
                        "node" % (key.rsplit(":", 1)[0], name))
    return nattr



def run(loader, R, tier):
    prog = loader()
    V = Visitors(prog)
    R.explanation = (
        "For every node class the handlers of the five visitor evaluators "
        "(resolved dispatch tables) and the init_eval_double lambda table "
        "are reduced to a formula signature — the multiset of math-library "
        "callees (resolved declarations outside SymEngine) plus reciprocal-"
        "of-argument, reciprocal-of-result and negation tokens — and "
        "compared pairwise (R12.1) and with the mathematical definition of "
        "34 one-function classes (R12.2); every table slot casts to the "
        "class of its type code (R12.3); result_ is definitely assigned in "
        "every reachable handler (R12.4); every attribute fetched from the "
        "node is used (R12.5). Decides that all evaluators apply the same, "
        "correct library function with the reciprocal in the right place for "
        "every node they accept; accuracy within rounding, the arithmetic "
        "handlers (Add, Mul, Pow) and Piecewise/Max/Min semantics are not "
        "decided. Coverage differences between evaluators are reported, not "
        "judged.")
    for rid, t in (("R12.1", "formula signatures agree across evaluators"),
                   ("R12.2", "signature equals the mathematical definition"),
                   ("R12.3", "table slot casts to the class of its type "
                             "code"),
                   ("R12.4", "result_ definitely assigned"),
                   ("R12.5", "fetched node attributes are used")):
        R.rule(rid, t)
    R.trusted += ["the DEFINITION table (34 rows: class -> function and "
                  "where the reciprocal sits)",
                  "std::/C math functions compute the named function"]

    e2c = PR.enum_to_class(prog)
    # ---------------------------------------------------------------- gather
    sigs = {}           # class -> {evaluator: (Counter, where)}
    for v in EVAL_VISITORS:
        if v not in V.table:
            raise AnalysisBroken("evaluator %s has no dispatch table" % v)
        byh = V.by_handler(v)
        for h, Xs in byh.items():
            f = prog.functions.get(h)
            if f is None:
                raise AnalysisBroken("handler without body: "
                                     + prog.name_of(h))
            ptype = strip_type(f["params"][0]["t"]) if f.get("params") \
                else None
            for X in Xs:
                if ptype != X:
                    continue            # generic handler (fallback / base)
                sigs.setdefault(X, {})[short(v)] = (
                    signature(prog, f["body"]), prog.loc(f))
    tf = prog.one_fn("SymEngine::init_eval_double")
    slots = 0
    for arr, enum, val, line in enum_index_assignments(tf):
        lam = val
        while lam.get("k") in ("cast", "ctor") and lam.get("a"):
            lam = lam["a"][0]
        if lam.get("k") != "lambda":
            continue
        slots += 1
        cls = e2c.get(enum)
        key = "table[%s]" % enum
        # R12.3
        casts = [strip_type(n["ta"][0]) for n in walk(lam)
                 if n.get("k") == "call" and n.get("n") == "down_cast"
                 and n.get("ta")]
        R.instance("R12.3", key, nontrivial=bool(casts),
                   sample={"slot": enum, "casts_to": [short(c)
                                                      for c in casts]})
        for c in casts:
            if cls and c != cls and not prog.derives(cls, c):
                R.violation(
                    "R12.3", key, prog.loc(tf, line),
                    "init_eval_double: the handler stored for %s casts its "
                    "argument to %s, but objects with that type code are %s "
                    "(type confusion / wrong formula)" % (
                        enum, short(c), short(cls)))
        if cls:
            sigs.setdefault(cls, {})["init_eval_double"] = (
                signature(prog, lam.get("b")), prog.loc(tf, line))
    R.floor("init_eval_double slots", slots, 40)

    # ---------------------------------------------------------------- R12.1
    multi = 0
    for X in sorted(sigs):
        evs = sigs[X]
        if len(evs) < 2:
            continue
        if not prog.derives(X, "SymEngine::Function"):
            # structural nodes (Add, Mul, Pow, Constant, numbers, logic):
            # the evaluators legitimately organise the arithmetic
            # differently (pre-computed constants, exp() for base E, pow for
            # power terms); their value is not decided here
            diffs = {ev: fmt(sg) for ev, (sg, _w) in evs.items()}
            if len(set(diffs.values())) > 1:
                R.info.setdefault("structural_nodes_with_different_"
                                  "organisation", {})[short(X)] = diffs
            continue
        multi += 1
        groups = {}
        for ev, (sg, where) in evs.items():
            core = {k: v for k, v in sg.items() if not k.startswith("cmp:")}
            groups.setdefault(tuple(sorted(core.items())), []).append(
                (ev, where))
        R.instance("R12.1", short(X), sample={
            "class": short(X), "evaluators": sorted(evs),
            "signature": fmt(next(iter(evs.values()))[0])})
        if len(groups) > 1 and X not in SIBLING_EXCEPTIONS:
            # majority signature vs the rest
            ordered = sorted(groups.items(), key=lambda kv: -len(kv[1]))
            major_sig, major = ordered[0]
            for sg, members in ordered[1:]:
                for ev, where in members:
                    R.violation(
                        "R12.1", "%s:%s" % (short(X), ev), where,
                        "%s evaluates %s with {%s} while %s use {%s}: the "
                        "evaluators disagree on the function applied to "
                        "this node" % (
                            ev, short(X), fmt(Counter(dict(sg))),
                            ", ".join(e for e, _ in major),
                            fmt(Counter(dict(major_sig)))))
    R.floor("function classes with at least two evaluator handlers", multi, 35)

    # number leaves: every evaluator converts an exact leaf to double the
    # same way (one mp_get_d of the whole value; a division of two separately
    # converted parts overflows to inf/inf for huge numerator/denominator)
    nleaf = 0
    for cname in ("Integer", "Rational"):
        X = "SymEngine::" + cname
        conv = {}
        for v in EVAL_VISITORS:
            h = V.handlers(v).get(X)
            f = prog.functions.get(h) if h else None
            if f is None or not f.get("params") \
                    or strip_type(f["params"][0]["t"]) != X:
                continue
            c = Counter()
            for n in walk(f["body"]):
                if n.get("k") == "call" and n.get("n") == "mp_get_d":
                    c["mp_get_d"] += 1
                if n.get("k") in ("bin", "op") and n.get("op") == "/" \
                        and len(n.get("a", ())) == 2:
                    c["division"] += 1
            conv[short(v)] = (c, prog.loc(f))
        tf_slots = {e: val for _a, e, val, _l in enum_index_assignments(tf)}
        lam = tf_slots.get("SYMENGINE_" + cname.upper())
        if lam is not None:
            c = Counter()
            for n in walk(lam):
                if n.get("k") == "call" and n.get("n") == "mp_get_d":
                    c["mp_get_d"] += 1
                if n.get("k") in ("bin", "op") and n.get("op") == "/" \
                        and len(n.get("a", ())) == 2:
                    c["division"] += 1
            conv["init_eval_double"] = (c, prog.loc(tf))
        if len(conv) < 2:
            continue
        nleaf += 1
        groups = {}
        for ev, (c, where) in conv.items():
            groups.setdefault(tuple(sorted(c.items())), []).append(
                (ev, where))
        R.instance("R12.1", "leaf:" + cname, sample={
            "class": cname, "conversion": {ev: dict(c)
                                           for ev, (c, _w) in conv.items()}})
        if len(groups) > 1:
            ordered = sorted(groups.items(), key=lambda kv: -len(kv[1]))
            for sg, members in ordered[1:]:
                for ev, where in members:
                    R.violation(
                        "R12.1", "leaf:%s:%s" % (cname, ev), where,
                        "%s converts a %s leaf with {%s} while %s use {%s}: "
                        "the evaluators disagree on how an exact number "
                        "becomes a double (converting numerator and "
                        "denominator separately gives inf/inf for huge "
                        "parts)" % (ev, cname, fmt(Counter(dict(sg))),
                                    ", ".join(e for e, _ in ordered[0][1]),
                                    fmt(Counter(dict(ordered[0][0])))))
    R.floor("exact leaf classes compared across evaluators", nleaf, 2)

    # R12.7: a machine-word read of an Integer is guarded by the fits-test
    # of the same signedness (mp_fits_ulong_p <-> mp_get_ui, mp_fits_slong_p
    # <-> mp_get_si); a mismatch truncates or flips the top bit
    R.rule("R12.7", "mp_get_si / mp_get_ui are guarded by the fits-test of "
                    "the same signedness")
    from selib import sym as _sym7
    PAIR = {"mp_get_si": "mp_fits_slong_p", "mp_get_ui": "mp_fits_ulong_p"}
    n7 = 0
    n7ctl = 0
    for u, f in sorted(prog.functions.items(), key=lambda kv: kv[1]["qn"]):
        control = f["qn"].startswith("verif_positive::")
        cls = f.get("cls") or ""
        if not f.get("body") or f.get("dependent") or not (
                control or "EvalDouble" in cls or "LambdaDouble" in cls
                or "EvalRealDouble" in cls or "EvalComplexDouble" in cls
                or f["n"] == "init_eval_double"):
            continue

        def cb7(n, guards, line, f=f, control=control):
            nonlocal n7, n7ctl
            if not (n.get("k") == "call" and n.get("n") in PAIR
                    and n.get("a")):
                return
            arg = show(n["a"][0])
            fits = []
            for g in _sym7.flatten_guards(guards):
                if g[0] == "case":
                    continue
                for y in walk(g[0]):
                    if y.get("k") == "call" and (y.get("n") or "").startswith(
                            "mp_fits_") and y.get("a") \
                            and show(y["a"][0]) == arg and g[1]:
                        fits.append(y["n"])
            if not fits:
                return
            bad = [x for x in fits if x != PAIR[n["n"]]]
            if control:
                n7ctl += 1 if bad else 0
                return
            n7 += 1
            key = "%s@%s" % (short(f["qn"])[:60], n.get("l"))
            R.instance("R12.7", key)
            if bad and PAIR[n["n"]] not in fits:
                R.violation(
                    "R12.7", short(f["qn"])[:60], prog.loc(f, n.get("l")),
                    "%s reads `%s` under the guard %s: the test and the "
                    "read disagree on signedness, so a value in "
                    "[2^63, 2^64) passes the guard and is read with the "
                    "wrong top bit" % (short(f["qn"])[:60], show(n)[:40],
                                       bad[0]))
        _sym7.visit_guarded(f["body"], cb7)
    R.floor("positive control (verif_positive::low_word) recognised",
            n7ctl, 1)

    # R12.6: the complex evaluators use the complex overloads of the
    # functions whose real version has a restricted domain (a real pow/sqrt/
    # log of a negative argument is NaN where the complex value exists)
    R.rule("R12.6", "complex-domain evaluators call the complex overload of "
                    "domain-restricted functions")
    RESTRICTED = {"pow", "sqrt", "log", "log2", "log10", "log1p", "asin",
                  "acos", "acosh", "atanh"}
    n6 = 0
    for u, f in sorted(prog.functions.items(), key=lambda kv: kv[1]["qn"]):
        cls = f.get("cls") or ""
        if not f.get("body") or f.get("dependent") \
                or f.get("tk") == "pattern":
            continue
        if not (("EvalDouble" in cls or "LambdaDouble" in cls
                 or "EvalComplexDouble" in cls
                 or "LambdaComplexDouble" in cls)
                and ("Complex" in cls or "complex<" in cls)):
            continue
        for n in walk(f["body"]):
            if n.get("k") == "call" and n.get("n") in RESTRICTED \
                    and n.get("u"):
                n6 += 1
                cplx = "complex" in n["u"]
                key = "%s::%s(%s):%s" % (
                    short(cls).split("<")[0], f["n"], short(
                        f["params"][0]["t"]) if f.get("params") else "",
                    n["n"])
                R.instance("R12.6", key + "@%s" % n.get("l"),
                           sample={"call": show(n)[:60],
                                   "complex_overload": cplx})
                if not cplx:
                    R.violation(
                        "R12.6", key, prog.loc(f, n.get("l")),
                        "%s, which evaluates in the complex domain, calls "
                        "the real `%s` (`%s`): for an argument outside the "
                        "real domain (a negative base with a non-integer "
                        "exponent, the root or logarithm of a negative "
                        "number) it yields NaN where the complex value "
                        "exists, and the evaluators disagree" % (
                            short(f["qn"]), n["n"], show(n)[:50]))
    R.floor("domain-restricted calls in complex evaluators", n6, 8)

    # relationals: the comparison operator is the formula
    RELDEF = {"Equality": "==", "Unequality": "!=", "LessThan": "<=",
              "StrictLessThan": "<"}
    nrel = 0
    for name, op in sorted(RELDEF.items()):
        X = "SymEngine::" + name
        for ev, (sg, where) in sorted(sigs.get(X, {}).items()):
            nrel += 1
            ops = sorted(k[4:] for k in sg if k.startswith("cmp:"))
            key = "%s:%s" % (name, ev)
            R.instance("R12.2", key, sample={"class": name, "evaluator": ev,
                                             "comparison": ops})
            if ops != [op]:
                R.violation(
                    "R12.2", key, where,
                    "%s evaluates %s with the comparison(s) %s; its "
                    "definition is `lhs %s rhs`" % (ev, name, ops or "none",
                                                   op))
    R.floor("relational handlers compared with their definition", nrel, 8)

    # ---------------------------------------------------------------- R12.2
    ndef = 0
    for name, (fn, where_recip) in sorted(DEFINITION.items()):
        X = "SymEngine::" + name
        if X not in sigs:
            continue
        want = Counter({"fn:" + fn: 1})
        if where_recip:
            want["recip:" + where_recip] = 1
        for ev, (sg, where) in sorted(sigs[X].items()):
            ndef += 1
            key = "%s:%s" % (name, ev)
            R.instance("R12.2", key)
            core = Counter({k: v for k, v in sg.items()
                            if k.startswith(("fn:", "recip:"))})
            if core != want:
                R.violation(
                    "R12.2", key, where,
                    "%s evaluates %s with {%s}; its definition is {%s}" % (
                        ev, name, fmt(core), fmt(want)))
    R.floor("definition-table comparisons", ndef, 120)

    # ---------------------------------------------------------------- R12.4
    nh = 0
    MA = MustAssign(prog, RESULT_MEMBER)
    for v in EVAL_VISITORS:
        for h, Xs in sorted(V.by_handler(v).items()):
            f = prog.functions.get(h)
            nh += 1
            key = "%s::bvisit(%s)" % (short(v), short(
                f["params"][0]["t"]) if f.get("params") else "?")
            R.instance("R12.4", key)
            bad = MA.unassigned_exits(f)
            if bad:
                R.violation(
                    "R12.4", key, prog.loc(f, bad[0] if bad[0] != "end"
                                           else None),
                    "%s (reached for %s) can finish without assigning "
                    "result_: the evaluator returns the value of the "
                    "previous sub-expression" % (
                        key, ", ".join(short(x) for x in Xs[:4])))
    R.floor("evaluator handlers", nh, 200)

    # ---------------------------------------------------------------- R12.5
    nattr = attribute_use(prog, V, R, "R12.5", EVAL_VISITORS)
    R.floor("node attributes fetched into locals", nattr, 30)

    # coverage differences (information only)
    cov = {}
    for X, evs in sigs.items():
        cov[short(X)] = sorted(evs)
    R.info["dedicated_handlers_per_class"] = cov


MANIFEST = dict(
    technique="sibling cross-check of formula signatures (resolved math-"
              "library callees + reciprocal/negation shape) over the "
              "dispatch tables of all evaluators, against a definition "
              "table; slot/class agreement; definite assignment; "
              "fetched-attribute use",
    text="Decides for every node class that all double-precision evaluators "
         "which implement it (two real visitors, the complex visitor, the "
         "single-dispatch table, the two lambda visitors) apply the same "
         "math-library function with the reciprocal in the same place, that "
         "this is the mathematically defined function for 34 classes, that "
         "each table slot handles the class of its type code, that no "
         "handler leaves result_ unassigned and that no fetched node "
         "attribute is ignored. Does not decide accuracy within rounding, "
         "conditioning, nor the Add/Mul/Pow/Piecewise/Max/Min handlers.",
    note="Trusted: the 34-row definition table and that libm computes the "
         "named functions.",
    ref="§2 C12",
)
