"""C16 — printing is a function of the value; parse(str(e)) == e.

R16.1 name round trip: TypeID -> printed name -> parser key -> factory ->
      constructed class closes for every parser-known class.
R16.2 StrPrinter/JuliaStrPrinter never emit in the iteration order of an
      unordered container.
R16.3 every reachable StrPrinter/JuliaStrPrinter handler definitely assigns
      the result string.
"""
from selib.program import walk, show, short, strip_type
from selib.tables import string_tables
from selib.visitors import Visitors, MustAssign
from selib import printers as PR
from selib.build import AnalysisBroken

STR_PRINTERS = ["SymEngine::StrPrinter", "SymEngine::JuliaStrPrinter"]


def parser_entries(prog):
    """[(table, key, factory usr or None, line, fn)]"""
    srcs = prog.fn_by_qn("SymEngine::init_parser_single_arg_functions") \
        + prog.fn_by_qn("SymEngine::Parser::functionify")
    if len(srcs) < 2:
        raise AnalysisBroken("parser table anchors not found")
    out = []
    for f in srcs:
        for table, es in string_tables(f).items():
            for key, tgt, line in es:
                u = tgt.get("u") if tgt.get("k") == "ref" else None
                out.append((table, key, u, line, f))
    return out


def definite_assignment(prog, V, R, rid, visitor, member):
    MA = MustAssign(prog, member)
    n = 0
    for h, Xs in sorted(V.by_handler(visitor).items()):
        f = prog.functions.get(h)
        if f is None:
            raise AnalysisBroken("handler without body: " + prog.name_of(h))
        n += 1
        key = "%s::bvisit(%s)" % (short(visitor), short(
            f["params"][0]["t"]) if f.get("params") else "?")
        R.instance(rid, key, sample={"handler": key, "classes": len(Xs)})
        bad = MA.unassigned_exits(f)
        if bad:
            R.violation(
                rid, key, prog.loc(f, bad[0] if bad[0] != "end" else None),
                "%s (reached for %s) can finish without assigning `%s` "
                "(exit at %s): the caller then returns the previous "
                "sub-expression's result" % (
                    key, ", ".join(short(x) for x in Xs[:4]), member,
                    bad[0]))
    return n


def run(loader, R, tier):
    prog = loader()
    V = Visitors(prog)
    R.explanation = (
        "R16.1 joins four literal tables read off the resolved AST: the "
        "StrPrinter name table (names[SYMENGINE_X] = lit), the type-code of "
        "each class, the parser's {name, factory} tables and the classes "
        "each factory constructs (make_rcp<const K>, depth<=2); for every "
        "parser-known class the printed name must be a parser key whose "
        "factory constructs that class. R16.2: no StrPrinter/JuliaStrPrinter "
        "method walks an unordered container except to fill an ordered one. "
        "R16.3: definite assignment of str_ on every non-throwing path of "
        "every handler in the resolved (printer, class) dispatch table. "
        "Decides the name round trip and determinism clauses; "
        "parenthesisation/precedence (generated LALR tables) and float digit "
        "round trip are not decided.")
    R.rule("R16.1", "printed function name is a parser key constructing the "
                    "same class")
    R.rule("R16.2", "no emission in unordered-container order")
    R.rule("R16.3", "str_ definitely assigned in every handler")
    R.rule("R16.5", "a number that can print a leading '-' gets Atom "
                    "precedence only where it is known to be non-negative")
    R.rule("R16.4a", "printed decimal integers are read back in base 10")
    R.rule("R16.4b", "a strtol result is used only where errno != ERANGE "
                     "holds (no silent saturation of printed integers)")
    R.trusted += ["make_rcp<const K> in a factory (depth<=2) is how class K "
                  "is constructed"]
    R.assumptions += ["printing of numbers/symbols/operators round-trips "
                      "through the generated grammar (not decided)"]

    # ------------------------------------------------------------ R16.1
    pf, names = PR.printer_names(prog, "SymEngine::init_str_printer_names")
    e2c = PR.enum_to_class(prog)
    entries = parser_entries(prog)
    cons = {}
    for table, key, u, line, f in entries:
        if u and u not in cons:
            cons[u] = PR.constructs(prog, u, depth=1)
    parser_known = set()
    for u, ks in cons.items():
        parser_known |= ks
    by_key = {}
    for table, key, u, line, f in entries:
        by_key.setdefault(key, set()).update(cons.get(u, set()))
    checked = 0
    for enum, (lit, line) in sorted(names.items()):
        cls = e2c.get(enum)
        if not cls or not lit:
            continue
        ikey = "%s=%s" % (enum, lit)
        if cls not in parser_known:
            R.instance("R16.1", ikey, nontrivial=False)
            continue
        checked += 1
        R.instance("R16.1", ikey, sample={"class": short(cls),
                                          "printed": lit,
                                          "parser_key_constructs": sorted(
                                              short(x) for x in by_key.get(
                                                  lit, ()))[:6]})
        if cls not in by_key.get(lit, set()):
            other = sorted(k for k, ks in by_key.items() if cls in ks)
            R.violation(
                "R16.1", short(cls), prog.loc(pf, line),
                "%s prints as \"%s(...)\" but %s: parse(str(e)) does not "
                "give back a %s (the parser constructs it for: %s)"
                % (short(cls), lit,
                   "no parser table has that key" if lit not in by_key
                   else "that parser key constructs {%s}" % ", ".join(
                       sorted(short(x) for x in by_key[lit])),
                   short(cls), ", ".join(other)))
    R.floor("printer names", len(names), 45)
    R.floor("parser keys", len(by_key), 60)
    R.floor("parser-known printed classes", checked, 40)

    # ------------------------------------------------------------ R16.2
    cls = set()
    for b in STR_PRINTERS:
        if b not in prog.classes:
            raise AnalysisBroken("anchor class %s vanished" % b)
        cls.add(b)
    sites = 0
    fns = 0
    for f in PR.methods_of(prog, cls):
        fns += 1
        for line, desc, ok in PR.unordered_iteration_sites(prog, f):
            sites += 1
            key = "%s@%s" % (short(f["qn"]), line)
            R.instance("R16.2", key, sample={"where": key, "what": desc,
                                             "sorted": ok})
            if not ok:
                R.violation(
                    "R16.2", short(f["qn"]), prog.loc(f, line),
                    "%s emits while walking an unordered container (%s): "
                    "equal expressions built in different orders print "
                    "differently" % (short(f["qn"]), desc))
    R.floor("StrPrinter/JuliaStrPrinter methods scanned", fns, 60)
    R.floor("unordered-container walks in StrPrinter", sites, 1)

    # ------------------------------------------------------------ R16.6
    # print order: PrinterBasicCmp (the comparator of the sorted containers
    # the printer walks) tests `__cmp__(...) == -1`.  It is a strict weak
    # order only if every three-way comparison returns exactly -1/0/1: with
    # another negative value two different terms are "equivalent" keys and
    # one of them is silently dropped from the printed sum.
    pbc = [f for f in prog.functions.values()
           if (f.get("cls") or "").endswith("PrinterBasicCmp")
           and f.get("n") == "operator()" and f.get("body")]
    if not pbc:
        raise AnalysisBroken("PrinterBasicCmp::operator() not found")
    tests_minus_one = any(
        n.get("k") in ("bin", "op") and n.get("op") == "=="
        and any(show(x) == "-1" for x in n.get("a", ()))
        for f in pbc for n in walk(f["body"]))
    R.rule("R16.6", "the printer's ordering comparator is a strict weak "
                    "order: it tests __cmp__ == -1, so every three-way "
                    "comparison must return exactly -1, 0 or 1")
    R.instance("R16.6", "PrinterBasicCmp", sample={
        "tests_equal_minus_one": tests_minus_one})
    for f in pbc:
        hs = [n for n in walk(f["body"]) if n.get("k") == "mcall"
              and n.get("n") in ("hash", "__hash__")]
        R.instance("R16.6", short(f.get("cls") or "") + ":equivalence",
                   sample={"consults_hash": bool(hs)})
        if hs:
            R.violation(
                "R16.6", short(f.get("cls") or "") + ":hash",
                prog.loc(f, hs[0].get("l")),
                "%s decides that two terms are the same key from their "
                "hashes: two different terms with colliding hashes (e.g. "
                "exponents that agree modulo 2**64) become one key of the "
                "sorted container and one of them disappears from the "
                "printed expression" % short(f.get("cls") or ""))
    if tests_minus_one:
        from rules.c02 import range_check

        class _Sub:
            """collects R2.1's verdicts under this property's rule id"""
            def __init__(self, R):
                self.R = R

            def instance(self, rid, key, **kw):
                self.R.instance("R16.6", key, **{k: v for k, v in kw.items()
                                                 if k != "sample"})

            def violation(self, rid, key, where, what, detail=None):
                self.R.violation(
                    "R16.6", key, where, what + " — PrinterBasicCmp tests "
                    "`__cmp__ == -1`, so terms ordered by this comparison "
                    "can collapse into one key and disappear from the "
                    "printed expression")

            def floor(self, *a):
                self.R.floor(*a)

            def rule(self, *a, **kw):
                pass

            def exception(self, *a, **kw):
                self.R.exception(*a, **kw)

            def undecided_obligation(self, rid, key, why):
                self.R.undecided_obligation("R16.6", key, why)

            def __getattr__(self, name):
                return getattr(self.R, name)
        range_check(prog, _Sub(R))
        # ... and an antisymmetric one: zero only on equality, corresponding
        # parts compared, a decisive `<` only where inequality of the same
        # parts is established (C02 R2.7, R2.8, R2.10 under this rule id)
        from rules.c02 import symmetry_rules
        from selib import sym as _symc
        symmetry_rules(prog, _symc.Paths(prog), _Sub(R))

    # ------------------------------------------------------------ R16.7
    # floating literals: print_double adds a decimal marker so that the text
    # reads back as a float; for inf/nan there is no numeral to mark, and
    # "inf.0" is not in the parser's language
    R.rule("R16.7", "print_double appends a decimal marker only to finite "
                    "values")
    pd = [f for f in prog.functions.values()
          if f["n"] == "print_double" and f.get("body")
          and "/printers/" in (f.get("file") or "")]
    if not pd:
        raise AnalysisBroken("print_double not found")
    for f in pd:
        appends = [n for n in walk(f["body"])
                   if n.get("k") in ("op", "bin") and n.get("op") == "+="
                   and any(y.get("k") == "lit" and str(y.get("v", ""))
                           .startswith(".") for y in walk(n))]
        finite = any(n.get("k") == "call" and n.get("n") in (
            "isfinite", "isinf", "isnan") for n in walk(f["body"]))
        R.instance("R16.7", short(f["qn"]), sample={
            "decimal_marker_appends": len(appends),
            "tests_finiteness": finite})
        if appends and not finite:
            R.violation(
                "R16.7", short(f["qn"]), prog.loc(f, appends[0].get("l")),
                "print_double appends a decimal marker without testing "
                "that the value is finite: an infinite or NaN RealDouble "
                "prints as `inf.0` / `nan.0`, which parse() rejects")

    # ------------------------------------------------------------ R16.5
    # A number that prints with a leading '-' must not have Atom precedence:
    # as the base of a power it would lose its parentheses ((-2)**x printing
    # as -2**x, which parses as -(2**x)).  In the Precedence handler of
    # every Number class that can print a sign, each `precedence = Atom` must
    # be dominated by a fact establishing that the value is not negative.
    PREC = "SymEngine::Precedence"
    if PREC not in V.table:
        raise AnalysisBroken("Precedence visitor not found")
    SIGNLESS = {"SymEngine::NaN": "prints as nan, never with a sign"}
    NONNEG_CALLS = {("is_negative", False), ("is_positive", True),
                    ("is_negative_infinity", False),
                    ("is_positive_infinity", True), ("is_zero", True)}
    nnum = 0
    for X in prog.concrete_subclasses("SymEngine::Number",
                                      include_self=False):
        h = V.handlers(PREC).get(X)
        if not h or X in SIGNLESS:
            continue
        if prog.derives(X, "SymEngine::SeriesCoeffInterface"):
            R.exception(X, "R16.5: power series print as a sum with an "
                           "order term; they are not literals of the "
                           "parser's language")
            continue
        f = prog.functions.get(h)
        if f is None:
            continue
        nnum += 1
        key = "Precedence(%s)" % short(X)
        atoms = []

        def cb5(n, guards, line, f=f):
            if n.get("k") in ("bin", "op") and n.get("op") == "=" \
                    and n.get("a") and n["a"][0].get("k") == "mem" \
                    and n["a"][0].get("m") == "precedence":
                rhs = n["a"][1]
                while rhs.get("k") == "cast":
                    rhs = rhs["a"][0]
                if rhs.get("k") == "ref" and rhs.get("n") == "Atom":
                    ok = False
                    from selib import sym as _s

                    def nonneg(c, pol):
                        k = c.get("k")
                        if k == "un" and c.get("op") == "!":
                            return nonneg(c["a"][0], not pol)
                        if k == "bin" and c.get("op") in ("||", "&&"):
                            a, b = c["a"]
                            conj = (c["op"] == "&&") == bool(pol)
                            if conj:
                                return nonneg(a, pol) or nonneg(b, pol)
                            return nonneg(a, pol) and nonneg(b, pol)
                        return k == "mcall" and (c.get("n"), bool(pol)) \
                            in NONNEG_CALLS
                    for g in guards:
                        if g[0] != "case" and nonneg(g[0], g[1]):
                            ok = True
                    for g in _s.flatten_guards(guards):
                        if g[0] == "case":
                            continue
                        c, pol = g
                        if c.get("k") == "mcall" and (
                                c.get("n"), bool(pol)) in NONNEG_CALLS:
                            ok = True
                        if c.get("k") in ("bin", "op") \
                                and c.get("op") == "==" and pol:
                            for side in c.get("a", ()):
                                x = side
                                while x.get("k") in ("cast", "ctor") \
                                        and x.get("a"):
                                    x = x["a"][0]
                                if x.get("k") == "lit" and str(
                                        x.get("v")).lstrip("+").replace(
                                            ".", "").isdigit():
                                    ok = True
                        if c.get("k") in ("bin", "op") and (
                                (c.get("op") == "<" and not pol)
                                or (c.get("op") == ">=" and pol)) \
                                and any(x.get("k") == "lit" and str(
                                    x.get("v")) in ("0", "0.0")
                                    for x in c.get("a", ())):
                            ok = True
                    atoms.append((n.get("l"), ok))
        from selib import sym as _s2
        _s2.visit_guarded(f["body"], cb5)
        R.instance("R16.5", key, sample={
            "handler": short(f["qn"]) + "(" + short(
                f["params"][0]["t"]) + ")",
            "atom_assignments": [{"line": l, "nonnegative_established": ok}
                                 for l, ok in atoms]})
        for l, ok in atoms:
            if not ok:
                R.violation(
                    "R16.5", key, prog.loc(f, l),
                    "Precedence of %s is set to Atom at line %s without "
                    "establishing that the number is not negative: a "
                    "negative %s prints with a leading '-' and, as the base "
                    "of a power, loses its parentheses, so parse(str(e)) "
                    "is a different expression" % (short(X), l, short(X)))
    R.floor("number classes with a Precedence handler", nnum, 6)

    # ------------------------------------------------------------ R16.4
    # integers print in decimal; reading them back must be exact: base 10
    # and no silent saturation (shared with C17)
    from selib.numlit import literal_rules
    literal_rules(prog, R, "R16.4a", "R16.4b")

    # ------------------------------------------------------------ R16.3
    n = 0
    for v in STR_PRINTERS:
        n += definite_assignment(prog, V, R, "R16.3", v, "str_")
    R.floor("str printer handlers", n, 90)


MANIFEST = dict(
    technique="table agreement over the resolved AST (printer names x "
              "type codes x parser tables x factory constructions), "
              "container-order lint and definite assignment per handler",
    text="Decides: (1) for every class with a printed function name that the "
         "parser can construct at all, the printed name is a parser key "
         "whose factory constructs that class — a necessary condition of "
         "parse(str(e)) == e for every expression containing it; (2) "
         "StrPrinter/JuliaStrPrinter never emit in unordered-container "
         "order, so equal expressions print identically regardless of "
         "insertion history; (3) every handler assigns the result string on "
         "every path. Does not decide parenthesisation/precedence (generated "
         "LALR tables) nor the 15-digit float round trip.",
    note="Trusted: clang's overload resolution for the dispatch table; "
         "make_rcp<const K> identifies constructed classes.",
    ref="§2 C16",
)
