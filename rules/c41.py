"""C41 — thread-safe build: shared immutable expressions are race free.

Analysed on configuration `ts` (cmake -DWITH_SYMENGINE_THREAD_SAFE=yes,
configure only; the sources are parsed with that configuration's flags).

R41.1 every `mutable` data member of Basic / EnableRCPFromThis and their
      subclasses is a std::atomic (or a mutex)
R41.2 no const_cast that removes const from state of a shared object survives
      preprocessing in the thread-safe configuration (dictionary stealing is
      compiled out); the same detector must match >= 2 sites in the default
      configuration (positive control)
R41.3 from the operations the property names (hash, compare/eq, str, diff,
      subs/xreplace, expand, add/mul/pow/sub/div) no function reachable in the
      call graph writes a variable of static storage duration that is neither
      const, std::atomic nor written under a lock
"""
from selib.program import walk, show, short, strip_type, children
from selib.callgraph import CallGraph, split
from selib.visitors import Visitors
from selib.build import AnalysisBroken

ROOT_CLASSES = ("SymEngine::Basic", "SymEngine::EnableRCPFromThis")

# entry points (qualified names) for R41.3: the operations of the statement
ENTRY = {
    "hash": ["SymEngine::Basic::hash"],
    "compare": ["SymEngine::Basic::__cmp__", "SymEngine::eq",
                "SymEngine::neq", "SymEngine::Basic::__neq__"],
    "print": ["SymEngine::str", "SymEngine::Basic::__str__"],
    "differentiate": ["SymEngine::Basic::diff", "SymEngine::diff",
                      "SymEngine::sdiff"],
    "substitute": ["SymEngine::Basic::subs", "SymEngine::Basic::xreplace",
                   "SymEngine::subs", "SymEngine::xreplace",
                   "SymEngine::msubs", "SymEngine::ssubs"],
    "expand": ["SymEngine::expand"],
    "combine": ["SymEngine::add", "SymEngine::mul", "SymEngine::pow",
                "SymEngine::sub", "SymEngine::div", "SymEngine::neg"],
}

ATOMIC_OK = ("std::atomic<", "std::atomic_", "std::mutex", "std::once_flag",
             "std::recursive_mutex", "std::shared_mutex")
LOCK_TYPES = ("std::lock_guard<", "std::unique_lock<", "std::scoped_lock<",
              "std::shared_lock<")
# non-const overloads of std accessors that do not modify the container; the
# reference/iterator they return is followed to see whether it is written
READ_ACCESSORS = {"begin", "end", "rbegin", "rend", "cbegin", "cend", "find",
                  "lower_bound", "upper_bound", "equal_range", "data", "get"}
ELEMENT_ACCESSORS = {"back", "front", "at", "operator[]", "operator*",
                     "operator->"}
STD_MUTATORS = {"swap", "sort", "stable_sort", "fill", "iota", "reverse",
                "getline", "iter_swap", "exchange"}
ASSIGN_OPS = {"=", "+=", "-=", "*=", "/=", "%=", "&=", "|=", "^=", "<<=",
              ">>="}


def strip_targs(qn):
    """SeriesBase<...>::step_list -> SeriesBase::step_list"""
    out = []
    d = 0
    for ch in qn:
        if ch == "<":
            d += 1
        elif ch == ">":
            d -= 1
        elif d == 0:
            out.append(ch)
    return "".join(out)


def is_atomic_type(t):
    t = strip_type(t)
    return t.startswith(ATOMIC_OK)


def is_const_type(t):
    t = (t or "").strip()
    while t.endswith("&"):
        t = t[:-1].strip()
    return t.startswith("const ") or t.endswith(" const")


class StaticWrites:
    """which functions write mutable static-storage variables, directly or
    through a reference obtained from an 'exposer' (a function returning a
    non-const reference to a static)"""

    def __init__(self, prog):
        self.prog = prog
        self.statics = {}
        for qn, g in prog.globals.items():
            self.statics[qn] = g
        self.exposers = {}          # usr -> static qn
        self._pw = {}               # (usr, param index) -> bool
        self._pidx = None
        self._sl = {}               # static locals of the function in focus
        self._find_exposers()

    def mutable_static(self, q):
        g = self.statics.get(q)
        if g is None:
            return None
        if g.get("const") or is_const_type(g.get("t")):
            return None
        if is_atomic_type(g.get("t")):
            return None
        if g.get("tls"):
            return None             # one instance per thread: not shared
        return g

    def _static_of(self, e, env):
        """static variable qn an lvalue expression denotes (through element
        accessors and aliases), else None"""
        while e is not None:
            k = e.get("k")
            if k == "ref":
                if e.get("d") == "slocal" and e.get("n") in self._sl:
                    v = self._sl[e["n"]]
                    if v.get("const") or v.get("tls") \
                            or is_const_type(v.get("t")) \
                            or is_atomic_type(v.get("t")):
                        return None
                    return e.get("q")
                if e.get("d") in ("global", "slocal"):
                    return e.get("q") if self.mutable_static(
                        e.get("q")) else None
                if e.get("d") == "local":
                    return env.get(e.get("n"))
                if e.get("d") == "param" and self._pidx is not None \
                        and e.get("i") == self._pidx:
                    return "#param"
                return None
            if k == "mem":
                e = e.get("o")
                continue
            if k in ("mcall",) and e.get("n") in (ELEMENT_ACCESSORS
                                                  | READ_ACCESSORS):
                e = e.get("o")
                continue
            if k == "op" and e.get("op") in ("[]", "*", "->") \
                    and e.get("a"):
                e = e["a"][0]
                continue
            if k == "bin" and e.get("op") == "[]":
                e = e["a"][0]
                continue
            if k == "un" and e.get("op") == "*":
                e = e["a"][0]
                continue
            if k == "cast":
                e = e["a"][0]
                continue
            if k == "call" and e.get("u") in self.exposers:
                return self.exposers[e["u"]]
            return None
        return None

    def _find_exposers(self):
        for u, f in self.prog.functions.items():
            if f.get("dependent") or f.get("tk") == "pattern" \
                    or not f.get("body"):
                continue
            rt = (f.get("ret") or "").strip()
            if not rt.endswith("&") or is_const_type(rt):
                continue
            self._sl = self._static_locals(f["body"])
            for n in walk(f["body"]):
                if n.get("k") == "return" and n.get("e"):
                    q = self._static_of(n["e"], {})
                    if q:
                        self.exposers[u] = q

    def writes(self, f, body=None, depth=0):
        """[(line, static qn, text, locked)] for one function body"""
        out = []
        body = body if body is not None else f.get("body")
        if not body:
            return out
        saved_sl = self._sl
        self._sl = self._static_locals(body)
        try:
            return self._writes(f, body, depth, out)
        finally:
            self._sl = saved_sl

    @staticmethod
    def _static_locals(body):
        sl = {}
        for n in walk(body):
            if n.get("k") == "decl":
                for v in n.get("v", ()):
                    if v.get("static"):
                        sl[v["n"]] = v
        return sl

    def _writes(self, f, body, depth, out):
        env = {}
        locks = []
        # pass 1: aliases and locks (flow-insensitive within the function: a
        # reference local is bound once)
        for n in walk(body):
            if n.get("k") == "decl":
                for v in n.get("v", ()):
                    t = (v.get("t") or "").strip()
                    if strip_type(t).startswith(LOCK_TYPES):
                        locks.append(n.get("l") or 0)
                    if t.endswith("&") and not is_const_type(t) \
                            and v.get("i") is not None:
                        q = self._static_of(v["i"], env)
                        if q:
                            env[v["n"]] = q

        def locked(line):
            return any(l <= (line or 0) for l in locks)

        def note(line, q, n):
            out.append((line, q, show(n)[:90], locked(line)))

        for n in walk(body):
            k = n.get("k")
            line = n.get("l")
            if k == "bin" and n.get("op") in ASSIGN_OPS:
                q = self._static_of(n["a"][0], env)
                if q:
                    note(line, q, n)
            elif k == "op" and n.get("op") in ASSIGN_OPS and n.get("a"):
                q = self._static_of(n["a"][0], env)
                if q:
                    note(line, q, n)
            elif k == "un" and n.get("op") in ("++", "--"):
                q = self._static_of(n["a"][0], env)
                if q:
                    note(line, q, n)
            elif k == "op" and n.get("op") in ("++", "--") and n.get("a"):
                q = self._static_of(n["a"][0], env)
                if q:
                    note(line, q, n)
            elif k == "mcall":
                name = n.get("n")
                if name in READ_ACCESSORS or name in ELEMENT_ACCESSORS:
                    continue
                h = self.prog.header(n.get("u")) if n.get("u") else {}
                if h.get("const") or h.get("static"):
                    continue
                q = self._static_of(n.get("o"), env)
                if q:
                    note(line, q, n)
            elif k in ("call", "ctor") and n.get("u"):
                # passing the static by non-const reference to a function
                # that writes through that parameter
                h = self.prog.header(n["u"])
                ps = h.get("params", ())
                for i, a in enumerate(n.get("a", ())):
                    if i < len(ps):
                        pt = (ps[i].get("t") or "").strip()
                        if pt.endswith("&") and not is_const_type(pt):
                            q = self._static_of(a, env)
                            if q and self.param_written(n["u"], i, depth):
                                note(line, q, n)
        return out

    def param_written(self, u, i, depth=0):
        """does function u (may) write through its i-th reference
        parameter?  Functions defined in the repository are summarised from
        their bodies (depth <= 3); of the standard library only the named
        mutators write through a reference argument."""
        key = (u, i)
        if key in self._pw:
            return self._pw[key]
        f = self.prog.functions.get(u)
        if f is None or not f.get("body") or f.get("dependent"):
            h = self.prog.header(u)
            r = (h.get("n") in STD_MUTATORS)
            self._pw[key] = r
            return r
        if depth > 3:
            return True
        self._pw[key] = False       # recursion guard
        saved = self._pidx
        self._pidx = i
        try:
            r = any(q == "#param"
                    for (_l, q, _t, _k) in self.writes(f, depth=depth + 1))
        finally:
            self._pidx = saved
        self._pw[key] = r
        return r


def run(loader, R, tier):
    prog = loader("ts")
    if prog.cfg != "ts":
        raise AnalysisBroken("thread-safe configuration not loaded")
    R.explanation = (
        "The sources are parsed in the configuration cmake produces for "
        "-DWITH_SYMENGINE_THREAD_SAFE=yes. R41.1: every mutable data member "
        "of the shared object classes is atomic. R41.2: the const_cast that "
        "steals a dictionary from an operand is absent in this configuration "
        "(and the same detector finds it in the default configuration). "
        "R41.3: over the call graph (CHA for virtual calls, visitor-sensitive "
        "dispatch) below the operations the property names, no function "
        "writes a non-const, non-atomic variable of static storage duration "
        "outside a lock; a report carries the call path from the entry point "
        "to the write. Races on anything other than these fields and "
        "statics, memory ordering, and equality of per-thread results are "
        "not decided.")
    R.rule("R41.1", "mutable members of shared objects are std::atomic")
    R.rule("R41.2", "no const-removing cast on shared state in the "
                    "thread-safe configuration")
    R.rule("R41.3", "no unguarded write to mutable static storage reachable "
                    "from the named operations")
    R.trusted += ["initialisation of function-local statics is thread-safe "
                  "(C++11 magic statics)",
                  "READ_ACCESSORS/ELEMENT_ACCESSORS: non-const std accessor "
                  "overloads that do not modify the container"]
    R.assumptions += ["objects local to one call (visitors, temporaries) are "
                      "not shared between threads",
                      "namespace-scope constants are written only during "
                      "static initialisation (ConstantInitializer), which is "
                      "not reachable from the entry points — checked by the "
                      "reachability itself"]

    # ---------------------------------------------------------------- R41.1
    shared = set()
    for rc in ROOT_CLASSES:
        for c in prog.classes:
            if c == rc or c.startswith(rc + "<") or any(
                    a == rc or a.startswith(rc + "<")
                    for a in prog.ancestors(c)):
                shared.add(c)
    nmut = 0
    for c in sorted(shared):
        k = prog.classes[c]
        if k.get("tk") == "pattern" or k.get("dependent"):
            continue
        for fld in k.get("fields", ()):
            if not fld.get("mutable"):
                continue
            nmut += 1
            key = "%s::%s" % (short(c), fld["n"])
            R.instance("R41.1", key, sample={"member": key,
                                             "type": short(fld["t"])})
            if not is_atomic_type(fld["t"]):
                R.violation(
                    "R41.1", key,
                    "%s:%s" % (k.get("file", "?").replace("/repo/", ""),
                               fld.get("line")),
                    "mutable member %s of a shared object class has the "
                    "non-atomic type %s in the thread-safe configuration: "
                    "concurrent const operations race on it"
                    % (key, short(fld["t"])))
    # refcount_: not declared mutable (RCP casts const away in its own
    # implementation), so check it by name
    nref = 0
    for c in sorted(shared):
        k = prog.classes[c]
        if k.get("tk") == "pattern" or k.get("dependent"):
            continue
        for fld in k.get("fields", ()):
            if fld["n"] == "refcount_":
                nref += 1
                key = "%s::refcount_" % short(c)
                R.instance("R41.1", key, sample={"member": key,
                                                 "type": short(fld["t"])})
                if not is_atomic_type(fld["t"]):
                    R.violation(
                        "R41.1", key,
                        "%s:%s" % (k.get("file", "?").replace("/repo/", ""),
                                   fld.get("line")),
                        "reference count %s has the non-atomic type %s in "
                        "the thread-safe configuration" % (
                            key, short(fld["t"])))
    R.floor("mutable members of shared classes", nmut, 1)
    R.floor("reference count members", nref, 1)

    # ---------------------------------------------------------------- R41.4
    # the release of a reference must decide "was I the last owner?" from the
    # value returned by the atomic decrement itself; a separate read of the
    # counter (use_count()) after the decrement lets two threads both see 0,
    # or read the counter of an object another thread already freed
    from selib import sym as _sym
    R.rule("R41.4", "every delete in the RCP implementation is guarded by "
                    "the result of the atomic decrement itself")
    ndel = 0
    seen_keys = set()
    for u, f in prog.functions.items():
        if not f["file"].endswith("symengine_rcp.h") or not f.get("body") \
                or f.get("dependent") or f.get("tk") == "pattern":
            continue

        def cb4(n, guards, line, f=f):
            nonlocal ndel
            if n.get("k") != "delete":
                return
            key = "%s@%s" % (short(strip_targs(f["qn"])), n.get("l"))
            ok = False
            for g in _sym.flatten_guards(guards):
                if g[0] == "case":
                    continue
                c, pol = g
                for x in walk(c):
                    if x.get("k") in ("un", "op") and x.get("op") == "--" \
                            and "refcount_" in show(x):
                        ok = True
                    if x.get("k") == "mcall" and x.get("n") in (
                            "fetch_sub",) and "refcount_" in show(x):
                        ok = True
            if key not in seen_keys:
                seen_keys.add(key)
                ndel += 1
                R.instance("R41.4", key, sample={
                    "delete_in": short(strip_targs(f["qn"])),
                    "guarded_by_decrement_result": ok})
                if not ok:
                    R.violation(
                        "R41.4", short(strip_targs(f["qn"])),
                        prog.loc(f, n.get("l")),
                        "%s deletes the object under a condition that does "
                        "not use the value of the atomic decrement itself: "
                        "decrement and test are two steps, so two threads "
                        "releasing concurrently can both delete, or read "
                        "the counter of a freed object" % short(
                            strip_targs(f["qn"])))
        _sym.visit_guarded(f["body"], cb4)
    R.floor("delete sites in the RCP implementation", ndel, 2)

    # ---------------------------------------------------------------- R41.2
    def const_casts(p):
        out = []
        for u, f in p.functions.items():
            if f.get("dependent") or f.get("tk") == "pattern" \
                    or not f.get("body"):
                continue
            if f["file"].endswith(("symengine_rcp.h", ".tab.cc", ".tab.hh",
                                   "tokenizer.cpp")) \
                    or "/parser/" in f["file"]:
                continue
            for n in walk(f["body"]):
                if n.get("k") == "cast" and n.get("ck") == "const":
                    out.append((f, n))
        return out
    ts_casts = const_casts(prog)
    for f, n in ts_casts:
        key = "%s@%s" % (short(f["qn"]), n.get("l"))
        R.instance("R41.2", key)
        R.violation("R41.2", short(f["qn"]), prog.loc(f, n.get("l")),
                    "const_cast `%s` in %s is compiled in the thread-safe "
                    "configuration: it mutates state of an object other "
                    "threads may be reading" % (show(n)[:80], short(f["qn"])))
    dprog = loader("default")
    dcasts = const_casts(dprog)
    R.instance("R41.2", "positive-control:default-configuration",
               sample={"const_casts_in_default_configuration": [
                   "%s@%s" % (short(f["qn"]), n.get("l"))
                   for f, n in dcasts]})
    R.floor("const_cast sites found by the same detector in the default "
            "configuration (positive control)", len(dcasts), 2)

    # ---------------------------------------------------------------- R41.3
    V = Visitors(prog)
    G = CallGraph(prog, V)
    SW = StaticWrites(prog)
    nstat = sum(1 for q in SW.statics if SW.mutable_static(q))
    R.info["static_storage_variables"] = len(SW.statics)
    R.info["mutable_non_atomic_statics"] = sorted(
        q for q in SW.statics if SW.mutable_static(q)
        and not q.endswith("_buf"))[:60]
    R.info["exposers"] = {short(prog.name_of(u)): q
                          for u, q in SW.exposers.items()}
    R.floor("mutable static-storage variables enumerated", nstat, 5)
    for q, g in sorted(SW.statics.items()):
        cls = ("const" if (g.get("const") or is_const_type(g.get("t")))
               else "atomic" if is_atomic_type(g.get("t"))
               else "thread_local" if g.get("tls") else "mutable")
        R.instance("R41.3", "static:" + q, nontrivial=(cls == "mutable"),
                   sample={"static": q, "class": cls,
                           "type": short(g.get("t", ""))[:60]}
                   if cls != "const" and not q.endswith("_buf") else None)

    # writers
    writers = {}
    for u, f in prog.functions.items():
        if f.get("dependent") or f.get("tk") == "pattern" \
                or not f.get("body"):
            continue
        w = [x for x in SW.writes(f) if not x[3]]
        if w:
            writers[u] = w
    R.info["functions_writing_mutable_statics"] = sorted(
        short(prog.name_of(u)) for u in writers)
    R.floor("functions writing mutable statics (anywhere)", len(writers), 2)
    for u, w in sorted(writers.items(),
                       key=lambda kv: prog.functions[kv[0]]["qn"]):
        R.instance("R41.3", "writer:" + short(prog.functions[u]["qn"]),
                   sample={"writer": short(prog.functions[u]["qn"]),
                           "statics": sorted({x[1] for x in w})})

    total_reach = set()
    found = {}                      # writer usr -> {op: path}
    for op, qns in sorted(ENTRY.items()):
        roots = []
        for qn in qns:
            us = [u for u in prog.by_qn.get(qn, ())
                  if not prog.functions[u].get("dependent")
                  and prog.functions[u].get("tk") != "pattern"]
            roots += us
        if not roots:
            raise AnalysisBroken("no entry point resolved for operation "
                                 + op)
        reach, parent = G.reachable_from(roots)
        total_reach |= reach
        hit = {}
        for x in reach:
            u = split(x)[0]
            if u in writers and u not in hit:
                hit[u] = x
        R.instance("R41.3", op, sample={
            "operation": op, "entry_points": len(roots),
            "functions_reachable": len(reach),
            "static_writers_reached": len(hit)})
        for u, x in hit.items():
            path = []
            y = x
            while y in parent and len(path) < 40:
                y, l = parent[y]
                path.append("%s:%s" % (G.label(y), l))
            path.reverse()
            found.setdefault(u, {})[op] = path
    # one finding per unprotected static writer (the defect is the write);
    # the report lists every operation that reaches it and the shortest path
    for u, ops in sorted(found.items(),
                         key=lambda kv: prog.functions[kv[0]]["qn"]):
        f = prog.functions[u]
        line, q, text, _l = writers[u][0]
        op, path = min(ops.items(), key=lambda kv: (len(kv[1]), kv[0]))
        key = "%s:%s" % (short(strip_targs(f["qn"])), q.split("::")[-1])
        R.violation(
            "R41.3", key, prog.loc(f, line),
            "%s writes the static `%s` (`%s`) with no lock and is reachable "
            "from the operations {%s}; shortest path (%s): %s -> %s"
            % (short(f["qn"]), q, text, ", ".join(sorted(ops)), op,
               " -> ".join(path[-12:]), short(f["qn"])),
            detail={"paths": ops, "static": q})
    R.info["functions_reachable_from_entry_points"] = len(total_reach)
    R.floor("functions reachable from the entry points", len(total_reach),
            1500)


MANIFEST = dict(
    technique="type rule on the class table + preprocessed-configuration "
              "query + effect analysis (writes to static storage) over a "
              "CHA / visitor-sensitive call graph of the thread-safe "
              "configuration",
    text="Decides, for the configuration cmake produces with "
         "WITH_SYMENGINE_THREAD_SAFE, three necessary conditions of race "
         "freedom for all schedules: every mutable member and the reference "
         "count of the shared object classes is std::atomic; the dictionary-"
         "stealing const_cast is compiled out; and no function reachable "
         "from hash/compare/print/diff/subs/expand/add/mul/pow writes a non-"
         "const non-atomic static-storage variable without a lock (call "
         "path reported). Memory ordering, races on other state and "
         "equality of per-thread results are not decided.",
    note="Configure-only second configuration; function-local static "
         "initialisation is thread-safe by the language.",
    ref="§2 C41",
)
