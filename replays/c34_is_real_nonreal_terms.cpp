#include <symengine/basic.h>
#include <symengine/add.h>
#include <symengine/mul.h>
#include <symengine/pow.h>
#include <symengine/complex.h>
#include <symengine/constants.h>
#include <symengine/symbol.h>
#include <symengine/logic.h>
#include <symengine/sets.h>
#include <symengine/assumptions.h>
#include <symengine/test_visitors.h>
#include <iostream>
using namespace SymEngine;
const char *ts(tribool t){ return is_true(t)?"true":is_false(t)?"false":"indeterminate"; }
int main(){
    RCP<const Basic> x = symbol("x"), y = symbol("y");
    set_basic st{contains(x, reals()), contains(y, reals())};
    Assumptions a(st);
    auto e1 = mul(I, x);
    std::cout << "is_real(I*x | x real) = " << ts(is_real(*e1, &a)) << "   (x = 0 gives 0, which is real)\n";
    auto e2 = add(mul(I, x), mul(I, y));
    std::cout << "args: " << e2->__str__() << "\n";
    std::cout << "is_real(I*x + I*y | x,y real) = " << ts(is_real(*e2, &a)) << "   (x = 1, y = -1 gives 0)\n";
    auto e3 = add(mul(I,x), mul(mul(I, y), pi));
    std::cout << e3->__str__() << ": is_real = " << ts(is_real(*e3, &a)) << "\n";
    // rational: GoldenRatio - sqrt(5)/2 = 1/2
    auto e4 = add(GoldenRatio, mul(rational(-1,2), sqrt(integer(5))));
    std::cout << e4->__str__() << ": is_rational = " << ts(is_rational(*e4)) << "\n";
    auto e5 = add(pi, E);
    std::cout << e5->__str__() << ": is_rational = " << ts(is_rational(*e5)) << "  is_irrational = " << ts(is_irrational(*e5)) << "\n";
    auto e6 = add(pi, mul(integer(-1), pi));
    std::cout << e6->__str__() << "\n";
    // algebraic: pi + E
    std::cout << "is_algebraic(pi+E) = " << ts(is_algebraic(*e5)) << "\n";
    // positive Add under nonneg? 
    return 0;
}
