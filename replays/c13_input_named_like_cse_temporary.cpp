// C13: an input symbol that no output uses, named like a cse temporary
#include <symengine/basic.h>
#include <symengine/add.h>
#include <symengine/functions.h>
#include <symengine/symbol.h>
#include <symengine/lambda_double.h>
#include <iostream>
#include <cmath>
using namespace SymEngine;
int main(){
    RCP<const Basic> x0 = symbol("x0"), y = symbol("y");
    RCP<const Basic> e = add(sin(y), cos(sin(y)));
    double in[2] = {5.0, 0.7}, out_cse, out_plain;
    LambdaRealDoubleVisitor a, b;
    a.init({x0, y}, {e}, true);
    b.init({x0, y}, {e}, false);
    a.call(&out_cse, in);
    b.call(&out_plain, in);
    double ref = std::sin(0.7) + std::cos(std::sin(0.7));
    std::cout << "reference " << ref << "   cse=false " << out_plain << "   cse=true " << out_cse << "\n";
    return std::fabs(out_cse - ref) < 1e-12 ? 0 : 1;
}
