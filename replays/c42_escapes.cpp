// Replay of C42 candidates: does a C++ exception leave an extern "C" function?
// Each case runs in a forked child; "escaped" = terminate() (SIGABRT) with an
// uncaught exception or caught here by a C++ catch around the C call.
#include <symengine/cwrapper.h>
#include <symengine/sets.h>
#include <symengine/logic.h>
#include <symengine/functions.h>
#include <symengine/symbol.h>
#include <cstdio>
#include <cstring>
#include <unistd.h>
#include <sys/wait.h>
#include <functional>
using namespace SymEngine;

static void run(const char *name, std::function<void()> f)
{
    fflush(stdout);
    pid_t p = fork();
    if (p == 0) {
        try { f(); printf("%-40s returned normally\n", name); }
        catch (std::exception &e) { printf("%-40s C++ EXCEPTION ESCAPED: %s\n", name, e.what()); }
        fflush(stdout); _exit(0);
    }
    int st; waitpid(p, &st, 0);
    if (WIFSIGNALED(st)) printf("%-40s killed by signal %d\n", name, WTERMSIG(st));
}

int main()
{
    run("basic_dumps(Complexes)", [] {
        basic s; basic_new_stack(s); basic_set_complexes(s);
        unsigned long n; char *c = basic_dumps(s, &n); (void)c;
    });
    run("basic_dumps(parse 'x+1') (control)", [] {
        basic s; basic_new_stack(s); basic_parse(s, "x+1");
        unsigned long n; char *c = basic_dumps(s, &n); (void)c;
    });
    run("lambda_init(f(x))", [] {
        basic x, e; basic_new_stack(x); basic_new_stack(e);
        symbol_set(x, "x"); basic_parse(e, "f(x)");
        CVecBasic *a = vecbasic_new(), *o = vecbasic_new();
        vecbasic_push_back(a, x); vecbasic_push_back(o, e);
        CLambdaRealDoubleVisitor *v = lambda_real_double_visitor_new();
        lambda_real_double_visitor_init(v, a, o, 0);
    });
    run("lambda_init(y not in args)", [] {
        basic x, e; basic_new_stack(x); basic_new_stack(e);
        symbol_set(x, "x"); basic_parse(e, "x+y");
        CVecBasic *a = vecbasic_new(), *o = vecbasic_new();
        vecbasic_push_back(a, x); vecbasic_push_back(o, e);
        CLambdaRealDoubleVisitor *v = lambda_real_double_visitor_new();
        lambda_real_double_visitor_init(v, a, o, 0);
    });
    run("lambda_call(Piecewise falls through)", [] {
        basic x, e; basic_new_stack(x); basic_new_stack(e);
        symbol_set(x, "x");
        // Piecewise((1, x < 0)) has no default branch
        RCP<const Basic> sx = symbol("x");
        RCP<const Basic> pw = piecewise({{integer(1), Lt(sx, integer(0))}});
        // hand the object to the C API through dumps/loads (pure C route)
        std::string d = pw->dumps();
        basic_loads(e, d.data(), d.size());
        CVecBasic *a = vecbasic_new(), *o = vecbasic_new();
        vecbasic_push_back(a, x); vecbasic_push_back(o, e);
        CLambdaRealDoubleVisitor *v = lambda_real_double_visitor_new();
        lambda_real_double_visitor_init(v, a, o, 0);
        double in = 2.0, out = 0;
        lambda_real_double_visitor_call(v, &out, &in);
    });
    run("basic_set_is_subset(ConditionSet, Intersection)", [] {
        RCP<const Basic> x = symbol("x"), y = symbol("y");
        RCP<const Set> cs = conditionset(x, Gt(x, integer(0)));
        // an Intersection that stays unevaluated: ImageSet & Interval?
        RCP<const Set> im = imageset(y, mul(y, y), interval(integer(0), integer(5)));
        RCP<const Set> is = set_intersection({im, interval(integer(1), integer(3))});
        printf("   cs=%s\n   is=%s (%s)\n", cs->__str__().c_str(), is->__str__().c_str(),
               type_code_name(is->get_type_code()).c_str());
        basic a, b; basic_new_stack(a); basic_new_stack(b);
        std::string d1 = cs->dumps(), d2 = is->dumps();
        basic_loads(a, d1.data(), d1.size()); basic_loads(b, d2.data(), d2.size());
        int r = basic_set_is_subset(a, b); printf("   -> %d\n", r);
    });
    return 0;
}
