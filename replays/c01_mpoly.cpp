#include <symengine/polys/msymenginepoly.h>
#include <symengine/real_double.h>
#include <iostream>
using namespace SymEngine;
int main(){
  RCP<const Symbol> x=symbol("x"), y=symbol("y");
  RCP<const MIntPoly> a = MIntPoly::from_dict({x}, {{{0}, integer_class(3)}});
  RCP<const MIntPoly> b = MIntPoly::from_dict({y}, {{{1}, integer_class(3)}});
  std::cout << "a="<<a->__str__()<<" b="<<b->__str__()<<" eq(a,b)="<<eq(*a,*b)<<" eq(b,a)="<<eq(*b,*a)<<" hash same="<<(a->hash()==b->hash())<<" cmp="<<a->__cmp__(*b)<<"\n";
  RCP<const MIntPoly> c = MIntPoly::from_dict({y}, {{{0}, integer_class(3)}});
  std::cout << "a="<<a->__str__()<<" c="<<c->__str__()<<" eq(a,c)="<<eq(*a,*c)<<" hash same="<<(a->hash()==c->hash())<<" cmp="<<a->__cmp__(*c)<<"\n";
  auto p=real_double(0.0), n=real_double(-0.0);
  std::cout<<"eq(0.0,-0.0)="<<eq(*p,*n)<<" hash same="<<(p->hash()==n->hash())<<"\n";
}
