// Replay for C41 R41.3 (thread-safe configuration, ThreadSanitizer):
// two threads substitute into / combine shared immutable expressions.
#include <symengine/basic.h>
#include <symengine/symbol.h>
#include <symengine/integer.h>
#include <symengine/functions.h>
#include <symengine/ntheory_funcs.h>
#include <symengine/series_generic.h>
#include <symengine/pow.h>
#include <symengine/mul.h>
#include <thread>
#include <cstdio>
#include <cstring>
using namespace SymEngine;
int main(int argc, char **argv)
{
    RCP<const Symbol> x = symbol("x");
    if (argc > 1 && !strcmp(argv[1], "sieve")) {
        RCP<const Basic> e = primepi(x);               // shared, immutable
        auto work = [&](int base) {
            for (int i = 1; i <= 40; i++) {
                map_basic_basic d; d[x] = integer(base + 5000 * i);
                RCP<const Basic> r = e->subs(d);
                (void)r;
            }
        };
        std::thread a(work, 1000), b(work, 3000);
        a.join(); b.join();
        printf("sieve: done\n");
    } else {
        // 1/(1+x) as a series, raised to -1 concurrently with different precisions
        RCP<const Basic> ex = add(integer(1), x);
        auto work = [&](unsigned prec0) {
            for (unsigned i = 0; i < 30; i++) {
                RCP<const UnivariateSeries> s = UnivariateSeries::series(ex, "x", prec0 + i);
                RCP<const Number> r = s->pow(*integer(-1));
                (void)r;
            }
        };
        std::thread a(work, 10u), b(work, 25u);
        a.join(); b.join();
        printf("series: done\n");
    }
}
