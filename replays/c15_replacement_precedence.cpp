// C15 R15.6: nodes that the C printers print through a replacement expression
#include <symengine/basic.h>
#include <symengine/add.h>
#include <symengine/mul.h>
#include <symengine/pow.h>
#include <symengine/functions.h>
#include <symengine/symbol.h>
#include <symengine/printers.h>
#include <iostream>
using namespace SymEngine;
int main(){
    RCP<const Basic> x = symbol("x"), y = symbol("y"), z = symbol("z");
    std::cout << "ccode(y/cot(x))  = " << ccode(*div(y, cot(x)))  << "   (means y/tan(x), should be y*tan(x))\n";
    std::cout << "ccode(y/sec(x))  = " << ccode(*div(y, sec(x)))  << "\n";
    std::cout << "ccode(y/csc(x))  = " << ccode(*div(y, csc(x)))  << "\n";
    std::cout << "ccode(y/coth(x)) = " << ccode(*div(y, coth(x))) << "\n";
    std::cout << "ccode(y/sech(x)) = " << ccode(*div(y, sech(x))) << "\n";
    std::cout << "ccode(y/csch(x)) = " << ccode(*div(y, csch(x))) << "\n";
    std::cout << "ccode(z*unevaluated_expr(x+y)) = " << ccode(*mul(z, unevaluated_expr(add(x, y)))) << "   (should be z*(x + y))\n";
    return 0;
}
