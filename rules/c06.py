"""C06 — mixed-kind number arithmetic: exhaustive resolution of the
double-dispatch table over a finite abstract domain (engine E3).

For every ordered pair of abstract number points (kind x value class, 19
points) and every op in {add, sub, mul, div, pow} the member
K1::op(const Number&) is *interpreted* (is_a chains, other.rop(*this)
delegations, Number:: defaults, predicate bodies) until it reaches a constant
outcome, a kind-specific handler, or a throw.

R6.1 totality      no pair resolves to NotImplementedError / a delegation
                   cycle
R6.2 symmetry      add, mul: both orders reach the same handler with the
                   same operand roles, or equal constant outcomes
R6.3 nan absorbs   every pair with NaN on either side gives nan
R6.4 oo rules      oo + -oo = nan, 0*oo = nan, a non-zero finite real factor
                   keeps/flips the direction, non-zero exact / exact 0 = zoo
R6.5 contagion     finite float (op) finite exact reaches a handler that
                   constructs a floating number
"""
from selib.program import walk, show, short, strip_type
from selib.absint import Interp, TOP
from selib.numdom import (NumDomain, AbsNum, Handler, all_points, KINDS,
                          NS)
from selib.build import AnalysisBroken

OPS = ["add", "sub", "mul", "div", "pow"]


def constructs_float(prog, usr, depth=0):
    f = prog.functions.get(usr)
    if f is None or not f.get("body") or depth > 2:
        return False
    for n in walk(f["body"]):
        if n.get("k") == "call":
            if n.get("n") == "make_rcp" and n.get("ta") and strip_type(
                    n["ta"][0]) in (NS + "RealDouble", NS + "ComplexDouble"):
                return True
            if n.get("n") in ("real_double", "complex_double", "number"):
                return True
    return False


def summarize(outs):
    """(tag, value) of the outcome set of one table entry"""
    if not outs:
        return ("none", None)
    if any(not o.definite for o in outs):
        return ("undecided", None)
    kinds = {o.kind for o in outs}
    if kinds == {"throw"}:
        return ("throw", sorted({str(o.value) for o in outs})[0])
    if kinds == {"return"}:
        vals = {repr(o.value): o.value for o in outs}
        if len(vals) == 1:
            v = next(iter(vals.values()))
            if isinstance(v, AbsNum):
                return ("const", v)
            if isinstance(v, Handler):
                return ("handler", v)
            return ("undecided", None)
        return ("multi", sorted(vals))
    return ("mixed", sorted(str(o) for o in outs))


def run(loader, R, tier):
    prog = loader()
    from selib import signpred
    R.rule("R6.0", "is_negative/is_zero/is_positive of Integer, Rational, "
                   "RealDouble are the comparisons of the value with 0 "
                   "(grounds the trusted atom table)")
    signpred.ground(prog, R, "R6.0")
    D = NumDomain(prog)
    I = Interp(prog, D)
    R.exhaustive = True
    R.explanation = (
        "Exhaustive abstract interpretation of the Number double-dispatch: "
        "every ordered pair of 19 abstract points (7 kinds refined by value "
        "class) x {add, sub, mul, div, pow} is resolved through the is_a "
        "chains, other.rop(*this) delegations, Number:: defaults and the "
        "interpreted predicate bodies to a constant, a kind-specific "
        "handler, or a throw. Only entries whose every branch condition "
        "evaluated definitely are judged. Decides the dispatch structure "
        "and the extended-number outcomes; the numeric value each handler "
        "computes is not decided.")
    for rid, t in (("R6.1", "totality of + - * / for all pairs and of "
                            "exact ** Integer: no NotImplemented / cycle"),
                   ("R6.2", "add/mul symmetric resolution"),
                   ("R6.3", "nan absorbs"),
                   ("R6.4", "extended-number table of the property"),
                   ("R6.5", "float contagion")):
        R.rule(rid, t)
    R.trusted += ["meaning of `i <op> literal` per value class; is_a<T> "
                  "tests the dynamic class; sign arithmetic on directions "
                  "-1/0/1", "oracle: the extended-number rules written in "
                  "the property statement"]
    R.assumptions += ["Rational points are never integers, Complex points "
                      "have a non-zero imaginary part (canonical form, C05)"]
    if len(D.kind_code) != len(KINDS):
        raise AnalysisBroken("number kinds missing: %s" % D.kind_code)

    pts = all_points()
    table = {}
    for op in OPS:
        for a in pts:
            u = prog.find_method(a.cls, op, 1)
            f = prog.functions.get(u)
            if f is None:
                raise AnalysisBroken("no body for %s::%s" % (a.kind, op))
            for b in pts:
                try:
                    outs = I.run(f, a, [b])
                except RecursionError:
                    outs = []
                table[(op, a, b)] = (summarize(outs), f)
    resolved = 0
    for (op, a, b), ((tag, val), f) in sorted(table.items(),
                                              key=lambda x: repr(x[0])):
        key = "%s(%r, %r)" % (op, a, b)
        nontriv = tag in ("const", "handler", "throw")
        if nontriv:
            resolved += 1
        R.instance("R6.1", key, nontrivial=nontriv,
                   sample={"entry": key, "resolves_to": "%s %r" % (tag, val)})
        if tag in ("undecided", "multi", "mixed", "none"):
            R.undecided_obligation("R6.1", key, "%s %s" % (tag, val))
            continue
        in_scope = op != "pow" or (b.kind == "Integer" and a.is_exact())
        if tag == "throw" and "NotImplemented" in str(val) and in_scope:
            R.violation(
                "R6.1", "%s:%s:%s" % (op, a.kind, b.kind), prog.loc(f),
                "%s resolves to `throw %s`: the %s of a %s and a %s is not "
                "implemented" % (key, val, op, a.kind, b.kind))
    R.floor("resolved (pair, op) entries", resolved, 1500)

    # ---------------------------------------------------------------- R6.2
    for op in ("add", "mul"):
        for i, a in enumerate(pts):
            for b in pts[i:]:
                (t1, v1), f1 = table[(op, a, b)]
                (t2, v2), f2 = table[(op, b, a)]
                key = "%s:%r:%r" % (op, a, b)
                if t1 in ("undecided", "multi", "mixed", "none") or \
                        t2 in ("undecided", "multi", "mixed", "none"):
                    continue
                R.instance("R6.2", key)
                same = (t1 == t2) and (
                    v1 == v2 if t1 != "handler" else
                    (v1.qn == v2.qn and v1.this == v2.this
                     and v1.args == v2.args))
                if t1 == t2 == "handler" and not same \
                        and a.kind == b.kind and v1.qn == v2.qn \
                        and {v1.this} | set(v1.args) \
                        == {v2.this} | set(v2.args):
                    # same routine of the same class: the operand roles are
                    # necessarily swapped; its commutativity is value-level
                    same = True
                if not same:
                    R.violation(
                        "R6.2", "%s:%s:%s" % (op, a.kind, b.kind),
                        prog.loc(f1),
                        "%s is not symmetric: %s(%r, %r) -> %s %r but "
                        "%s(%r, %r) -> %s %r" % (op, op, a, b, t1, v1, op,
                                                 b, a, t2, v2))

    # ---------------------------------------------------------------- R6.3
    nan = AbsNum("NaN", "nan")
    for op in OPS:
        for p in pts:
            for a, b in ((nan, p), (p, nan)):
                (t, v), f = table[(op, a, b)]
                key = "%s(%r, %r)" % (op, a, b)
                if t in ("undecided", "multi", "mixed", "none"):
                    continue
                R.instance("R6.3", key)
                if not (t == "const" and v == nan):
                    R.violation(
                        "R6.3", "%s:%s:%s" % (op, a.kind, b.kind),
                        prog.loc(f),
                        "nan does not absorb: %s -> %s %r" % (key, t, v))

    # ---------------------------------------------------------------- R6.4
    def expect(op, a, b, want, why):
        (t, v), f = table[(op, a, b)]
        key = "%s(%r, %r)" % (op, a, b)
        if t == "handler" and v.usr in prog.functions:
            # second stage: interpret the handler body itself
            t2, v2 = summarize(I.run(prog.functions[v.usr], v.this,
                                     list(v.args)))
            if t2 == "const":
                t, v = t2, v2
            elif t2 in ("undecided", "multi", "mixed", "none"):
                t, v = "undecided", "handler %s not decided" % short(v.qn)
        if t in ("undecided", "multi", "mixed", "none"):
            R.undecided_obligation("R6.4", key, "%s %s" % (t, v))
            return
        R.instance("R6.4", key, sample={"entry": key, "expected": repr(want),
                                        "got": "%s %r" % (t, v)})
        if not (t == "const" and v == want):
            R.violation("R6.4", "%s:%r:%r" % (op, a, b), prog.loc(f),
                        "%s -> %s %r, the extended-number rules require %r "
                        "(%s)" % (key, t, v, want, why))
    pinf, ninf, zoo = (AbsNum("Infty", "+"), AbsNum("Infty", "-"),
                       AbsNum("Infty", "zoo"))
    expect("add", pinf, ninf, nan, "oo + -oo")
    expect("add", ninf, pinf, nan, "-oo + oo")
    expect("sub", pinf, pinf, nan, "oo - oo")
    for z in (AbsNum("Integer", "0"), AbsNum("RealDouble", "0")):
        for inf in (pinf, ninf, zoo):
            expect("mul", z, inf, nan, "0 * oo")
            expect("mul", inf, z, nan, "oo * 0")
    for p in pts:
        if p.is_real() and p.sign() in (1, -1):
            for inf in (pinf, ninf):
                want = inf if p.sign() == 1 else (ninf if inf == pinf
                                                  else pinf)
                expect("mul", p, inf, want, "non-zero finite factor keeps/"
                                            "flips the direction")
                expect("mul", inf, p, want, "non-zero finite factor keeps/"
                                            "flips the direction")
                expect("div", inf, p, want, "division by a non-zero finite "
                                            "real keeps/flips the direction")
    z0 = AbsNum("Integer", "0")
    for p in pts:
        if p.is_exact() and p.is_finite() and not (p.kind == "Integer"
                                                   and p.vc == "0"):
            expect("div", p, z0, zoo, "non-zero exact / exact zero")
    expect("div", z0, z0, nan, "0/0")

    # ---------------------------------------------------------------- R6.5
    for op in OPS:
        for a in pts:
            for b in pts:
                if not (a.is_finite() and b.is_finite()):
                    continue
                if not ((a.is_float() and b.is_exact())
                        or (a.is_exact() and b.is_float())):
                    continue
                (t, v), f = table[(op, a, b)]
                key = "%s(%r, %r)" % (op, a, b)
                if t != "handler":
                    if t == "const" and isinstance(v, AbsNum) \
                            and v.is_exact():
                        # e.g. x**0 handled as exact one: judged below
                        R.instance("R6.5", key)
                        R.violation(
                            "R6.5", "%s:%s:%s" % (op, a.kind, b.kind),
                            prog.loc(f),
                            "%s returns the exact constant %r for a float "
                            "operand" % (key, v))
                    continue
                R.instance("R6.5", key)
                # second stage: no definite path of the handler may return
                # one of its exact operands / an exact constant
                hf = prog.functions.get(v.usr)
                if hf is not None:
                    for o in I.run(hf, v.this, list(v.args)):
                        if o.kind == "return" and o.definite \
                                and isinstance(o.value, AbsNum) \
                                and o.value.is_exact():
                            R.violation(
                                "R6.5", "%s:%s:%s" % (op, a.kind, b.kind),
                                prog.loc(hf, o.line),
                                "%s: handler %s returns the exact value %r "
                                "on the path [%s]" % (
                                    key, short(v.qn), o.value, ", ".join(
                                        ("" if p else "!") + t
                                        for t, p in o.path)))
                if not constructs_float(prog, v.usr):
                    R.violation(
                        "R6.5", "%s:%s:%s" % (op, a.kind, b.kind),
                        prog.loc(f),
                        "%s reaches %s which does not construct a floating "
                        "number: an operation between a float and an exact "
                        "number would return an exact number"
                        % (key, short(v.qn)))
    R.floor("float-contagion entries", R.instances.get("R6.5", 0), 150)
    R.floor("nan entries", R.instances.get("R6.3", 0), 150)
    R.floor("extended-number entries", R.instances.get("R6.4", 0), 40)
    both_operands_used(prog, R)
    # R6.9: nan absorbs in the free div(): the shortcut for a zero divisor
    # returns zoo only where the dividend has been excluded from being nan
    # (and from being zero, which gives nan as well)
    R.rule("R6.9", "div(a, 0) returns zoo only after excluding a == nan "
                   "and a == 0")
    from selib import sym as _sym
    dfs = [f for f in prog.fn_by_qn("SymEngine::div")
           if len(f.get("params", ())) == 2
           and "RCP<const SymEngine::Basic>" in f["params"][0]["t"]]
    if len(dfs) != 1:
        raise AnalysisBroken("binary div() not found")
    df = dfs[0]
    a_name = df["params"][0]["n"]
    nz = [0]

    def cb9(n, guards, line):
        if n.get("k") != "return" or "ComplexInf" not in show(n.get("e")
                                                               or {}):
            return
        nz[0] += 1
        no_nan = no_zero = False
        for g in _sym.flatten_guards(guards):
            if g[0] == "case":
                continue
            c, pol = g
            t = show(c)
            if a_name not in t:
                continue
            if ("NaN" in t or "is_nan" in t) and not pol:
                no_nan = True
            if "is_number_and_zero" in t and not pol:
                no_zero = True
        R.instance("R6.9", "div@%s" % n.get("l"), sample={
            "nan_excluded": no_nan, "zero_excluded": no_zero})
        if not (no_nan and no_zero):
            R.violation(
                "R6.9", "div", prog.loc(df, n.get("l")),
                "div() returns zoo for a zero divisor without excluding "
                "that the dividend is %s: div(nan, 0) is zoo while "
                "nan->div(0) and mul(nan, 1/0) are nan" % (
                    "nan" if not no_nan else "zero"))
    from rules.c44 import _visit_returns
    _visit_returns(df["body"], cb9)
    if not nz[0]:
        raise AnalysisBroken("div(): no zero-divisor shortcut found")
    # R6.8: the Integer and the Rational overload of each Complex operation
    # are one formula (their zero-divisor branches decide between nan and
    # zoo the same way); shared with C05 R5.4
    R.rule("R6.8", "Integer and Rational overloads of the Complex "
                   "arithmetic members are the same formula (zero-divisor "
                   "branches included)")
    from rules.c05 import sibling_overloads
    sibling_overloads(prog, R, "R6.8")
    R.rule("R6.6", "add()/mul() of two Numbers is addnum()/mulnum()")
    basic_level_numbers(prog, R)


def basic_level_numbers(prog, R):
    """R6.6: at the Basic level add()/mul() of two Numbers must be the
    Number-level commutative operation (addnum/mulnum, which R6.1-R6.5
    decide), not the term-dictionary path whose treatment of inexact zeros
    depends on operand order."""
    from selib import sym as _sym
    want = {"SymEngine::add": "addnum", "SymEngine::mul": "mulnum"}
    for qn, core in sorted(want.items()):
        fs = [f for f in prog.fn_by_qn(qn)
              if len(f.get("params", ())) == 2
              and "RCP<const SymEngine::Basic>" in f["params"][0]["t"]
              and "vector" not in f["params"][0]["t"]]
        if len(fs) != 1:
            raise AnalysisBroken("%s(a, b): expected one definition, got %d"
                                 % (qn, len(fs)))
        f = fs[0]
        pa, pb = f["params"][0]["n"], f["params"][1]["n"]
        found = []
        ok_for = set()

        def cb(n, guards, line, f=f):
            if n.get("k") == "call" and n.get("n") in (core, "i" + core):
                numtests = set()
                composite = set()
                for g in _sym.flatten_guards(guards):
                    if g[0] == "case":
                        continue
                    c, pol = g
                    if c.get("k") != "call" or not pol:
                        continue
                    ps = {x["n"] for x in walk(c)
                          if x.get("k") == "ref" and x.get("d") == "param"}
                    if c.get("n") == "is_a_Number":
                        numtests |= ps
                    elif c.get("n") == "is_a":
                        composite |= ps
                args = {x["n"] for a_ in n.get("a", ()) for x in walk(a_)
                        if x.get("k") == "ref" and x.get("d") == "param"}
                for p in (pa, pb):
                    other = pb if p == pa else pa
                    if p in args and p in numtests \
                            and other not in composite:
                        ok_for.add(p)
                        found.append(n.get("l"))
        _sym.visit_guarded(f["body"], cb)
        R.instance("R6.6", short(qn), sample={
            "function": short(qn), "number_number_branch_calls": core,
            "lines": found})
        if ok_for != {pa, pb}:
            R.violation(
                "R6.6", short(qn), prog.loc(f),
                "%s(a, b): for two Numbers not both operands reach "
                "%s()/i%s() under their is_a_Number test: two numbers go "
                "through the term dictionary, "
                "whose result depends on operand order for inexact zeros "
                "(add(0.0, 1) vs add(1, 0.0))" % (short(qn), core, core))


def both_operands_used(prog, R):
    """R6.7: in the binary add()/mul() every returning path has used both
    operands (beyond asking what kind they are).  A path that returns after
    looking at one operand only cannot be commutative: mul(0, oo) would be 0
    while mul(oo, 0) is nan."""
    R.rule("R6.7", "every returning path of the binary add()/mul() has used "
                   "both operands")
    TESTS = ("is_a", "is_a_Number", "is_a_sub", "eq", "neq",
             "is_number_and_zero", "is_same_type")
    nret = 0
    for qn in ("SymEngine::add", "SymEngine::mul"):
        fs = [f for f in prog.fn_by_qn(qn)
              if len(f.get("params", ())) == 2
              and "RCP<const SymEngine::Basic>" in f["params"][0]["t"]
              and "vector" not in f["params"][0]["t"]]
        if len(fs) != 1:
            raise AnalysisBroken("binary %s not found" % qn)
        f = fs[0]
        ps = [p["n"] for p in f["params"]]
        # locals that merely rename an operand (`const auto &lhs = a;`)
        alias = {}
        for d in walk(f["body"]):
            if d.get("k") == "decl":
                for v in d.get("v", ()):
                    i = v.get("i")
                    while i is not None and i.get("k") in ("cast", "ctor") \
                            and len([a_ for a_ in i.get("a", ())
                                     if a_.get("k") != "defarg"]) == 1:
                        i = [a_ for a_ in i["a"]
                             if a_.get("k") != "defarg"][0]
                    if i is not None and i.get("k") == "ref" \
                            and i.get("d") == "param" and i.get("n") in ps:
                        alias[v["n"]] = i["n"]

        def uses(e):
            """operands read in e outside pure kind tests"""
            out = set()

            def rec(x, in_test):
                if not isinstance(x, dict):
                    return
                if x.get("k") == "call" and x.get("n") in TESTS:
                    in_test = True
                if x.get("k") == "ref" and x.get("d") == "param" \
                        and x.get("n") in ps and not in_test:
                    out.add(x["n"])
                if x.get("k") == "ref" and x.get("d") == "local" \
                        and x.get("n") in alias and not in_test:
                    out.add(alias[x["n"]])
                for v in x.values():
                    if isinstance(v, dict):
                        rec(v, in_test)
                    elif isinstance(v, list):
                        for y in v:
                            rec(y, in_test)
            rec(e, False)
            return out

        def scan(stmts, used):
            nonlocal nret
            used = set(used)
            for st in stmts:
                k = st.get("k")
                if k == "return":
                    nret += 1
                    have = used | uses(st.get("e") or {})
                    key = "%s@%s" % (short(qn), st.get("l"))
                    R.instance("R6.7", key)
                    if set(ps) - have:
                        R.violation(
                            "R6.7", short(qn), prog.loc(f, st.get("l")),
                            "%s can return (line %s) without having used "
                            "the operand `%s` for anything but a kind test: "
                            "the result for (a, b) ignores what b is, so it "
                            "differs from the result for (b, a) when b is "
                            "an infinity, nan or an inexact number" % (
                                short(qn), st.get("l"),
                                sorted(set(ps) - have)[0]))
                    return None
                if k == "{}":
                    r = scan(st.get("s", ()), used)
                    if r is None:
                        return None
                    used = r
                elif k == "if":
                    used |= uses(st.get("c") or {})
                    outs = []
                    for part in ("t", "e"):
                        b = st.get(part)
                        if b is None:
                            outs.append(set(used))
                            continue
                        r = scan(b.get("s", [b]) if b.get("k") == "{}"
                                 else [b], used)
                        if r is not None:
                            outs.append(r)
                    if not outs:
                        return None
                    used = set.intersection(*outs)
                elif k in ("for", "forr", "while", "do"):
                    b = st.get("b")
                    if b:
                        scan(b.get("s", [b]) if b.get("k") == "{}" else [b],
                             used | uses(st.get("r") or {}))
                    used |= uses(st.get("r") or {}) | uses(st.get("c") or {})
                else:
                    used |= uses(st)
            return used
        scan(f["body"].get("s", ()), set())
    R.floor("returns of the binary add()/mul()", nret, 6)


MANIFEST = dict(
    technique="exhaustive finite-domain abstract interpretation of the "
              "Number double-dispatch (19 abstract points x 19 x 5 ops)",
    text="Decides exhaustively, over the finite table of ordered pairs of "
         "abstract number points, that the dispatch is total (no "
         "NotImplemented), that add/mul resolve symmetrically, that nan "
         "absorbs on either side, that the extended-number rules named in "
         "the property hold (oo + -oo, 0*oo, direction kept/flipped by a "
         "real factor, non-zero exact / 0 = zoo, 0/0 = nan) and that "
         "float (op) exact reaches a float-constructing handler. The table "
         "is finite, so the run is exhaustive for the dispatch structure; "
         "the numeric value computed inside each handler is not decided.",
    note="Trusted: meaning of comparisons of the value member with -1/0/1 "
         "per value class, is_a<T>, direction sign arithmetic; the oracle "
         "is the rule list of the property statement.",
    ref="§2 C06",
)
