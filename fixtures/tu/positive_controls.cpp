// Analysis-only translation unit: tiny positive examples for rules whose
// expected number of matches on the real tree is zero.  Each rule must find
// its example here on every run (otherwise the detector is broken), and
// never reports these functions as violations of the library.
#include <symengine/basic.h>
#include <symengine/dict.h>
#include <symengine/mul.h>
#include <symengine/integer.h>

#include <symengine/printers/strprinter.h>
#include <sstream>
#include <string>
#include <vector>

namespace verif_positive
{
// R40.4: a non-owning reference obtained through an iterator, used after the
// iterator has been erased
int use_after_erase(SymEngine::map_basic_basic &d,
                    const SymEngine::RCP<const SymEngine::Basic> &k)
{
    auto it = d.find(k);
    if (it == d.end())
        return 0;
    const SymEngine::Basic &b = *it->first;
    d.erase(it);
    return static_cast<int>(b.hash() & 1);
}

// R44.10: an operand written next to an infix operator with a bare apply()
class BarePowPrinter : public SymEngine::StrPrinter
{
public:
    void _print_pow(std::ostringstream &o,
                    const SymEngine::RCP<const SymEngine::Basic> &a,
                    const SymEngine::RCP<const SymEngine::Basic> &b) override
    {
        o << parenthesizeLE(a, SymEngine::PrecedenceEnum::Pow) << "^"
          << apply(b);
    }
};

// R5.5: the built-in % truncates towards zero; on a possibly negative value
// taken from an Integer it selects the wrong residue class
long residue_of_exponent(const SymEngine::Integer &e)
{
    long rem = e.as_int() % 4;
    return rem;
}

// R44.11: a forward loop that prepends its elements reverses their order
void stack_lines_reversed(std::vector<std::string> &out,
                          const std::vector<std::string> &top)
{
    for (const std::string &line : top) {
        out.insert(out.begin(), "  " + line);
    }
}

// R5.6: the same operand tested twice, the other one not at all
bool both_fit(const SymEngine::Integer &a, const SymEngine::Integer &b)
{
    (void)b;
    return SymEngine::mp_fits_slong_p(a.as_integer_class())
           and SymEngine::mp_fits_slong_p(a.as_integer_class());
}

// R18.3: a find*() result used as a position without an npos test
std::string tail_after_digits(const std::string &token)
{
    size_t length = token.find_first_not_of("0123456789.");
    return token.substr(length);
}

// R12.7: unsigned fits-test, signed read
double low_word(const SymEngine::Integer &x)
{
    if (SymEngine::mp_fits_ulong_p(x.as_integer_class())) {
        return static_cast<double>(SymEngine::mp_get_si(x.as_integer_class()));
    }
    return 0.0;
}

// R29.4: machine-word read with no fits-test at all
long unguarded_word(const SymEngine::Integer &x)
{
    return SymEngine::mp_get_si(x.as_integer_class());
}
} // namespace verif_positive
