"""C42 — C API: no C++ exception escapes; Expression operators delegate to
the core functions.

R42.1 shape of the translation block (CWRAPPER_BEGIN/END)
R42.2 no escape: every call of an extern "C" function outside a catch-all
      try is to a callee that cannot throw (may-throw = least fixpoint over
      the visitor-sensitive call graph)
R42.3 Expression operator -> core function delegation
"""
from selib.program import walk, show, short, strip_type
from selib.callgraph import CallGraph, split
from selib.visitors import Visitors
from selib import sym
from selib.build import AnalysisBroken

# Named no-throw summaries where class-hierarchy analysis is too coarse.
# One fully qualified function each, with the reason (confirmed by reading).
NOTHROW = {
    "SymEngine::NumberWrapper::__str__":
        "abstract extension point: the base throws NotImplemented by design, "
        "every concrete wrapper must override; no object of the library has "
        "this dynamic type",
    "SymEngine::NumberWrapper::eval":
        "abstract extension point (see NumberWrapper::__str__)",
    "SymEngine::GaloisField::get_args":
        "builds var**i * coefficient with a Symbol base and non-negative "
        "Integer exponents: pow/mul/add cannot reach their throwing "
        "branches for these kinds",
    "SymEngine::UIntPoly::get_args": "as GaloisField::get_args",
    "SymEngine::URatPoly::get_args": "as GaloisField::get_args",
    "SymEngine::UExprPoly::get_args": "as GaloisField::get_args",
    "SymEngine::MIntPoly::get_args": "as GaloisField::get_args",
    "SymEngine::MExprPoly::get_args": "as GaloisField::get_args",
    "SymEngine::UnivariateSeries::get_args": "returns an empty vector",
}

# Call sites whose callee cannot throw for the arguments passed *there*
# (path-insensitive may-throw is too coarse).  One (caller overload, callee)
# pair each, confirmed by reading; an entry that matches no call site is an
# error (exit 2), so a stale entry cannot hide anything.
SITE_NOTHROW = {
    ("SymEngine::StrPrinter::bvisit(const SymEngine::Mul &)", "neg"):
        "neg(p.second) is under the guard is_a<Integer>/is_a<Rational>(p.second)"
        " and is_negative(): mul(-1, exact real) stays in Integer/Rational "
        "arithmetic, whose handlers for these kinds have no throw",
    ("SymEngine::StrPrinter::bvisit(const SymEngine::Mul &)",
     "as_numer_denom"):
        "the argument is x.get_coef(), statically an RCP<const Number>: of "
        "NumerDenomVisitor's handlers only those for Integer (fallback), "
        "Rational and Complex can run; they build Integers with integer(), "
        "lcm() and exact Integer mul/div, and Complex::from_two_nums is "
        "called with two Integers (it throws only for other kinds)",
}

# Classes whose objects cannot be created or received through the C API
# (no C function constructs them, no C function returns them): their method
# overriders are not candidates of virtual calls below the C API.
NOT_IN_C_API = {
    "SymEngine::SeriesBase<SymEngine::UExprDict, SymEngine::Expression, "
    "SymEngine::UnivariateSeries>":
        "power series objects are produced only by the C++ series() "
        "functions; cwrapper.h has no series entry point",
    "SymEngine::NumberWrapper":
        "abstract extension class, no concrete subclass in the library",
    "SymEngine::FunctionWrapper":
        "abstract extension class, no concrete subclass in the library",
}

OPERATOR_CORE = {"+": "add", "+=": "add", "-": "sub", "-=": "sub",
                 "*": "mul", "*=": "mul", "/": "div", "/=": "div",
                 "==": "eq"}
FREE_CORE = {"pow": "pow", "expand": "expand"}


def run(loader, R, tier):
    prog = loader()
    V = Visitors(prog)
    for c in NOT_IN_C_API:
        if c not in prog.classes:
            raise AnalysisBroken("excluded class %s not found" % c)
    G = CallGraph(prog, V, excluded_classes=NOT_IN_C_API)
    G.site_nothrow = dict(SITE_NOTHROW)
    R.explanation = (
        "For all 271 extern \"C\" functions of cwrapper.cpp: R42.1 checks "
        "the shape of every try/catch translation block; R42.2 computes the "
        "may-throw effect as a least fixpoint over the call graph below the "
        "C functions (direct calls, CHA for virtual calls, visitor-sensitive "
        "resolution of accept(), closures, cereal call-backs) and requires "
        "every call outside a catch-all try to be to a no-throw callee; a "
        "report carries a witness call chain down to the throw expression. "
        "R42.3 resolves each Expression operator to the core function it "
        "calls. Equality of C and C++ results as values and the container "
        "semantics of the C vector/set/map types are not decided.")
    R.rule("R42.1", "try blocks of C functions have a catch-all, handlers "
                    "return an error code, success return ends the try")
    R.rule("R42.2", "no may-throw call outside a catch-all in any extern C "
                    "function")
    R.rule("R42.3", "Expression operators delegate to the matching core "
                    "function")
    R.trusted += ["standard-library calls do not throw except at/sto*/"
                  "substr(pos>0)/any_cast; allocation failure is out of "
                  "scope", "named no-throw summaries (NOTHROW table, one "
                  "function each with its reason)"]
    for k, v in NOTHROW.items():
        R.exception(k, v)
    for k, v in NOT_IN_C_API.items():
        R.exception(k, "class outside the C API's object universe: " + v)
    for (caller, callee), v in SITE_NOTHROW.items():
        R.exception("%s -> %s()" % (caller, callee),
                    "call site no-throw for its arguments: " + v)

    ec = [f for f in prog.functions.values()
          if f.get("externc") and f["file"].endswith("cwrapper.cpp")
          and f.get("body")]
    R.floor("extern C functions", len(ec), 231)

    # ---------------------------------------------------------------- R42.1
    wrapped = 0
    for f in ec:
        tries = [s for s in walk(f["body"]) if s.get("k") == "try"]
        for t in tries:
            wrapped += 1
            key = "%s@%s" % (f["n"], t.get("l"))
            R.instance("R42.1", key)
            hs = t.get("h", ())
            if not any(h.get("t") == "..." for h in hs):
                R.violation("R42.1", f["n"], prog.loc(f, t.get("l")),
                            "%s: try block without catch (...)" % f["n"])
                continue
            for h in hs:
                rethrow = any(n.get("k") == "throw"
                              for n in walk(h.get("b")))
                returns = sym.always_exits(h.get("b")) and any(
                    n.get("k") == "return" and n.get("e")
                    for n in walk(h.get("b")))
                isvoid = strip_type(f.get("ret")) == "void"
                if rethrow or (not returns and not isvoid):
                    R.violation(
                        "R42.1", f["n"], prog.loc(f, h.get("l")),
                        "%s: handler `catch (%s)` %s" % (
                            f["n"], short(h.get("t", "")),
                            "rethrows" if rethrow else
                            "does not return an error code"))
            body = t.get("b") or {}
            ss = body.get("s", [])
            if strip_type(f.get("ret")) == "SymEngine::symengine_exceptions_t" \
                    or strip_type(f.get("ret")) == "symengine_exceptions_t":
                if not ss or ss[-1].get("k") != "return":
                    R.violation(
                        "R42.1", f["n"], prog.loc(f, t.get("l")),
                        "%s: the success return is not the last statement "
                        "of the try block" % f["n"])
    R.floor("translation blocks", wrapped, 100)

    # ---------------------------------------------------------------- R42.2
    names = {}
    for qn in NOTHROW:
        for u in prog.by_qn.get(qn, ()):
            names[u] = qn
        for u, h in prog.decls.items():
            if h.get("qn") == qn:
                names[u] = qn
    roots = [f["u"] for f in ec]
    mt, wit, reach = G.may_throw_from(roots, overrides=set(names))
    R.info["functions_reachable_from_c_api"] = len(reach)
    R.info["may_throw_nodes"] = len(mt)
    for f in ec:
        key = f["n"]
        nsites = len(G.sites(f["u"]))
        unprot = [s for s in G.sites(f["u"]) if not s.protected]
        R.instance("R42.2", key, nontrivial=bool(unprot), sample={
            "function": key, "calls": nsites,
            "calls_outside_catch_all": len(unprot)})
        if f["u"] in mt:
            chain = G.chain(f["u"], wit)
            R.violation(
                "R42.2", key, prog.loc(f, wit[f["u"]][0]),
                "a C++ exception can escape %s: %s" % (
                    key, " -> ".join(chain)[:900]),
                detail={"chain": chain})

    for okey in SITE_NOTHROW:
        if not G.site_nothrow_hits.get(okey):
            raise AnalysisBroken(
                "call-site summary %s -> %s() matches no call site any more"
                % okey)

    # ---------------------------------------------------------------- R42.3
    nops = 0
    for u, f in prog.functions.items():
        if not f["file"].endswith("expression.h") or f.get("dependent") \
                or f.get("tk") == "pattern" or not f.get("body"):
            continue
        op = f.get("oper")
        want = None
        if op in OPERATOR_CORE:
            ptypes = [strip_type(p["t"]) for p in f.get("params", ())]
            if f.get("cls") == "SymEngine::Expression" or \
                    "SymEngine::Expression" in ptypes:
                if op == "-" and f.get("cls") == "SymEngine::Expression" \
                        and not f.get("params"):
                    continue        # unary minus: via *= -1 (checked below)
                want = OPERATOR_CORE[op]
        elif f["n"] in FREE_CORE and "cls" not in f and any(
                strip_type(p["t"]) == "SymEngine::Expression"
                for p in f.get("params", ())):
            want = FREE_CORE[f["n"]]
        if want is None:
            continue
        nops += 1
        key = "%s(%s)" % (f["n"], ", ".join(short(strip_type(p["t"]))
                                            for p in f["params"]))
        callees = [prog.header(n["u"]).get("n") for n in walk(f["body"])
                   if n.get("k") == "call" and n.get("u")
                   and (prog.header(n["u"]).get("qn") or "").startswith(
                       "SymEngine::")]
        R.instance("R42.3", key, sample={"operator": key,
                                         "core_calls": callees})
        if want not in callees:
            R.violation(
                "R42.3", key, prog.loc(f),
                "Expression %s does not call the core function %s() (it "
                "calls: %s)" % (key, want, callees or "nothing"))
    R.floor("Expression operators", nops, 20)


MANIFEST = dict(
    technique="effect analysis (may-throw least fixpoint) over a visitor-"
              "sensitive CHA call graph + shape rules for the translation "
              "blocks + callee resolution for the Expression operators",
    text="Decides for every call sequence that no C++ exception can leave "
         "any of the extern \"C\" functions: the may-throw set is computed "
         "over everything reachable below the C API and every call outside "
         "a catch-all must be no-throw; translation blocks have a catch-all "
         "whose handlers return codes; and each Expression operator resolves "
         "to the matching core function. Functions whose signature has no "
         "error channel and that call throwing API are genuine findings "
         "(listed). Equality of C and C++ results as values and the C "
         "container semantics are not decided.",
    note="Trusted: the standard library is no-throw except a deny-list; "
         "allocation failure out of scope; the NOTHROW table of named "
         "summaries (CHA imprecision), each with its reason.",
    ref="§2 C42",
)
