#include <symengine/basic.h>
#include <symengine/add.h>
#include <symengine/mul.h>
#include <symengine/pow.h>
#include <symengine/infinity.h>
#include <symengine/nan.h>
#include <symengine/constants.h>
#include <symengine/symbol.h>
#include <symengine/logic.h>
#include <symengine/sets.h>
#include <symengine/assumptions.h>
#include <symengine/test_visitors.h>
#include <iostream>
using namespace SymEngine;
const char *ts(tribool t){ return is_true(t)?"true":is_false(t)?"false":"indeterminate"; }
int main(){
    RCP<const Basic> x = symbol("x");
    { Assumptions a({contains(x, reals())});
      auto e = mul(Inf, x);
      std::cout << e->__str__() << ": is_real | x real = " << ts(is_real(*e, &a)) << "  (x = 1 gives oo, not real; is_real(oo) = " << ts(is_real(*Inf)) << ")\n";
      Assumptions c({contains(x, complexes())});
      std::cout << e->__str__() << ": is_complex | x complex = " << ts(is_complex(*e, &c)) << "  (is_complex(oo) = " << ts(is_complex(*Inf)) << ")\n"; }
    { Assumptions a({Eq(x, Inf)});
      std::cout << "is_finite(x | x == oo) = " << ts(is_finite(*x, &a)) << "   is_complex(x | x == oo) = " << ts(is_complex(*x, &a)) << "\n"; }
    { Assumptions a({Eq(x, integer(0))});
      auto e = pow(x, integer(-1));
      std::cout << "is_real(1/x | x == 0) = " << ts(is_real(*e, &a)) << "   (0**-1 = " << pow(integer(0), integer(-1))->__str__() << ")\n";
      Assumptions b({contains(x, reals())});
      std::cout << "is_real(1/x | x real) = " << ts(is_real(*e, &b)) << "   (x = 0 gives zoo)\n"; }
    std::cout << "is_nonnegative(nan) = " << ts(is_nonnegative(*Nan)) << "  is_nonpositive(nan) = " << ts(is_nonpositive(*Nan)) << "\n";
    return 0;
}
