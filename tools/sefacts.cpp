// sefacts: libTooling extractor for the SymEngine static checks.
//
// For one translation unit it writes a JSON file with
//   * "classes":   every C++ record defined in /repo (fields, bases, statics),
//   * "functions": every function *defined* in /repo that this TU sees
//                  (non-template, template pattern, and every implicit or
//                  explicit instantiation), with its body as a compact
//                  statement/expression tree in which every callee, member and
//                  declaration reference is the one clang *resolved*,
//   * "decls":     a table of every function referenced from those bodies,
//   * "globals":   variables with static storage duration defined in /repo.
//
// No rule logic lives here; rules are Python over these facts.
//
// usage: sefacts -p <builddir> [--root=/repo/symengine] -o out.json file.cpp
//        (extra compiler args after "--extra-arg=")

#include "clang/AST/ASTConsumer.h"
#include "clang/AST/ASTContext.h"
#include "clang/AST/DeclCXX.h"
#include "clang/AST/DeclTemplate.h"
#include "clang/AST/ExprCXX.h"
#include "clang/AST/RecursiveASTVisitor.h"
#include "clang/AST/StmtCXX.h"
#include "clang/Frontend/CompilerInstance.h"
#include "clang/Frontend/FrontendAction.h"
#include "clang/Index/USRGeneration.h"
#include "clang/Tooling/CommonOptionsParser.h"
#include "clang/Tooling/Tooling.h"
#include "llvm/Support/CommandLine.h"
#include "llvm/Support/JSON.h"
#include "llvm/Support/raw_ostream.h"

#include <map>
#include <set>
#include <string>
#include <vector>

using namespace clang;
using namespace clang::tooling;
namespace json = llvm::json;

static llvm::cl::OptionCategory Cat("sefacts options");
static llvm::cl::opt<std::string> OutFile("o", llvm::cl::desc("output json"),
                                          llvm::cl::cat(Cat),
                                          llvm::cl::Required);
static llvm::cl::opt<std::string>
    Root("root", llvm::cl::desc("source root whose code is dumped"),
         llvm::cl::init("/repo/symengine"), llvm::cl::cat(Cat));
static llvm::cl::list<std::string>
    ExtraRoot("also-root", llvm::cl::desc("additional roots"),
              llvm::cl::cat(Cat));

namespace
{

class Dumper
{
public:
    ASTContext &Ctx;
    SourceManager &SM;
    PrintingPolicy PP;
    json::OStream &J;
    // referenced function decls (canonical decl -> usr)
    std::map<const FunctionDecl *, std::string> Refs;
    std::set<const CXXRecordDecl *> RefClasses;
    std::map<const Decl *, std::string> UsrCache;

    Dumper(ASTContext &C, json::OStream &J)
        : Ctx(C), SM(C.getSourceManager()), PP(C.getLangOpts()), J(J)
    {
        PP.SuppressTagKeyword = true;
        PP.Bool = true;
        PP.SuppressUnwrittenScope = true;
        PP.TerseOutput = true;
    }

    // ------------------------------------------------------------ helpers
    std::string fileOf(SourceLocation L)
    {
        if (L.isInvalid())
            return "";
        L = SM.getExpansionLoc(L);
        return SM.getFilename(L).str();
    }
    unsigned lineOf(SourceLocation L)
    {
        if (L.isInvalid())
            return 0;
        return SM.getExpansionLineNumber(L);
    }
    bool inRoot(SourceLocation L)
    {
        std::string F = fileOf(L);
        if (F.empty())
            return false;
        auto under = [&](const std::string &R) {
            return F.compare(0, R.size(), R) == 0
                   && F.find("/utilities/") == std::string::npos;
        };
        if (under(Root))
            return true;
        for (auto &R : ExtraRoot)
            if (F.compare(0, R.size(), R) == 0)
                return true;
        return false;
    }
    std::string usr(const Decl *D)
    {
        auto it = UsrCache.find(D);
        if (it != UsrCache.end())
            return it->second;
        llvm::SmallString<256> Buf;
        if (index::generateUSRForDecl(D, Buf))
            Buf = "?";
        std::string S = Buf.str().str();
        UsrCache[D] = S;
        return S;
    }
    std::string qname(const NamedDecl *D)
    {
        std::string S;
        llvm::raw_string_ostream OS(S);
        D->getNameForDiagnostic(OS, PP, true);
        return OS.str();
    }
    std::string ctype(QualType T)
    {
        if (T.isNull())
            return "";
        return T.getCanonicalType().getAsString(PP);
    }
    std::string stype(QualType T)
    {
        if (T.isNull())
            return "";
        return T.getAsString(PP);
    }
    std::string refFn(const FunctionDecl *FD)
    {
        if (!FD)
            return "";
        const FunctionDecl *C = FD->getCanonicalDecl();
        auto it = Refs.find(C);
        if (it != Refs.end())
            return it->second;
        std::string U = usr(C);
        Refs[C] = U;
        if (auto *MD = dyn_cast<CXXMethodDecl>(C))
            RefClasses.insert(MD->getParent());
        return U;
    }

    // ------------------------------------------------------------ exprs
    const Expr *strip(const Expr *E)
    {
        while (E) {
            if (auto *X = dyn_cast<ImplicitCastExpr>(E)) {
                E = X->getSubExpr();
            } else if (auto *X = dyn_cast<ParenExpr>(E)) {
                E = X->getSubExpr();
            } else if (auto *X = dyn_cast<ExprWithCleanups>(E)) {
                E = X->getSubExpr();
            } else if (auto *X = dyn_cast<MaterializeTemporaryExpr>(E)) {
                E = X->getSubExpr();
            } else if (auto *X = dyn_cast<CXXBindTemporaryExpr>(E)) {
                E = X->getSubExpr();
            } else if (auto *X = dyn_cast<ConstantExpr>(E)) {
                E = X->getSubExpr();
            } else if (auto *X = dyn_cast<SubstNonTypeTemplateParmExpr>(E)) {
                E = X->getReplacement();
            } else if (auto *X = dyn_cast<CXXConstructExpr>(E)) {
                // look through elidable / implicit copy & move construction
                if (X->getNumArgs() == 1 && !isa<CXXTemporaryObjectExpr>(X)
                    && X->getConstructor()->isCopyOrMoveConstructor()
                    && X->isElidable())
                    E = X->getArg(0);
                else
                    break;
            } else {
                break;
            }
        }
        return E;
    }

    void args(llvm::ArrayRef<const Expr *> A)
    {
        J.attributeArray("a", [&] {
            for (const Expr *E : A)
                expr(E);
        });
    }
    template <class It>
    void argsRange(It B, It E)
    {
        J.attributeArray("a", [&] {
            for (; B != E; ++B)
                expr(cast_or_null<Expr>(*B));
        });
    }
    void targs(const FunctionDecl *FD)
    {
        if (auto *TAL = FD->getTemplateSpecializationArgs()) {
            J.attributeArray("ta", [&] {
                for (auto &A : TAL->asArray())
                    tmplArg(A);
            });
        }
    }
    void tmplArg(const TemplateArgument &A)
    {
        switch (A.getKind()) {
            case TemplateArgument::Type:
                J.value(ctype(A.getAsType()));
                break;
            case TemplateArgument::Integral:
                J.value(llvm::toString(A.getAsIntegral(), 10));
                break;
            case TemplateArgument::Pack:
                for (auto &P : A.pack_elements())
                    tmplArg(P);
                break;
            default: {
                std::string S;
                llvm::raw_string_ostream OS(S);
                A.print(PP, OS, true);
                J.value(OS.str());
            }
        }
    }

    void expr(const Expr *E0)
    {
        const Expr *E = strip(E0);
        if (!E) {
            J.value(nullptr);
            return;
        }
        J.object([&] { exprBody(E); });
    }

    void exprBody(const Expr *E)
    {
        unsigned L = lineOf(E->getBeginLoc());
        if (auto *X = dyn_cast<CXXOperatorCallExpr>(E)) {
            J.attribute("k", "op");
            J.attribute("op", getOperatorSpelling(X->getOperator()));
            J.attribute("l", L);
            if (auto *FD = X->getDirectCallee()) {
                J.attribute("u", refFn(FD));
                if (isa<CXXMethodDecl>(FD))
                    J.attribute("m", 1);
            } else {
                J.attribute("dep", 1);
            }
            argsRange(X->arg_begin(), X->arg_end());
            return;
        }
        if (auto *X = dyn_cast<CXXMemberCallExpr>(E)) {
            J.attribute("k", "mcall");
            J.attribute("l", L);
            const CXXMethodDecl *MD = X->getMethodDecl();
            if (MD) {
                J.attribute("u", refFn(MD));
                J.attribute("n", MD->getNameAsString());
                bool virt = MD->isVirtual();
                // qualified call (Base::f()) is non-virtual
                if (auto *ME = dyn_cast<MemberExpr>(
                        X->getCallee()->IgnoreParenImpCasts()))
                    if (ME->hasQualifier())
                        virt = false;
                if (virt)
                    J.attribute("v", 1);
            } else {
                J.attribute("dep", 1);
            }
            J.attributeBegin("o");
            if (auto *O = X->getImplicitObjectArgument())
                expr(O);
            else
                J.value(nullptr);
            J.attributeEnd();
            if (auto *ME = dyn_cast<MemberExpr>(
                    X->getCallee()->IgnoreParenImpCasts()))
                if (ME->isArrow())
                    J.attribute("arrow", 1);
            argsRange(X->arg_begin(), X->arg_end());
            return;
        }
        if (auto *X = dyn_cast<CallExpr>(E)) {
            J.attribute("k", "call");
            J.attribute("l", L);
            if (auto *FD = X->getDirectCallee()) {
                J.attribute("u", refFn(FD));
                J.attribute("n", FD->getNameAsString());
                targs(FD);
            } else {
                // indirect / dependent
                J.attributeBegin("fn");
                expr(X->getCallee());
                J.attributeEnd();
            }
            argsRange(X->arg_begin(), X->arg_end());
            return;
        }
        if (auto *X = dyn_cast<CXXConstructExpr>(E)) {
            J.attribute("k", "ctor");
            J.attribute("l", L);
            J.attribute("t", ctype(X->getType()));
            J.attribute("u", refFn(X->getConstructor()));
            if (isa<CXXTemporaryObjectExpr>(X))
                J.attribute("tmp", 1);
            if (X->isListInitialization())
                J.attribute("list", 1);
            if (X->requiresZeroInitialization())
                J.attribute("zi", 1);
            if (X->getConstructor()->isTrivial()
                || (X->getConstructor()->isImplicit()
                    && X->getConstructor()->isDefaultConstructor()))
                J.attribute("implicit", 1);
            argsRange(X->arg_begin(), X->arg_end());
            return;
        }
        if (auto *X = dyn_cast<CXXNewExpr>(E)) {
            J.attribute("k", "new");
            J.attribute("l", L);
            J.attribute("t", ctype(X->getAllocatedType()));
            if (X->isArray())
                J.attribute("arr", 1);
            J.attributeArray("a", [&] {
                if (X->isArray() && X->getArraySize())
                    expr(*X->getArraySize());
                if (X->getInitializer())
                    expr(X->getInitializer());
            });
            return;
        }
        if (auto *X = dyn_cast<CXXDeleteExpr>(E)) {
            J.attribute("k", "delete");
            J.attribute("l", L);
            J.attribute("t", ctype(X->getDestroyedType()));
            J.attributeArray("a", [&] { expr(X->getArgument()); });
            return;
        }
        if (auto *X = dyn_cast<MemberExpr>(E)) {
            J.attribute("k", "mem");
            J.attribute("m", X->getMemberDecl()->getNameAsString());
            if (auto *FD = dyn_cast<FieldDecl>(X->getMemberDecl())) {
                J.attribute("c", qname(FD->getParent()));
                J.attribute("t", ctype(FD->getType()));
            } else if (auto *MD
                       = dyn_cast<CXXMethodDecl>(X->getMemberDecl())) {
                J.attribute("u", refFn(MD));
                J.attribute("fn", 1);
            } else if (auto *VD = dyn_cast<VarDecl>(X->getMemberDecl())) {
                J.attribute("q", qname(VD));
                J.attribute("t", ctype(VD->getType()));
                J.attribute("static", 1);
            }
            if (X->isArrow())
                J.attribute("arrow", 1);
            J.attributeBegin("o");
            expr(X->getBase());
            J.attributeEnd();
            return;
        }
        if (auto *X = dyn_cast<DeclRefExpr>(E)) {
            const ValueDecl *D = X->getDecl();
            J.attribute("k", "ref");
            J.attribute("n", D->getNameAsString());
            if (auto *PD = dyn_cast<ParmVarDecl>(D)) {
                J.attribute("d", "param");
                J.attribute("i", PD->getFunctionScopeIndex());
                J.attribute("t", ctype(PD->getType()));
            } else if (auto *VD = dyn_cast<VarDecl>(D)) {
                if (VD->hasGlobalStorage()) {
                    J.attribute("d", VD->isStaticLocal() ? "slocal" : "global");
                    J.attribute("q", qname(VD));
                } else {
                    J.attribute("d", "local");
                }
                J.attribute("t", ctype(VD->getType()));
            } else if (auto *EC = dyn_cast<EnumConstantDecl>(D)) {
                J.attribute("d", "enum");
                J.attribute("q", qname(EC));
                J.attribute("v", llvm::toString(EC->getInitVal(), 10));
            } else if (auto *FD = dyn_cast<FunctionDecl>(D)) {
                J.attribute("d", "fn");
                J.attribute("u", refFn(FD));
                targs(FD);
            } else if (isa<BindingDecl>(D)) {
                J.attribute("d", "local");
                J.attribute("t", ctype(D->getType()));
            } else {
                J.attribute("d", "other");
                J.attribute("t", ctype(D->getType()));
            }
            return;
        }
        if (isa<CXXThisExpr>(E)) {
            J.attribute("k", "this");
            return;
        }
        if (auto *X = dyn_cast<BinaryOperator>(E)) {
            J.attribute("k", "bin");
            J.attribute("op", X->getOpcodeStr());
            J.attribute("l", L);
            if (X->isComparisonOp() || X->isAssignmentOp())
                J.attribute("ot", ctype(X->getLHS()->getType()));
            J.attributeArray("a", [&] {
                expr(X->getLHS());
                expr(X->getRHS());
            });
            return;
        }
        if (auto *X = dyn_cast<UnaryOperator>(E)) {
            J.attribute("k", "un");
            J.attribute("op", UnaryOperator::getOpcodeStr(X->getOpcode()));
            if (X->isPostfix())
                J.attribute("post", 1);
            J.attributeArray("a", [&] { expr(X->getSubExpr()); });
            return;
        }
        if (auto *X = dyn_cast<ConditionalOperator>(E)) {
            J.attribute("k", "?:");
            J.attributeArray("a", [&] {
                expr(X->getCond());
                expr(X->getTrueExpr());
                expr(X->getFalseExpr());
            });
            return;
        }
        if (auto *X = dyn_cast<ArraySubscriptExpr>(E)) {
            J.attribute("k", "bin");
            J.attribute("op", "[]");
            J.attributeArray("a", [&] {
                expr(X->getLHS());
                expr(X->getRHS());
            });
            return;
        }
        if (auto *X = dyn_cast<IntegerLiteral>(E)) {
            J.attribute("k", "lit");
            J.attribute("t", "int");
            J.attribute("v", llvm::toString(X->getValue(), 10, false));
            return;
        }
        if (auto *X = dyn_cast<FloatingLiteral>(E)) {
            J.attribute("k", "lit");
            J.attribute("t", "float");
            llvm::SmallString<32> S;
            X->getValue().toString(S);
            J.attribute("v", S.str());
            return;
        }
        if (auto *X = dyn_cast<clang::StringLiteral>(E)) {
            J.attribute("k", "lit");
            J.attribute("t", "str");
            if (X->getCharByteWidth() == 1)
                J.attribute("v", X->getString());
            else
                J.attribute("v", "<wide>");
            return;
        }
        if (auto *X = dyn_cast<CharacterLiteral>(E)) {
            J.attribute("k", "lit");
            J.attribute("t", "char");
            J.attribute("v", (int64_t)X->getValue());
            return;
        }
        if (auto *X = dyn_cast<CXXBoolLiteralExpr>(E)) {
            J.attribute("k", "lit");
            J.attribute("t", "bool");
            J.attribute("v", X->getValue());
            return;
        }
        if (isa<CXXNullPtrLiteralExpr>(E) || isa<GNUNullExpr>(E)) {
            J.attribute("k", "lit");
            J.attribute("t", "null");
            return;
        }
        if (auto *X = dyn_cast<CXXThrowExpr>(E)) {
            J.attribute("k", "throw");
            J.attribute("l", L);
            if (X->getSubExpr()) {
                J.attribute("t", ctype(X->getSubExpr()->getType()));
                J.attributeArray("a", [&] { expr(X->getSubExpr()); });
            } else {
                J.attribute("rethrow", 1);
            }
            return;
        }
        if (auto *X = dyn_cast<ExplicitCastExpr>(E)) {
            // functional cast wrapping a constructor: show the constructor
            const Expr *Sub = strip(X->getSubExpr());
            if (isa<CXXFunctionalCastExpr>(X) && Sub
                && isa<CXXConstructExpr>(Sub)) {
                exprBody(Sub);
                return;
            }
            J.attribute("k", "cast");
            const char *ck = "c";
            if (isa<CXXStaticCastExpr>(X))
                ck = "static";
            else if (isa<CXXConstCastExpr>(X))
                ck = "const";
            else if (isa<CXXDynamicCastExpr>(X))
                ck = "dynamic";
            else if (isa<CXXReinterpretCastExpr>(X))
                ck = "reinterpret";
            else if (isa<CXXFunctionalCastExpr>(X))
                ck = "functional";
            J.attribute("ck", ck);
            J.attribute("l", L);
            J.attribute("t", ctype(X->getTypeAsWritten()));
            J.attribute("from", ctype(X->getSubExpr()->getType()));
            J.attributeArray("a", [&] { expr(X->getSubExpr()); });
            return;
        }
        if (auto *X = dyn_cast<LambdaExpr>(E)) {
            J.attribute("k", "lambda");
            J.attribute("l", L);
            J.attributeArray("caps", [&] {
                for (auto &C : X->captures()) {
                    J.object([&] {
                        if (C.capturesThis())
                            J.attribute("n", "this");
                        else if (C.capturesVariable())
                            J.attribute("n",
                                        C.getCapturedVar()->getNameAsString());
                        J.attribute("ref",
                                    C.getCaptureKind() == LCK_ByRef ? 1 : 0);
                    });
                }
            });
            J.attributeArray("inits", [&] {
                for (auto *I : X->capture_inits())
                    expr(I);
            });
            J.attributeArray("params", [&] {
                if (auto *CO = X->getCallOperator())
                    for (auto *P : CO->parameters())
                        J.object([&] {
                            J.attribute("n", P->getNameAsString());
                            J.attribute("t", ctype(P->getType()));
                        });
            });
            J.attributeBegin("b");
            stmt(X->getBody());
            J.attributeEnd();
            return;
        }
        if (auto *X = dyn_cast<InitListExpr>(E)) {
            if (X->isSemanticForm() && X->getSyntacticForm()) {
                // keep semantic form (resolved constructors)
            }
            J.attribute("k", "init");
            J.attribute("t", ctype(X->getType()));
            argsRange(X->begin(), X->end());
            return;
        }
        if (auto *X = dyn_cast<CXXStdInitializerListExpr>(E)) {
            exprBody(strip(X->getSubExpr()));
            return;
        }
        if (auto *X = dyn_cast<CXXDefaultArgExpr>(E)) {
            J.attribute("k", "defarg");
            J.attributeArray("a", [&] { expr(X->getExpr()); });
            return;
        }
        if (auto *X = dyn_cast<CXXDefaultInitExpr>(E)) {
            J.attribute("k", "definit");
            J.attributeArray("a", [&] { expr(X->getExpr()); });
            return;
        }
        if (auto *X = dyn_cast<CXXScalarValueInitExpr>(E)) {
            J.attribute("k", "lit");
            J.attribute("t", "zeroinit");
            J.attribute("ty", ctype(X->getType()));
            return;
        }
        if (auto *X = dyn_cast<UnaryExprOrTypeTraitExpr>(E)) {
            J.attribute("k", "sizeof");
            (void)X;
            return;
        }
        if (auto *X = dyn_cast<CXXTypeidExpr>(E)) {
            J.attribute("k", "typeid");
            if (X->isTypeOperand())
                J.attribute("t", ctype(X->getTypeOperand(Ctx)));
            else
                J.attributeArray("a", [&] { expr(X->getExprOperand()); });
            return;
        }
        if (auto *X = dyn_cast<UnresolvedLookupExpr>(E)) {
            J.attribute("k", "dep");
            J.attribute("n", X->getName().getAsString());
            J.attributeArray("cands", [&] {
                for (auto *D : X->decls())
                    if (auto *FD = dyn_cast<FunctionDecl>(
                            D->getUnderlyingDecl()))
                        J.value(refFn(FD));
                    else if (auto *FT = dyn_cast<FunctionTemplateDecl>(
                                 D->getUnderlyingDecl()))
                        J.value(refFn(FT->getTemplatedDecl()));
            });
            if (X->hasExplicitTemplateArgs()) {
                J.attributeArray("ta", [&] {
                    for (auto &A : X->template_arguments())
                        tmplArg(A.getArgument());
                });
            }
            return;
        }
        if (auto *X = dyn_cast<UnresolvedMemberExpr>(E)) {
            J.attribute("k", "dep");
            J.attribute("n", X->getMemberName().getAsString());
            J.attribute("member", 1);
            if (!X->isImplicitAccess()) {
                J.attributeBegin("o");
                expr(X->getBase());
                J.attributeEnd();
            }
            return;
        }
        if (auto *X = dyn_cast<CXXDependentScopeMemberExpr>(E)) {
            J.attribute("k", "dep");
            J.attribute("n", X->getMember().getAsString());
            J.attribute("member", 1);
            if (!X->isImplicitAccess()) {
                J.attributeBegin("o");
                expr(X->getBase());
                J.attributeEnd();
            }
            return;
        }
        if (auto *X = dyn_cast<DependentScopeDeclRefExpr>(E)) {
            J.attribute("k", "dep");
            J.attribute("n", X->getDeclName().getAsString());
            return;
        }
        if (auto *X = dyn_cast<CXXUnresolvedConstructExpr>(E)) {
            J.attribute("k", "dep");
            J.attribute("n", "ctor");
            J.attribute("t", ctype(X->getTypeAsWritten()));
            argsRange(X->arg_begin(), X->arg_end());
            return;
        }
        if (auto *X = dyn_cast<CXXInheritedCtorInitExpr>(E)) {
            J.attribute("k", "ctor");
            J.attribute("l", L);
            J.attribute("t", ctype(X->getType()));
            J.attribute("u", refFn(X->getConstructor()));
            J.attribute("inherited", 1);
            J.attributeArray("a", [&] {});
            return;
        }
        if (auto *X = dyn_cast<PackExpansionExpr>(E)) {
            J.attribute("k", "pack");
            J.attributeArray("a", [&] { expr(X->getPattern()); });
            return;
        }
        if (auto *X = dyn_cast<OpaqueValueExpr>(E)) {
            if (X->getSourceExpr()) {
                exprBody(strip(X->getSourceExpr()));
                return;
            }
        }
        if (auto *X = dyn_cast<BinaryConditionalOperator>(E)) {
            J.attribute("k", "?:");
            J.attributeArray("a", [&] {
                expr(X->getCommon());
                expr(X->getCommon());
                expr(X->getFalseExpr());
            });
            return;
        }
        // anything else: generic node with children
        J.attribute("k", "x");
        J.attribute("c", E->getStmtClassName());
        J.attributeArray("a", [&] {
            for (const Stmt *C : E->children())
                if (auto *CE = dyn_cast_or_null<Expr>(C))
                    expr(CE);
        });
    }

    // ------------------------------------------------------------ stmts
    void varDecl(const VarDecl *VD)
    {
        J.object([&] {
            J.attribute("n", VD->getNameAsString());
            J.attribute("t", ctype(VD->getType()));
            if (VD->isStaticLocal()) {
                J.attribute("static", 1);
                J.attribute("q", qname(VD));
                if (VD->getTSCSpec() != TSCS_unspecified)
                    J.attribute("tls", 1);
                if (VD->getType().isConstQualified())
                    J.attribute("const", 1);
            }
            if (VD->hasInit()) {
                J.attributeBegin("i");
                expr(VD->getInit());
                J.attributeEnd();
            }
        });
    }

    void stmt(const Stmt *S)
    {
        if (!S) {
            J.value(nullptr);
            return;
        }
        if (auto *E = dyn_cast<Expr>(S)) {
            J.object([&] {
                J.attribute("k", "expr");
                J.attribute("l", lineOf(E->getBeginLoc()));
                J.attributeBegin("e");
                expr(E);
                J.attributeEnd();
            });
            return;
        }
        J.object([&] {
            unsigned L = lineOf(S->getBeginLoc());
            if (auto *X = dyn_cast<CompoundStmt>(S)) {
                J.attribute("k", "{}");
                J.attributeArray("s", [&] {
                    for (auto *C : X->body())
                        stmt(C);
                });
            } else if (auto *X = dyn_cast<IfStmt>(S)) {
                J.attribute("k", "if");
                J.attribute("l", L);
                if (X->getInit()) {
                    J.attributeBegin("init");
                    stmt(X->getInit());
                    J.attributeEnd();
                }
                if (X->getConditionVariable()) {
                    J.attributeBegin("cv");
                    varDecl(X->getConditionVariable());
                    J.attributeEnd();
                }
                if (X->isConstexpr())
                    J.attribute("constexpr", 1);
                J.attributeBegin("c");
                expr(X->getCond());
                J.attributeEnd();
                J.attributeBegin("t");
                stmt(X->getThen());
                J.attributeEnd();
                if (X->getElse()) {
                    J.attributeBegin("e");
                    stmt(X->getElse());
                    J.attributeEnd();
                }
            } else if (auto *X = dyn_cast<ForStmt>(S)) {
                J.attribute("k", "for");
                J.attribute("l", L);
                J.attributeBegin("init");
                stmt(X->getInit());
                J.attributeEnd();
                J.attributeBegin("c");
                expr(X->getCond());
                J.attributeEnd();
                J.attributeBegin("inc");
                expr(X->getInc());
                J.attributeEnd();
                J.attributeBegin("b");
                stmt(X->getBody());
                J.attributeEnd();
            } else if (auto *X = dyn_cast<CXXForRangeStmt>(S)) {
                J.attribute("k", "forr");
                J.attribute("l", L);
                J.attributeBegin("v");
                if (X->getLoopVariable())
                    J.object([&] {
                        J.attribute("n",
                                    X->getLoopVariable()->getNameAsString());
                        J.attribute("t",
                                    ctype(X->getLoopVariable()->getType()));
                    });
                else
                    J.value(nullptr);
                J.attributeEnd();
                J.attributeBegin("r");
                expr(X->getRangeInit());
                J.attributeEnd();
                J.attribute("rt", ctype(X->getRangeInit()->getType()));
                J.attributeBegin("b");
                stmt(X->getBody());
                J.attributeEnd();
            } else if (auto *X = dyn_cast<WhileStmt>(S)) {
                J.attribute("k", "while");
                J.attribute("l", L);
                J.attributeBegin("c");
                expr(X->getCond());
                J.attributeEnd();
                J.attributeBegin("b");
                stmt(X->getBody());
                J.attributeEnd();
            } else if (auto *X = dyn_cast<DoStmt>(S)) {
                J.attribute("k", "do");
                J.attribute("l", L);
                J.attributeBegin("c");
                expr(X->getCond());
                J.attributeEnd();
                J.attributeBegin("b");
                stmt(X->getBody());
                J.attributeEnd();
            } else if (auto *X = dyn_cast<SwitchStmt>(S)) {
                J.attribute("k", "switch");
                J.attribute("l", L);
                J.attributeBegin("c");
                expr(X->getCond());
                J.attributeEnd();
                J.attributeBegin("b");
                stmt(X->getBody());
                J.attributeEnd();
            } else if (auto *X = dyn_cast<CaseStmt>(S)) {
                J.attribute("k", "case");
                J.attribute("l", L);
                J.attributeBegin("v");
                expr(X->getLHS());
                J.attributeEnd();
                J.attributeBegin("b");
                stmt(X->getSubStmt());
                J.attributeEnd();
            } else if (auto *X = dyn_cast<DefaultStmt>(S)) {
                J.attribute("k", "default");
                J.attribute("l", L);
                J.attributeBegin("b");
                stmt(X->getSubStmt());
                J.attributeEnd();
            } else if (auto *X = dyn_cast<ReturnStmt>(S)) {
                J.attribute("k", "return");
                J.attribute("l", L);
                if (X->getRetValue()) {
                    J.attributeBegin("e");
                    expr(X->getRetValue());
                    J.attributeEnd();
                }
            } else if (isa<BreakStmt>(S)) {
                J.attribute("k", "break");
                J.attribute("l", L);
            } else if (isa<ContinueStmt>(S)) {
                J.attribute("k", "continue");
                J.attribute("l", L);
            } else if (auto *X = dyn_cast<DeclStmt>(S)) {
                J.attribute("k", "decl");
                J.attribute("l", L);
                J.attributeArray("v", [&] {
                    for (auto *D : X->decls())
                        if (auto *VD = dyn_cast<VarDecl>(D))
                            varDecl(VD);
                });
            } else if (auto *X = dyn_cast<CXXTryStmt>(S)) {
                J.attribute("k", "try");
                J.attribute("l", L);
                J.attributeBegin("b");
                stmt(X->getTryBlock());
                J.attributeEnd();
                J.attributeArray("h", [&] {
                    for (unsigned i = 0; i < X->getNumHandlers(); ++i) {
                        const CXXCatchStmt *H = X->getHandler(i);
                        J.object([&] {
                            J.attribute("l", lineOf(H->getBeginLoc()));
                            if (H->getExceptionDecl()) {
                                J.attribute(
                                    "t",
                                    ctype(H->getExceptionDecl()->getType()));
                                J.attribute(
                                    "n",
                                    H->getExceptionDecl()->getNameAsString());
                            } else
                                J.attribute("t", "...");
                            J.attributeBegin("b");
                            stmt(H->getHandlerBlock());
                            J.attributeEnd();
                        });
                    }
                });
            } else if (auto *X = dyn_cast<GotoStmt>(S)) {
                J.attribute("k", "goto");
                J.attribute("l", L);
                J.attribute("n", X->getLabel()->getNameAsString());
            } else if (auto *X = dyn_cast<LabelStmt>(S)) {
                J.attribute("k", "label");
                J.attribute("l", L);
                J.attribute("n", X->getName());
                J.attributeBegin("b");
                stmt(X->getSubStmt());
                J.attributeEnd();
            } else if (isa<NullStmt>(S)) {
                J.attribute("k", "null");
            } else if (auto *X = dyn_cast<AttributedStmt>(S)) {
                J.attribute("k", "{}");
                J.attributeArray("s", [&] { stmt(X->getSubStmt()); });
            } else {
                J.attribute("k", "xs");
                J.attribute("c", S->getStmtClassName());
                J.attribute("l", L);
                J.attributeArray("s", [&] {
                    for (const Stmt *C : S->children())
                        stmt(C);
                });
            }
        });
    }

    // ------------------------------------------------------------ decls
    void fnHeader(const FunctionDecl *FD)
    {
        J.attribute("u", usr(FD->getCanonicalDecl()));
        J.attribute("qn", qname(FD));
        J.attribute("n", FD->getNameAsString());
        J.attribute("ret", ctype(FD->getReturnType()));
        J.attributeArray("params", [&] {
            for (auto *P : FD->parameters())
                J.object([&] {
                    J.attribute("n", P->getNameAsString());
                    J.attribute("t", ctype(P->getType()));
                });
        });
        SourceLocation Loc = FD->getLocation();
        J.attribute("file", fileOf(Loc));
        J.attribute("line", lineOf(Loc));
        if (FD->isExternC())
            J.attribute("externc", 1);
        if (FD->isVariadic())
            J.attribute("variadic", 1);
        if (auto *FPT = FD->getType()->getAs<FunctionProtoType>())
            if (FPT->isNothrow())
                J.attribute("nothrow", 1);
        if (FD->isDefaulted())
            J.attribute("defaulted", 1);
        if (FD->isDeleted())
            J.attribute("deleted", 1);
        targs(FD);
        switch (FD->getTemplatedKind()) {
            case FunctionDecl::TK_FunctionTemplate:
                J.attribute("tk", "pattern");
                break;
            case FunctionDecl::TK_MemberSpecialization:
            case FunctionDecl::TK_FunctionTemplateSpecialization:
                J.attribute("tk", "inst");
                break;
            case FunctionDecl::TK_DependentFunctionTemplateSpecialization:
                J.attribute("tk", "depinst");
                break;
            default:
                break;
        }
        if (FD->isDependentContext())
            J.attribute("dependent", 1);
        if (auto *Pat = FD->getTemplateInstantiationPattern())
            J.attribute("pat", usr(Pat->getCanonicalDecl()));
        if (auto *MD = dyn_cast<CXXMethodDecl>(FD)) {
            J.attribute("cls", qname(MD->getParent()));
            RefClasses.insert(MD->getParent());
            if (MD->isVirtual())
                J.attribute("virt", 1);
            if (MD->isPure())
                J.attribute("pure", 1);
            if (MD->isConst())
                J.attribute("const", 1);
            if (MD->isStatic())
                J.attribute("static", 1);
            if (isa<CXXConstructorDecl>(MD))
                J.attribute("ctor", 1);
            if (isa<CXXDestructorDecl>(MD))
                J.attribute("dtor", 1);
            if (isa<CXXConversionDecl>(MD))
                J.attribute("conv", 1);
            if (MD->size_overridden_methods()) {
                J.attributeArray("ovr", [&] {
                    for (auto *O : MD->overridden_methods())
                        J.value(usr(O->getCanonicalDecl()));
                });
            }
        }
        if (FD->isOverloadedOperator())
            J.attribute("oper", getOperatorSpelling(FD->getOverloadedOperator()));
    }

    void function(const FunctionDecl *FD)
    {
        J.object([&] {
            fnHeader(FD);
            if (auto *CD = dyn_cast<CXXConstructorDecl>(FD)) {
                J.attributeArray("inits", [&] {
                    for (auto *I : CD->inits()) {
                        J.object([&] {
                            if (I->isAnyMemberInitializer())
                                J.attribute(
                                    "m", I->getAnyMember()->getNameAsString());
                            else if (I->isBaseInitializer())
                                J.attribute("base",
                                            ctype(QualType(I->getBaseClass(),
                                                           0)));
                            else if (I->isDelegatingInitializer())
                                J.attribute("delegating", 1);
                            if (I->isWritten())
                                J.attribute("w", 1);
                            J.attributeBegin("e");
                            expr(I->getInit());
                            J.attributeEnd();
                        });
                    }
                });
            }
            J.attributeBegin("body");
            stmt(FD->getBody());
            J.attributeEnd();
        });
    }

    void record(const CXXRecordDecl *RD)
    {
        J.object([&] {
            J.attribute("qn", qname(RD));
            J.attribute("n", RD->getNameAsString());
            J.attribute("file", fileOf(RD->getLocation()));
            J.attribute("line", lineOf(RD->getLocation()));
            if (RD->isLambda())
                J.attribute("lambda", 1);
            if (RD->getDescribedClassTemplate())
                J.attribute("tk", "pattern");
            else if (auto *S = dyn_cast<ClassTemplateSpecializationDecl>(RD)) {
                J.attribute("tk", "inst");
                J.attribute("tmpl",
                            qname(S->getSpecializedTemplate()));
                J.attributeArray("ta", [&] {
                    for (auto &A : S->getTemplateArgs().asArray())
                        tmplArg(A);
                });
            }
            if (RD->isDependentContext())
                J.attribute("dependent", 1);
            if (RD->isAbstract())
                J.attribute("abstract", 1);
            if (RD->isEffectivelyFinal())
                J.attribute("final", 1);
            J.attributeArray("bases", [&] {
                for (auto &B : RD->bases()) {
                    J.object([&] {
                        J.attribute("t", ctype(B.getType()));
                        if (auto *BR = B.getType()->getAsCXXRecordDecl())
                            J.attribute("qn", qname(BR));
                        if (B.isVirtual())
                            J.attribute("virtual", 1);
                    });
                }
            });
            J.attributeArray("fields", [&] {
                for (auto *F : RD->fields()) {
                    J.object([&] {
                        J.attribute("n", F->getNameAsString());
                        J.attribute("t", ctype(F->getType()));
                        J.attribute("st", stype(F->getType()));
                        J.attribute("line", lineOf(F->getLocation()));
                        if (F->isMutable())
                            J.attribute("mutable", 1);
                        if (F->hasInClassInitializer()
                            && F->getInClassInitializer()) {
                            J.attributeBegin("i");
                            expr(F->getInClassInitializer());
                            J.attributeEnd();
                        }
                    });
                }
            });
            J.attributeArray("statics", [&] {
                for (auto *D : RD->decls()) {
                    if (auto *VD = dyn_cast<VarDecl>(D)) {
                        J.object([&] {
                            J.attribute("n", VD->getNameAsString());
                            J.attribute("t", ctype(VD->getType()));
                            if (VD->hasInit()) {
                                J.attributeBegin("i");
                                expr(VD->getInit());
                                J.attributeEnd();
                            }
                        });
                    }
                }
            });
            J.attributeArray("methods", [&] {
                for (auto *M : RD->methods()) {
                    if (M->isImplicit())
                        continue;
                    J.object([&] {
                        J.attribute("u", usr(M->getCanonicalDecl()));
                        J.attribute("n", M->getNameAsString());
                        if (M->isVirtual())
                            J.attribute("virt", 1);
                        if (M->isPure())
                            J.attribute("pure", 1);
                        if (M->isConst())
                            J.attribute("const", 1);
                        if (M->size_overridden_methods()) {
                            J.attributeArray("ovr", [&] {
                                for (auto *O : M->overridden_methods())
                                    J.value(usr(O->getCanonicalDecl()));
                            });
                        }
                    });
                }
            });
        });
    }
};

class Collector : public RecursiveASTVisitor<Collector>
{
public:
    Dumper &D;
    std::vector<const FunctionDecl *> Fns;
    std::vector<const CXXRecordDecl *> Recs;
    std::vector<const VarDecl *> Globals;
    std::vector<const EnumDecl *> Enums;
    std::set<const Decl *> Seen;
    explicit Collector(Dumper &D) : D(D) {}
    bool shouldVisitTemplateInstantiations() const
    {
        return true;
    }
    bool shouldVisitImplicitCode() const
    {
        return false;
    }
    bool VisitFunctionDecl(FunctionDecl *FD)
    {
        if (!FD->doesThisDeclarationHaveABody())
            return true;
        if (FD->isImplicit())
            return true;
        if (!D.inRoot(FD->getLocation()))
            return true;
        if (auto *MD = dyn_cast<CXXMethodDecl>(FD))
            if (MD->getParent()->isLambda())
                return true; // inlined at the lambda expression
        if (Seen.insert(FD).second)
            Fns.push_back(FD);
        return true;
    }
    bool VisitCXXRecordDecl(CXXRecordDecl *RD)
    {
        if (!RD->isThisDeclarationADefinition())
            return true;
        if (RD->isLambda())
            return true;
        if (!D.inRoot(RD->getLocation()))
            return true;
        if (Seen.insert(RD).second)
            Recs.push_back(RD);
        return true;
    }
    bool VisitEnumDecl(EnumDecl *ED)
    {
        if (!ED->isThisDeclarationADefinition())
            return true;
        if (!D.inRoot(ED->getLocation()))
            return true;
        if (ED->getDeclContext()->isDependentContext())
            return true;
        if (Seen.insert(ED).second)
            Enums.push_back(ED);
        return true;
    }
    bool VisitVarDecl(VarDecl *VD)
    {
        if (!VD->hasGlobalStorage() || !VD->isThisDeclarationADefinition())
            return true;
        if (isa<ParmVarDecl>(VD))
            return true;
        if (!D.inRoot(VD->getLocation()))
            return true;
        if (VD->getDeclContext()->isDependentContext())
            return true;
        if (Seen.insert(VD).second)
            Globals.push_back(VD);
        return true;
    }
};

class Consumer : public ASTConsumer
{
public:
    std::string Main;
    explicit Consumer(std::string M) : Main(std::move(M)) {}
    void HandleTranslationUnit(ASTContext &Ctx) override
    {
        if (Ctx.getDiagnostics().hasErrorOccurred()) {
            llvm::errs() << "sefacts: parse errors in " << Main << "\n";
        }
        std::error_code EC;
        llvm::raw_fd_ostream OS(OutFile, EC);
        if (EC) {
            llvm::errs() << "sefacts: cannot open " << OutFile << "\n";
            return;
        }
        json::OStream J(OS, 0);
        Dumper D(Ctx, J);
        Collector C(D);
        C.TraverseDecl(Ctx.getTranslationUnitDecl());
        J.object([&] {
            J.attribute("tu", Main);
            J.attribute("errors",
                        (int64_t)Ctx.getDiagnostics().getNumErrors());
            J.attributeArray("deps", [&] {
                SourceManager &SM = Ctx.getSourceManager();
                std::set<std::string> Files;
                for (auto It = SM.fileinfo_begin(); It != SM.fileinfo_end();
                     ++It) {
                    std::string N = It->first->getName().str();
                    if (N.compare(0, 5, "/usr/") == 0)
                        continue;
                    Files.insert(N);
                }
                for (auto &N : Files)
                    J.value(N);
            });
            J.attributeArray("functions", [&] {
                for (auto *FD : C.Fns)
                    D.function(FD);
            });
            J.attributeArray("enums", [&] {
                for (auto *ED : C.Enums) {
                    J.object([&] {
                        J.attribute("qn", ED->getQualifiedNameAsString());
                        J.attribute("file", D.fileOf(ED->getLocation()));
                        J.attribute("line", D.lineOf(ED->getLocation()));
                        if (ED->isScoped())
                            J.attribute("scoped", 1);
                        J.attributeArray("enumerators", [&] {
                            for (auto *EC : ED->enumerators()) {
                                J.object([&] {
                                    J.attribute("n", EC->getNameAsString());
                                    J.attribute(
                                        "v", (int64_t)EC->getInitVal()
                                                 .getExtValue());
                                });
                            }
                        });
                    });
                }
            });
            J.attributeArray("globals", [&] {
                for (auto *VD : C.Globals) {
                    J.object([&] {
                        J.attribute("qn", D.qname(VD));
                        J.attribute("n", VD->getNameAsString());
                        J.attribute("t", D.ctype(VD->getType()));
                        J.attribute("file", D.fileOf(VD->getLocation()));
                        J.attribute("line", D.lineOf(VD->getLocation()));
                        if (VD->getType().isConstQualified())
                            J.attribute("const", 1);
                        if (VD->isConstexpr())
                            J.attribute("constexpr", 1);
                        if (VD->isStaticLocal()) {
                            J.attribute("slocal", 1);
                            if (auto *FD = dyn_cast<FunctionDecl>(
                                    VD->getDeclContext()))
                                J.attribute(
                                    "fn", D.usr(FD->getCanonicalDecl()));
                        }
                        if (VD->isStaticDataMember())
                            J.attribute("member", 1);
                        if (VD->getTSCSpec() != TSCS_unspecified)
                            J.attribute("tls", 1);
                        if (VD->hasInit()) {
                            J.attributeBegin("i");
                            D.expr(VD->getInit());
                            J.attributeEnd();
                        }
                    });
                }
            });
            // classes: those defined in root + parents of referenced methods
            std::set<const CXXRecordDecl *> Done;
            J.attributeArray("classes", [&] {
                for (auto *RD : C.Recs) {
                    if (Done.insert(RD->getCanonicalDecl()).second)
                        D.record(RD);
                }
                // referenced classes that live in root (e.g. implicit
                // instantiations found only through calls)
                std::vector<const CXXRecordDecl *> More(D.RefClasses.begin(),
                                                        D.RefClasses.end());
                for (auto *RD0 : More) {
                    const CXXRecordDecl *RD = RD0->getDefinition();
                    if (!RD || RD->isLambda())
                        continue;
                    if (!D.inRoot(RD->getLocation()))
                        continue;
                    if (Done.insert(RD->getCanonicalDecl()).second)
                        D.record(RD);
                }
            });
            // decl table (snapshot: record() may not add function refs)
            J.attributeObject("decls", [&] {
                // fnHeader may add to Refs (never for headers), iterate copy
                std::vector<std::pair<const FunctionDecl *, std::string>> V(
                    D.Refs.begin(), D.Refs.end());
                std::set<std::string> Emitted;
                for (auto &P : V) {
                    if (!Emitted.insert(P.second).second)
                        continue;
                    J.attributeObject(P.second, [&] {
                        const FunctionDecl *FD = P.first;
                        D.fnHeader(FD);
                        const FunctionDecl *Def = nullptr;
                        if (FD->hasBody(Def))
                            J.attribute("hasbody", 1);
                    });
                }
            });
        });
        OS << "\n";
    }
};

class Action : public ASTFrontendAction
{
public:
    std::unique_ptr<ASTConsumer> CreateASTConsumer(CompilerInstance &CI,
                                                   StringRef File) override
    {
        return std::make_unique<Consumer>(File.str());
    }
};

} // namespace

int main(int argc, const char **argv)
{
    auto Exp = CommonOptionsParser::create(argc, argv, Cat);
    if (!Exp) {
        llvm::errs() << llvm::toString(Exp.takeError()) << "\n";
        return 2;
    }
    CommonOptionsParser &OP = Exp.get();
    ClangTool Tool(OP.getCompilations(), OP.getSourcePathList());
    int rc = Tool.run(newFrontendActionFactory<Action>().get());
    return rc ? 2 : 0;
}
