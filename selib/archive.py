"""Serializer facts (engine E4c): per-TypeID resolved save_basic/load_basic
overloads from the archive switches, and typed archive-operation sequences."""
import re

from .program import walk, show, short, strip_type, rcp_target
from .build import AnalysisBroken


def expr_type(prog, e):
    """static type (canonical string) of an IR expression, when derivable"""
    if e is None:
        return None
    k = e.get("k")
    if k in ("ref", "mem", "ctor", "cast", "new"):
        return e.get("t")
    if k in ("mcall", "call", "op"):
        h = prog.header(e.get("u", ""))
        return h.get("ret")
    if k == "lit":
        return {"str": "const char *", "int": "int", "bool": "bool",
                "float": "double"}.get(e.get("t"))
    if k == "un" and e.get("op") == "*":
        t = expr_type(prog, e["a"][0])
        return rcp_target(t) if t else None
    return None


def category(t):
    """archive value category of a static type"""
    if t is None:
        return "?"
    t = strip_type(t)
    t = re.sub(r"\bconst ", "", t)
    if t.startswith("std::basic_string<char"):
        return "string"
    r = rcp_target("SymEngine::RCP<const X>".replace("X", "")) if False else None
    m = re.match(r"^SymEngine::RCP<(.*)>$", t)
    if m:
        return "rcp:" + m.group(1).strip()
    t = re.sub(r",\s*std::allocator<.*?>\s*>", ">", t)
    return t


def archive_ops(prog, fn, arname=None, depth=0):
    """ordered list of archived values in fn: [(category, expr, line, inloop)]
    `ar(a, b)` yields a then b; save_helper/load_helper(ar, x) are inlined."""
    if arname is None:
        arname = fn["params"][0]["n"] if fn.get("params") else "ar"
    out = []

    def is_ar(e):
        while e is not None and e.get("k") in ("un", "cast"):
            e = e["a"][0]
        if e is None:
            return False
        if e.get("k") == "ref" and e.get("n") == arname:
            return True
        if e.get("k") == "this" and arname == "this":
            return True
        return False

    def expr(e, inloop):
        for n in ordered(e):
            if n.get("k") == "op" and n.get("op") == "()" and n.get("a") \
                    and is_ar(n["a"][0]):
                for a in n["a"][1:]:
                    out.append((category(expr_type(prog, a)), a, n.get("l"),
                                inloop))
            elif n.get("k") == "call" and n.get("n") in (
                    "save_helper", "load_helper", "save_typeid",
                    "load_typeid") and n.get("a") and is_ar(n["a"][0]) \
                    and depth < 4:
                g = prog.functions.get(n.get("u"))
                if g is None:
                    out.append(("?helper", n, n.get("l"), inloop))
                else:
                    for c, x, l, il in archive_ops(prog, g, None, depth + 1):
                        out.append((c, x, n.get("l"), inloop or il))

    def ordered(e):
        # evaluation order approximated by source order (pre-order)
        return walk(e)

    def stmt(s, inloop):
        if s is None:
            return
        k = s.get("k")
        if k == "{}":
            for x in s.get("s", ()):
                stmt(x, inloop)
        elif k == "expr":
            expr(s.get("e"), inloop)
        elif k == "decl":
            for v in s.get("v", ()):
                if v.get("i"):
                    expr(v["i"], inloop)
        elif k == "return":
            if s.get("e"):
                expr(s["e"], inloop)
        elif k == "if":
            expr(s.get("c"), inloop)
            stmt(s.get("t"), inloop)
            stmt(s.get("e"), inloop)
        elif k in ("for", "while", "forr", "do"):
            if s.get("init"):
                stmt(s["init"], inloop)
            stmt(s.get("b"), True)
        elif k == "try":
            stmt(s.get("b"), inloop)
        elif k in ("switch", "case", "default"):
            stmt(s.get("b"), inloop)
    stmt(fn["body"], False)
    return out


def is_throwing_stub(fn):
    """body never completes normally and archives nothing"""
    from .sym import always_exits
    body = fn.get("body")
    if not body:
        return False
    has_throw = any(n.get("k") == "throw" for n in walk(body))
    has_return_value = any(n.get("k") == "return" and n.get("e")
                           for n in walk(body))
    return has_throw and always_exits(body) and not has_return_value


def switch_cases(sw):
    """[(ENUM name or None for default, [statements])] of a switch"""
    body = sw.get("b") or {}
    out = []
    cur = None
    for x in body.get("s", []) if body.get("k") == "{}" else [body]:
        inner = x
        labels = []
        while inner.get("k") in ("case", "default"):
            if inner["k"] == "default":
                labels.append(None)
            else:
                v = inner.get("v") or {}
                while v.get("k") == "cast":
                    v = v["a"][0]
                labels.append(v.get("n"))
            inner = inner.get("b") or {"k": "null"}
        if labels:
            cur = [inner]
            for lb in labels:
                out.append((lb, cur))
        elif cur is not None:
            cur.append(x)
    return out


def find_switches(fn):
    return [n for n in walk(fn["body"]) if n.get("k") == "switch"]


def saver_table(prog):
    """(save_rcp_basic fn, {ENUM: saver usr})"""
    fs = [f for f in prog.functions.values()
          if f["n"] == "save_rcp_basic" and f.get("body")
          and not f.get("dependent")
          and "PortableBinaryOutputArchive" in f.get("cls", "")]
    if not fs:
        raise AnalysisBroken("save_rcp_basic instantiation not found")
    f = fs[0]
    sws = find_switches(f)
    if len(sws) != 1:
        raise AnalysisBroken("save_rcp_basic: expected one switch")
    table = {}
    default = None
    for enum, stmts in switch_cases(sws[0]):
        for s in stmts:
            for n in walk(s):
                if n.get("k") == "call" and n.get("n") == "save_basic":
                    if enum is None:
                        default = n.get("u")
                    else:
                        table[enum] = n.get("u")
    return f, table, default


def loader_table(prog, T="SymEngine::Basic"):
    """(load_rcp_basic<T> fn, {ENUM: loader usr}, decode switch, alias sw)"""
    fs = [f for f in prog.functions.values()
          if f["n"] == "load_rcp_basic" and f.get("tk") == "inst"
          and f.get("ta") == [T]]
    if not fs:
        raise AnalysisBroken("load_rcp_basic<%s> not found" % T)
    f = fs[0]
    sws = find_switches(f)
    # the decode switch is the one whose cases call load_basic; a switch
    # re-checking the type of an already-loaded (aliased) object may precede
    # it (its absence is judged by the rules, it is not an analysis failure)
    decode = [sw for sw in sws if any(
        n.get("k") == "call" and n.get("n") == "load_basic"
        for n in walk(sw))]
    if len(decode) != 1:
        raise AnalysisBroken("load_rcp_basic: decode switch not found")
    decode_sw = decode[0]
    others = [sw for sw in sws if sw is not decode_sw]
    alias_sw = others[0] if others else None
    table = {}
    for enum, stmts in switch_cases(decode_sw):
        if enum is None:
            continue
        for s in stmts:
            for n in walk(s):
                if n.get("k") == "call" and n.get("n") == "load_basic":
                    table[enum] = n.get("u")
    return f, table, decode_sw, alias_sw


def all_loader_instances(prog):
    return [f for f in prog.functions.values()
            if f["n"] == "load_rcp_basic" and f.get("tk") == "inst"]
