"""C20 — deserialising untrusted bytes: validator dominance (taint rule).

Values read from the archive reach the following sinks only through their
validators; each check is a dominance question on the structured IR of the
*instantiated* loader code.
"""
from selib import sym
from selib.program import walk, show, short, strip_type
from selib import archive as AR
from selib.printers import enum_to_class
from selib.build import AnalysisBroken


def has_fact(facts, pred):
    for g in facts:
        if g[0] == "case":
            continue
        c, pol = g
        if pred(c, pol):
            return True
    return False


def mentions(e, name):
    return any(n.get("k") == "ref" and n.get("n") == name for n in walk(e))


NONEMPTY_CLASSES = ["And", "Or", "Xor", "Piecewise", "Union", "FiniteSet",
                    "Derivative", "Max", "Min"]


def run(loader, R, tier):
    prog = loader()
    R.explanation = (
        "Validator-dominance rules over the instantiated deserialiser "
        "(serialize-cereal.h as compiled into basic.cpp / dense_matrix.cpp): "
        "each sink that consumes an untrusted archive value must be "
        "dominated by its validating test on the same value taking the "
        "accepting edge (computed on the structured IR: enclosing branches, "
        "short-circuit operands and preceding early exits). Decides that the "
        "validators are in place on every path; it does not bound "
        "allocation sizes inside cereal's container loaders nor the "
        "behaviour of every later operation on a non-canonical object "
        "(R20.9 only enumerates those construction sites).")
    rules = {
        "R20.1": "static_cast<TypeID>(i) dominated by i >= TypeID_Count -> "
                 "throw",
        "R20.2": "first_seen used as a flag only after first_seen >= 2 -> "
                 "throw",
        "R20.3": "it->second of _rcp_map.find(addr) dominated by "
                 "it == end() -> throw",
        "R20.4": "rcp_static_cast<const T> of a loaded object guarded by the "
                 "is_base_of<T, Class> test of the same case, and the "
                 "constant agrees with the class hierarchy",
        "R20.5": "integer_class(std::string) dominated by the non-empty and "
                 "sign/digit validation",
        "R20.6": "both type-code switches have a throwing default",
        "R20.7": "load_rcp_basic translates cereal::Exception into "
                 "SerializationError",
        "R20.10": "factories the loaders hand untrusted values to guard "
                  "every narrowing cast of their generic parameters",
        "R20.11": "no unvalidated two-integer rational construction from "
                  "archive fields inside load_basic",
        "R20.8": "DenseMatrix::loads validates rows*cols against the "
                 "element count before constructing the matrix",
        "R20.9": "enumeration of invariant-bearing constructions from "
                 "untrusted fields (reported, not judged)",
    }
    for k, v in rules.items():
        R.rule(k, v)
    R.trusted += ["cereal::PortableBinaryInputArchive throws cereal::Exception "
                  "on short reads"]
    R.assumptions += ["allocation failure and sizes taken from untrusted "
                      "container counts are out of scope"]
    e2c = enum_to_class(prog)

    # ------------------------------------------------------------ R20.1
    n1 = 0
    for u, f in prog.functions.items():
        if "serialize-cereal.h" not in f.get("file", "") or f.get(
                "dependent") or f.get("tk") == "pattern":
            continue

        def cb(n, guards, line, f=f):
            nonlocal n1
            if n.get("k") == "cast" and strip_type(n.get("t", "")) \
                    == "SymEngine::TypeID":
                src = n["a"][0]
                n1 += 1
                key = "%s@%s" % (short(f["qn"])[:50], n.get("l"))
                R.instance("R20.1", key, sample={"cast": show(n)})
                facts = sym.flatten_guards(guards)
                nm = src.get("n")
                ok = has_fact(facts, lambda c, pol: (
                    c.get("k") == "bin" and c.get("op") in (">=", ">")
                    and not pol and mentions(c["a"][0], nm)
                    and "TypeID_Count" in show(c["a"][1])) or (
                    c.get("k") == "bin" and c.get("op") in ("<", "<=")
                    and pol and mentions(c["a"][0], nm)
                    and "TypeID_Count" in show(c["a"][1])))
                if not ok:
                    R.violation(
                        "R20.1", short(f["n"]), prog.loc(f, n.get("l")),
                        "%s converts the untrusted byte `%s` to TypeID "
                        "without a dominating range test against "
                        "TypeID_Count: the decoding switch is entered with "
                        "an out-of-range code" % (short(f["qn"])[:60], nm))
        sym.visit_guarded(f["body"], cb)
    R.floor("TypeID casts in the deserialiser", n1, 1)

    # ------------------------------------------------------------ R20.7b
    # the entry points: every use of a cereal input archive in a loads()
    # function (its construction reads a header byte; reading the version
    # and plain integers goes through no translating loader) is lexically
    # inside a try that translates cereal::Exception
    nent = 0
    for u, f in sorted(prog.functions.items(), key=lambda kv: kv[1]["qn"]):
        if f["n"] != "loads" or not f.get("body") or f.get("dependent") \
                or "/symengine/" not in (f.get("file") or ""):
            continue

        def scan(st, in_try):
            out = []
            if not isinstance(st, dict):
                return out
            if st.get("k") == "try":
                ok = any(("cereal::Exception" in h.get("t", "")
                          or h.get("t") == "...")
                         and any(n.get("k") == "throw"
                                 and "SerializationError" in n.get("t", "")
                                 for n in walk(h["b"]))
                         for h in st.get("h", ()))
                out += scan(st.get("b"), in_try or ok)
                return out
            if st.get("k") == "decl":
                for v in st.get("v", ()):
                    if "InputArchive" in (v.get("t") or "") and not in_try:
                        out.append((st.get("l"), "constructs the archive"))
            if st.get("k") == "expr":
                e = st.get("e") or {}
                if e.get("k") == "op" and e.get("op") == "()" and any(
                        "InputArchive" in (y.get("t") or "")
                        for y in walk((e.get("a") or [{}])[0])) \
                        and not in_try:
                    out.append((st.get("l"), "reads from the archive"))
            for key in ("s",):
                for x in st.get(key, ()) or ():
                    out += scan(x, in_try)
            for key in ("t", "e", "b"):
                if isinstance(st.get(key), dict):
                    out += scan(st[key], in_try)
            return out
        uses = [n for n in walk(f["body"])
                if "InputArchive" in (n.get("t") or "")]
        if not uses:
            continue
        nent += 1
        tag = short(f["qn"])
        R.instance("R20.7", tag)
        bad = scan(f["body"], False)
        if bad:
            R.violation(
                "R20.7", tag, prog.loc(f, bad[0][0]),
                "%s %s (line %s) outside any try that translates "
                "cereal::Exception: input that ends inside the header "
                "(e.g. an empty string) escapes as a foreign exception"
                % (tag, bad[0][1], bad[0][0]))
    R.floor("loads() entry points using a cereal archive", nent, 2)

    # ------------------------------------------------------- R20.2 .. R20.7
    loaders = AR.all_loader_instances(prog)
    if len(loaders) < 3:
        raise AnalysisBroken("load_rcp_basic instantiations: %d"
                             % len(loaders))
    casts = 0
    for lf in loaders:
        T = lf["ta"][0]
        tag = "load_rcp_basic<%s>" % short(T)
        sws = AR.find_switches(lf)
        if len(sws) < 1:
            raise AnalysisBroken(tag + ": no type-code switch found")
        # R20.7 try/catch
        tries = [s for s in lf["body"].get("s", []) if s.get("k") == "try"]
        R.instance("R20.7", tag)
        ok7 = False
        if len(tries) == 1 and len(lf["body"]["s"]) == 1:
            for h in tries[0].get("h", ()):
                if "cereal::Exception" in h.get("t", "") or h.get("t") == "...":
                    if any(n.get("k") == "throw" and "SerializationError"
                           in n.get("t", "") for n in walk(h["b"])):
                        ok7 = True
        if not ok7:
            R.violation("R20.7", tag, prog.loc(lf),
                        "%s is not wholly enclosed in try/catch translating "
                        "cereal::Exception to SerializationError" % tag)
        # R20.6 defaults
        for i, sw in enumerate(sws):
            R.instance("R20.6", "%s#%d" % (tag, i))
            d = [st for e, st in AR.switch_cases(sw) if e is None]
            ok6 = bool(d) and any(
                n.get("k") == "throw" for s in d[0] for n in walk(s))
            if not ok6:
                R.violation("R20.6", "%s#%d" % (tag, i),
                            prog.loc(lf, sw.get("l")),
                            "type-code switch #%d of %s has no throwing "
                            "default: an unknown code falls out of the "
                            "switch" % (i, tag))

        # guards at interesting sites
        def cb(n, guards, line, lf=lf, T=T, tag=tag):
            nonlocal casts
            facts = None
            # R20.2: first_seen used as flag
            if n.get("k") == "un" and n.get("op") == "!" \
                    and n["a"][0].get("n") == "first_seen":
                facts = sym.flatten_guards(guards)
                R.instance("R20.2", tag)
                ok = has_fact(facts, lambda c, pol: c.get("k") == "bin"
                              and c.get("op") in (">=", ">") and not pol
                              and mentions(c["a"][0], "first_seen"))
                if not ok:
                    R.violation(
                        "R20.2", tag, prog.loc(lf, line),
                        "%s uses the untrusted byte first_seen as a flag "
                        "without first rejecting values >= 2" % tag)
            # R20.3: it->second
            if n.get("k") == "mem" and n.get("m") == "second":
                o = n.get("o") or {}
                base = o["a"][0] if o.get("k") == "op" and o.get(
                    "op") == "->" and o.get("a") else o
                if base.get("k") == "ref" and base.get("n") == "it":
                    facts = sym.flatten_guards(guards)
                    R.instance("R20.3", tag)
                    ok = has_fact(facts, lambda c, pol: c.get("k") in (
                        "op", "bin") and ((c.get("op") == "==" and not pol)
                                          or (c.get("op") == "!=" and pol))
                        and mentions(c, "it") and "end" in show(c))
                    if not ok:
                        R.violation(
                            "R20.3", tag, prog.loc(lf, line),
                            "%s dereferences the result of "
                            "_rcp_map.find(addr) without a dominating "
                            "`it == end()` rejection" % tag)
            # R20.4
            if n.get("k") == "call" and n.get("n") == "rcp_static_cast":
                casts += 1
                facts = sym.flatten_guards(guards)
                enum = None
                for g in guards:
                    if g[0] == "case" and g[2] is not None:
                        enum = g[2].get("n")
                key = "%s:%s" % (tag, enum)
                R.instance("R20.4", key)
                const = None
                for g in facts:
                    if g[0] == "case":
                        continue
                    c, pol = g
                    q = c.get("q", "")
                    if c.get("k") == "ref" and q.startswith(
                            "std::integral_constant<bool,"):
                        val = "true" in q
                        # cast reached when the constant is `val`==pol
                        const = (val, pol)
                cls = e2c.get(enum)
                if const is None:
                    R.violation(
                        "R20.4", key, prog.loc(lf, n.get("l")),
                        "%s: rcp_static_cast<const %s> in case %s is not "
                        "guarded by the is_base_of test" % (tag, short(T),
                                                            enum))
                elif cls is not None:
                    val, pol = const
                    derives = prog.derives(cls, T)
                    # guard reads: cast executes iff constant == pol
                    reachable = (val == pol)
                    if reachable and not derives:
                        R.violation(
                            "R20.4", key, prog.loc(lf, n.get("l")),
                            "%s: case %s casts a %s to %s although %s does "
                            "not derive from it (type confusion on crafted "
                            "input)" % (tag, enum, short(cls), short(T),
                                        short(cls)))
        sym.visit_guarded(lf["body"], cb)
    R.floor("guarded rcp_static_cast sites", casts, 400)
    R.floor("R20.2 sites", R.instances.get("R20.2", 0), 3)
    R.floor("R20.3 sites", R.instances.get("R20.3", 0), 3)

    # ------------------------------------------------------------ R20.12
    # node classes whose users dereference the first operand: the loader
    # builds them directly from the container it read, so a record with an
    # element count of 0 must be rejected there (frozen instances, each
    # confirmed with replays/c20_nodes_from_empty_containers.cpp: printing
    # an And/Or/Xor/Piecewise/Union/FiniteSet without operands crashed,
    # latex of a Derivative without variables did not terminate;
    # replays/c20_max_without_arguments.cpp: eval_double of a Max/Min
    # without arguments dereferences the first one; Mul, Add, Subs,
    # LeviCivita and FunctionSymbol tolerate empty containers)
    R.rule("R20.12", "loaders reject an empty operand container for the "
                     "node classes that cannot be empty")
    NONEMPTY = NONEMPTY_CLASSES
    lbs = {}
    for f in prog.functions.values():
        if f["n"] == "load_basic" and f.get("body") \
                and f.get("tk") == "inst" and len(f.get("params", ())) >= 2:
            t = strip_type(f["params"][1]["t"])
            m = t.replace("SymEngine::RCP<const SymEngine::", "").rstrip(">")
            lbs.setdefault(m.strip(), f)
    n12 = 0
    for K in NONEMPTY:
        f = lbs.get(K)
        if f is None:
            raise AnalysisBroken("load_basic for %s not found" % K)
        n12 += 1
        # the container local: declared here, passed to ar(...), handed to
        # make_rcp
        mk = [n for n in walk(f["body"]) if n.get("k") == "call"
              and n.get("n") == "make_rcp"]
        locs = {v["n"] for d in walk(f["body"]) if d.get("k") == "decl"
                for v in d.get("v", ())
                if any(x in (v.get("t") or "") for x in (
                    "std::set<", "std::vector<", "std::multiset<",
                    "std::map<", "std::unordered"))}
        tested = set()
        for n in walk(f["body"]):
            if n.get("k") == "if" and any(
                    y.get("k") == "throw" for y in walk(n.get("t") or {})):
                for y in walk(n.get("c") or {}):
                    if y.get("k") == "mcall" and y.get("n") in (
                            "empty", "size") and (y.get("o") or {}).get(
                            "n") in locs:
                        tested.add(y["o"]["n"])
        # validation through the class's own predicate counts as well
        for n in walk(f["body"]):
            if n.get("k") == "if" and any(
                    y.get("k") == "throw" for y in walk(n.get("t") or {})):
                for y in walk(n.get("c") or {}):
                    if y.get("k") in ("call", "mcall") \
                            and y.get("n") == "is_canonical":
                        for z in walk(y):
                            if z.get("k") == "ref" and z.get("n") in locs:
                                tested.add(z["n"])
        used = {x["n"] for m_ in mk for x in walk(m_)
                if x.get("k") == "ref" and x.get("n") in locs}
        R.instance("R20.12", K, sample={"class": K,
                                        "containers": sorted(used),
                                        "emptiness_tested": sorted(tested)})
        if not mk or (used - tested):
            R.violation(
                "R20.12", K, prog.loc(f),
                "load_basic builds a %s from the container(s) %s read from "
                "the archive without rejecting an element count of 0: the "
                "object cannot be produced by the library itself, and "
                "printing it dereferences the first operand of an empty "
                "container" % (K, sorted(used - tested) or sorted(locs)))
    R.floor("loaders of classes that cannot be empty", n12, 9)

    # ------------------------------------------------------------ R20.13
    # the back-reference table of the input archive: a record may name the
    # address of any earlier record, including one whose object was a
    # temporary of an enclosing loader (an operand the canonicalising
    # factory folded away) -- only an owning reference in the table keeps
    # that object alive until the later record resolves it.
    R.rule("R20.13", "the loader's address table owns the objects it hands "
                     "out for back-references")
    n13 = 0
    for cn, c in prog.classes.items():
        if not cn.startswith("SymEngine::RCPBasicAwareInputArchive"):
            continue
        for fld in c.get("fields", ()):
            t = fld.get("t") or ""
            if "map<" not in t:
                continue
            n13 += 1
            key = "%s::%s" % (short(cn).split("<")[0], fld["n"])
            owning = "RCP<const SymEngine::Basic>" in t \
                and "Basic> *" not in t
            R.instance("R20.13", key, sample={"field": fld["n"], "type": t})
            if not owning:
                R.violation(
                    "R20.13", key, c.get("loc") or "symengine/serialize-cereal.h",
                    "the address table %s has type %s: it does not own the "
                    "loaded objects, so a back-reference to a record whose "
                    "object an enclosing factory already dropped (a folded "
                    "operand) resolves to freed memory" % (fld["n"], t))
    R.floor("address tables of the input archive", n13, 1)

    # ------------------------------------------------------------ R20.11
    # numbers rebuilt from untrusted archive fields: inside the load_basic
    # overloads a rational_class may only be formed from two read values
    # under a zero test of the denominator (canonicalisation divides by it:
    # SIGFPE), and Rational/Complex::from_mpq (which trust their argument)
    # must not be fed from a two-integer construction of read values; the
    # validating factories (Rational::from_two_ints, Number arithmetic) are
    # the accepted route.
    from rules.c05 import guarded_nonzero, nonzero_literal, MPQ
    n9 = 0
    for u, f in prog.functions.items():
        if f.get("n") != "load_basic" or f.get("dependent") \
                or f.get("tk") == "pattern" or not f.get("body"):
            continue

        def cb9(n, guards, line, f=f):
            nonlocal n9
            if n.get("k") == "ctor" and strip_type(n.get("t", "")) in MPQ \
                    and len(n.get("a", ())) == 2:
                h = prog.header(n.get("u", ""))
                pts = [strip_type(p["t"]) for p in h.get("params", [])]
                if len(pts) != 2 or "basic_string" in pts[0]:
                    return
                n9 += 1
                key = "%s@%s" % (short(f["params"][1]["t"]) if len(
                    f.get("params", ())) > 1 else short(f["qn"]),
                    n.get("l"))
                R.instance("R20.11", key)
                d = n["a"][1]
                if nonzero_literal(d) or guarded_nonzero(d, guards, f):
                    return
                R.violation(
                    "R20.11", key, prog.loc(f, n.get("l")),
                    "load_basic builds rational_class(%s) from archive "
                    "fields with no zero test of the denominator: crafted "
                    "bytes with a zero denominator kill the process "
                    "(SIGFPE in mpq_canonicalize)" % ", ".join(
                        show(a)[:30] for a in n["a"]))
        sym.visit_guarded(f["body"], cb9)
    R.instance("R20.11", "load_basic overloads scanned", nontrivial=False,
               sample={"two_integer_rational_constructions": n9})

    # ------------------------------------------------------------ R20.10
    # validators the loaders rely on: a load_basic overload hands the values
    # it read to a factory that takes generic Number/Basic parameters
    # (Complex::from_two_nums, ...); inside such a factory every narrowing
    # cast of those parameters must be guarded by a dynamic type test,
    # otherwise crafted bytes put another kind there (type confusion)
    from rules.c40 import cast_guards, GENERIC
    callees = {}
    for u, f in prog.functions.items():
        if f.get("n") != "load_basic" or f.get("dependent") \
                or f.get("tk") == "pattern" or not f.get("body"):
            continue
        for n in walk(f["body"]):
            if n.get("k") in ("call", "mcall") and n.get("u") \
                    in prog.functions:
                g = prog.functions[n["u"]]
                if g.get("body") and any(strip_type(p["t"]) in GENERIC
                                         for p in g.get("params", ())) \
                        and (g.get("qn") or "").startswith("SymEngine::") \
                        and g.get("n") != "load_basic":
                    callees[g["u"]] = g
    cnt = {}
    for g in sorted(callees.values(), key=lambda g: g["qn"]):
        R.instance("R20.10", short(g["qn"]), nontrivial=False)
        cast_guards(prog, R, "R20.10", g, "validator", cnt)
    R.info["validators_called_by_loaders"] = sorted(
        short(g["qn"]) for g in callees.values())

    # ------------------------------------------------------------ R20.5
    n5 = 0
    for u, f in prog.functions.items():
        if "serialize-cereal.h" not in f.get("file", "") or f.get(
                "dependent") or f.get("tk") == "pattern":
            continue

        def cb5(n, guards, line, f=f):
            nonlocal n5
            if n.get("k") == "ctor" and strip_type(n.get("t", "")) in (
                    "SymEngine::mpz_wrapper", "SymEngine::mpq_wrapper") \
                    and n.get("a") and "basic_string" in (
                        prog.header(n.get("u", "")).get("params", [{}])[0]
                        .get("t", "")):
                n5 += 1
                src = [x for x in walk(n["a"][0]) if x.get("k") == "ref"]
                nm = src[0]["n"] if src else "?"
                key = "%s@%s" % (short(f["qn"])[:40], n.get("l"))
                R.instance("R20.5", key, sample={"ctor": show(n)[:80]})
                facts = sym.flatten_guards(guards)
                nonempty = has_fact(facts, lambda c, pol: c.get("k") == "bin"
                                    and c.get("op") == "==" and not pol
                                    and "size" in show(c["a"][0])
                                    and mentions(c, nm))
                digit_loop = False
                for s in walk(f["body"]):
                    if s.get("k") in ("for", "forr", "while") and (
                            s.get("l") or 0) < (n.get("l") or 0):
                        for t in walk(s.get("b")):
                            if t.get("k") == "if" and "isdigit" in show(
                                    t.get("c")) and sym.always_exits(
                                    t.get("t")):
                                digit_loop = True
                if not (nonempty and digit_loop):
                    R.violation(
                        "R20.5", short(f["n"]), prog.loc(f, n.get("l")),
                        "%s builds an integer_class from the untrusted "
                        "string `%s` without %s: GMP aborts on malformed "
                        "digits" % (short(f["qn"])[:50], nm,
                                    "the empty-string test" if not nonempty
                                    else "the digit validation loop"))
        sym.visit_guarded(f["body"], cb5)
    R.floor("integer_class(string) constructions in loaders", n5, 1)

    # ------------------------------------------------------------ R20.8
    dl = prog.one_fn("SymEngine::DenseMatrix::loads")
    site = [0]

    def cb8(n, guards, line):
        if n.get("k") == "ctor" and strip_type(n.get("t", "")) \
                == "SymEngine::DenseMatrix" and len(n.get("a", ())) == 3:
            site[0] += 1
            R.instance("R20.8", "DenseMatrix::loads@%s" % n.get("l"))
            names = []
            for a in n["a"]:
                names.append([x["n"] for x in walk(a)
                              if x.get("k") == "ref"][:1])
            rn, cn, on = [x[0] if x else "?" for x in names]
            facts = sym.flatten_guards(guards)
            ok = has_fact(facts, lambda c, pol: c.get("k") == "bin"
                          and ((c.get("op") == "!=" and not pol)
                               or (c.get("op") == "==" and pol))
                          and mentions(c, rn) and mentions(c, cn)
                          and mentions(c, on) and "size" in show(c))
            # the product must not wrap: computed in a 64-bit type
            narrow = None
            for g in facts:
                if g[0] == "case":
                    continue
                c, pol = g
                if mentions(c, rn) and mentions(c, cn) and "size" in show(c):
                    for x in walk(c):
                        if x.get("k") == "bin" and x.get("op") == "*":
                            wide = all(
                                "long" in (y.get("t") or "")
                                or "size_t" in (y.get("t") or "")
                                for y in x["a"] if y.get("k") == "cast") \
                                and all(y.get("k") == "cast"
                                        for y in x["a"])
                            if not wide and "long" not in (x.get("ot")
                                                           or ""):
                                narrow = show(x)
            if ok and narrow:
                R.violation(
                    "R20.8", "DenseMatrix::loads:width",
                    prog.loc(dl, n.get("l")),
                    "DenseMatrix::loads checks `%s` against the element "
                    "count, but the product is computed in 32 bits and "
                    "wraps: crafted dimensions such as 65536 x 65536 pass "
                    "the check with no elements" % narrow)
            if not ok:
                R.violation(
                    "R20.8", "DenseMatrix::loads", prog.loc(dl, n.get("l")),
                    "DenseMatrix::loads constructs DenseMatrix(%s, %s, %s) "
                    "from untrusted fields without checking %s*%s against "
                    "%s.size(): later element access is out of bounds"
                    % (rn, cn, on, rn, cn, on))
    sym.visit_guarded(dl["body"], cb8)
    R.floor("DenseMatrix construction in loads", site[0], 1)

    # ------------------------------------------------------------ R20.9
    lf0, ltab, dsw, asw = AR.loader_table(prog)
    for enum, lu in sorted(ltab.items()):
        l = prog.functions.get(lu)
        if l is None or AR.is_throwing_stub(l):
            continue
        for n in walk(l["body"]):
            if n.get("k") == "call" and n.get("n") == "make_rcp" \
                    and n.get("ta"):
                K = strip_type(n["ta"][0])
                canon = prog.find_method(K, "is_canonical")
                if canon:
                    R.undecided_obligation(
                        "R20.9", enum, "%s constructed from untrusted "
                        "fields without %s::is_canonical" % (short(K),
                                                             short(K)))


MANIFEST = dict(
    technique="validator-dominance (taint) rules on the structured IR of the "
              "instantiated deserialiser",
    text="Decides that every sink consuming an untrusted archive value is "
         "dominated by its validator on all paths: TypeID range test before "
         "the cast, first_seen < 2, map lookup checked against end(), "
         "rcp_static_cast guarded by the is_base_of constant which must "
         "agree with the real class hierarchy (all 5 instantiations x 113 "
         "cases), integer strings validated before GMP sees them, throwing "
         "defaults, cereal exceptions translated, DenseMatrix dimensions "
         "checked against the element count. This is the memory-safety "
         "skeleton of loads(); it does not bound allocation sizes inside "
         "cereal nor prove that every non-canonical object built from "
         "crafted fields (enumerated, not judged) is handled by later "
         "operations.",
    note="Trusted: cereal throws on short reads; guards are not invalidated "
         "by intervening assignments (the loaders assign each value once).",
    ref="§2 C20",
)
