"""C34 — property queries are sound (number rules, definite assignment,
duality by construction)."""
from selib.program import walk, show, short, strip_type
from selib.absint import Interp, TOP
from selib.numdom import NumDomain, AbsNum, all_points, NS
from selib.visitors import Visitors, MustAssign
from selib.build import AnalysisBroken

QUERY_VISITORS = {
    # visitor class: query name (for the truth table)
    "ZeroVisitor": "zero", "PositiveVisitor": "positive",
    "NegativeVisitor": "negative", "NonNegativeVisitor": "nonnegative",
    "NonPositiveVisitor": "nonpositive", "RealVisitor": "real",
    "IntegerVisitor": "integer", "ComplexVisitor": "complex",
    "RationalVisitor": "rational", "FiniteVisitor": "finite",
    "AlgebraicVisitor": "algebraic",
}
DERIVED = {"is_nonzero": "ZeroVisitor", "is_infinite": "FiniteVisitor",
           "is_transcendental": "AlgebraicVisitor"}


def truth(q, p):
    """mathematical truth of query q for abstract number p; None = not
    judged (convention-dependent or value not determined by the point)"""
    k, s = p.kind, p.sign()
    fin = p.is_finite()
    realk = p.is_real()
    cplx = k in ("Complex", "ComplexDouble")
    if k == "NaN":
        return None
    if q == "zero":
        return (realk and s == 0) if fin else False
    if q in ("positive", "negative", "nonnegative", "nonpositive"):
        if k == "Infty":
            return False if p.vc == "zoo" else None
        if cplx:
            return False
        return {"positive": s > 0, "negative": s < 0,
                "nonnegative": s >= 0, "nonpositive": s <= 0}[q]
    if q == "real":
        if k == "Infty":
            return False if p.vc == "zoo" else None
        return realk
    if q == "integer":
        if k in ("RealDouble", "ComplexDouble"):
            return None
        return k == "Integer"
    if q == "rational":
        if k in ("RealDouble", "ComplexDouble"):
            return None
        return k in ("Integer", "Rational")
    if q == "complex":
        return True if fin else None
    if q == "finite":
        return fin
    if q == "algebraic":
        if k in ("Integer", "Rational"):
            return True
        return None
    return None


class QDomain(NumDomain):
    def value(self, I, e, env):
        if e.get("k") == "ref" and e.get("d") == "enum":
            return ("enum", e["n"])
        return super().value(I, e, env)


def result_member(prog, V, vis):
    """member returned by <vis>::apply, the apply function, and whether apply
    initialises it before dispatching"""
    u = prog.find_method(vis, "apply")
    f = prog.functions.get(u)
    if f is None:
        return None, None, False
    mem = None
    for n in walk(f["body"]):
        if n.get("k") == "return" and n.get("e"):
            e = n["e"]
            while e.get("k") in ("ctor", "cast") and len(e.get("a", ())) == 1:
                e = e["a"][0]
            if e.get("k") == "ref" and e.get("d") == "local":
                lname = e["n"]
                for d in walk(f["body"]):
                    if d.get("k") == "decl":
                        for v in d.get("v", ()):
                            if v["n"] == lname and v.get("i"):
                                e = v["i"]
                while e.get("k") in ("ctor", "cast") \
                        and len(e.get("a", ())) == 1:
                    e = e["a"][0]
            if e.get("k") == "mem" and (e.get("o") or {}).get("k") == "this":
                mem = e["m"]
    pre = False
    if mem:
        # a visitor object that is built per query may initialise the result
        # in its constructor ("start true, handlers only falsify")
        for cu in prog.by_class.get(vis, ()):
            cf = prog.functions[cu]
            if cf.get("ctor"):
                for ini in cf.get("inits", ()):
                    if ini.get("m") == mem and ini.get("w"):
                        pre = True
        for c, fld in prog.fields(vis, inherited=False):
            if fld["n"] == mem and fld.get("i") is not None:
                pre = True
    if mem:
        for s in f["body"].get("s", []):
            if s.get("k") == "expr":
                e = s["e"]
                if e.get("k") in ("bin", "op") and e.get("op") == "=" \
                        and e["a"][0].get("k") == "mem" \
                        and e["a"][0].get("m") == mem:
                    pre = True
                if e.get("k") == "mcall" and e.get("n") == "accept":
                    break
    return mem, f, pre


def run(loader, R, tier):
    prog = loader()
    from selib import signpred
    R.rule("R34.0", "is_negative/is_zero/is_positive of Integer, Rational, "
                   "RealDouble are the comparisons of the value with 0 "
                   "(grounds the trusted atom table)")
    signpred.ground(prog, R, "R34.0")
    V = Visitors(prog)
    D = QDomain(prog)
    I = Interp(prog, D)
    R.explanation = (
        "R34.1: for each of the 11 query visitors the handler that the "
        "resolved dispatch table selects for every abstract number point "
        "(19 points: kind x value class) is interpreted (engine E3, "
        "predicate bodies included) and every definite answer is compared "
        "with the mathematical truth table of the property (NaN excluded; "
        "convention-dependent entries such as is_positive(+oo) not judged). "
        "R34.2: definite assignment of the tribool result member on every "
        "non-throwing path of every handler reachable from apply()'s static "
        "parameter type, for every visitor whose apply() returns a tribool "
        "member (test_visitors.cpp and matrices/is_*.cpp). R34.3: the "
        "derived queries (is_nonzero, is_infinite, is_transcendental) are "
        "not_tribool of the primary visitor. The Add/Mul/Pow combination "
        "rules and the Assumptions closure are not decided.")
    R.rule("R34.1", "definite answers for numbers agree with the truth "
                    "table")
    R.rule("R34.2", "tribool result definitely assigned in every reachable "
                    "handler")
    R.rule("R34.3", "derived queries delegate through not_tribool")
    R.assumptions += ["a range-for over the children of the visited node "
                      "runs at least once (n-ary nodes are non-empty in "
                      "canonical form)"]
    R.trusted += ["truth table of the 11 queries over number kinds (the "
                  "oracle, ~40 lines in rules/c34.py)",
                  "number-domain atoms (see C06)"]

    # ---------------------------------------------------------------- R34.1
    pts = all_points()
    nvis = 0
    for vname, q in sorted(QUERY_VISITORS.items()):
        vis = NS + vname
        if vis not in V.table:
            raise AnalysisBroken("query visitor %s vanished" % vname)
        mem, applyf, pre = result_member(prog, V, vis)
        if not mem:
            raise AnalysisBroken("no result member for " + vname)
        nvis += 1
        for p in pts:
            h = V.handlers(vis).get(p.cls)
            f = prog.functions.get(h)
            if f is None:
                raise AnalysisBroken("no handler body %s(%s)" % (vname,
                                                                 p.kind))
            want = truth(q, p)
            key = "%s(%r)" % (q, p)
            outs = I.run(f, TOP, [p])
            answers = set()
            definite = True
            for o in outs:
                if o.kind == "throw":
                    answers.add("throw")
                    continue
                val = (o.env or {}).get("this." + mem, "unset")
                if not o.definite:
                    definite = False
                answers.add(val[1] if isinstance(val, tuple) else repr(val))
            R.instance("R34.1", key, nontrivial=want is not None, sample={
                "query": q, "number": repr(p), "answers": sorted(answers),
                "truth": want})
            if want is None or not definite or len(answers) != 1:
                if want is not None:
                    R.undecided_obligation("R34.1", key, "answers %s"
                                           % sorted(answers))
                continue
            a = answers.pop()
            if a not in ("tritrue", "trifalse"):
                continue        # indeterminate / throw: no definite claim
            if (a == "tritrue") != want:
                R.violation(
                    "R34.1", "%s:%r" % (q, p), prog.loc(f),
                    "is_%s answers %s for %r (handler %s) but the property "
                    "is %s for every such number" % (
                        q, a, p, short(f["qn"]) + "(" + short(
                            f["params"][0]["t"]) + ")", want))
    R.floor("query visitors", nvis, 11)
    R.floor("judged (query, number) entries",
            len(R.nontrivial.get("R34.1", ())), 150)

    # ---------------------------------------------------------------- R34.2
    ntri = 0
    nh = 0
    protocol = {}
    for vis in V.visitors():
        mem, applyf, pre = result_member(prog, V, vis)
        if not mem or applyf is None:
            continue
        rt = strip_type(applyf.get("ret", ""))
        is_tri = rt == "SymEngine::tribool"
        pcls = strip_type(applyf["params"][0]["t"]) if applyf.get(
            "params") else "SymEngine::Basic"
        MA = MustAssign(prog, mem)
        bad_here = []
        for h, Xs in sorted(V.by_handler(vis).items()):
            reach = [x for x in Xs if prog.derives(x, pcls)]
            if not reach:
                continue
            f = prog.functions.get(h)
            if f is None:
                continue
            bad = MA.unassigned_exits(f)
            key = "%s::bvisit(%s)" % (short(vis), short(
                f["params"][0]["t"]) if f.get("params") else "?")
            if is_tri:
                nh += 1
                R.instance("R34.2", key, sample={
                    "handler": key, "member": mem,
                    "reachable_classes": len(reach)})
            if bad and not pre:
                bad_here.append(key)
                if is_tri:
                    R.violation(
                        "R34.2", key, prog.loc(
                            f, bad[0] if bad[0] != "end" else None),
                        "%s (reached for %s) can finish without assigning "
                        "`%s` (exit %s): apply() then returns the answer "
                        "left by a previous child or an uninitialised value "
                        "as a definite one" % (
                            key, ", ".join(short(x) for x in reach[:3]), mem,
                            bad[0]))
        protocol[short(vis)] = {"member": mem, "tribool": is_tri,
                                "apply_preinitialises": pre,
                                "handlers_possibly_unassigned": bad_here}
        if is_tri:
            ntri += 1
    R.info["visitor_protocol"] = protocol
    R.floor("tribool visitors", ntri, 15)
    R.floor("reachable tribool handlers", nh, 150)

    # ---------------------------------------------------------------- R34.3
    for fname, vname in sorted(DERIVED.items()):
        fs = [f for f in prog.fn_by_qn(NS + fname)
              if strip_type(f["params"][0]["t"]) == "SymEngine::Basic"]
        if len(fs) != 1:
            raise AnalysisBroken("derived query %s not found" % fname)
        f = fs[0]
        R.instance("R34.3", fname)
        ok = False
        for n in walk(f["body"]):
            if n.get("k") == "return" and n.get("e"):
                e = n["e"]
                if e.get("k") == "call" and e.get("n") == "not_tribool" \
                        and e.get("a"):
                    a = e["a"][0]
                    if a.get("k") == "mcall" and a.get("n") == "apply" \
                            and strip_type((a.get("o") or {}).get("t", "")) \
                            == NS + vname:
                        ok = True
        if not ok:
            R.violation("R34.3", fname, prog.loc(f),
                        "%s is not `not_tribool(%s(...).apply(b))`: a query "
                        "and its negation could both give a definite "
                        "answer" % (fname, vname))

    # ---------------------------------------------------------------- R34.4
    # strict duality of helpers: a sign visitor that decides its predicate
    # for a sum/product from the signs of the parts may consult, within the
    # sign family, only its *strict* dual (Positive <-> Negative,
    # NonNegative <-> NonPositive).  With a non-strict helper the boundary
    # case (a part equal to zero) is counted on the wrong side:
    # is_positive(-x - y) under x <= 0, y <= 0 would be true.
    R.rule("R34.4", "sign visitors consult only their strict dual")
    DUAL = {"PositiveVisitor": "NegativeVisitor",
            "NegativeVisitor": "PositiveVisitor",
            "NonNegativeVisitor": "NonPositiveVisitor",
            "NonPositiveVisitor": "NonNegativeVisitor"}
    nhelp = 0
    for u, f in sorted(prog.functions.items(),
                       key=lambda kv: kv[1]["qn"]):
        cls = short(f.get("cls") or "")
        if cls not in DUAL or not f.get("body") or f.get("dependent"):
            continue
        for n in walk(f["body"]):
            used = None
            if n.get("k") == "decl":
                for v in n.get("v", ()):
                    t = short(strip_type(v.get("t", "")))
                    if t in DUAL:
                        used = (t, n.get("l"))
            elif n.get("k") == "ctor" and short(strip_type(
                    n.get("t", ""))) in DUAL and n.get("tmp"):
                used = (short(strip_type(n["t"])), n.get("l"))
            if not used:
                continue
            nhelp += 1
            key = "%s::%s:%s" % (cls, f["n"], used[0])
            R.instance("R34.4", key, sample={"visitor": cls,
                                             "helper": used[0]})
            if used[0] not in (DUAL[cls], cls):
                R.violation(
                    "R34.4", key, prog.loc(f, used[1]),
                    "%s::%s decides from the signs of the parts with the "
                    "helper %s; only its strict dual %s keeps the boundary "
                    "case (a part equal to zero) on the right side" % (
                        cls, f["n"], used[0], DUAL[cls]))
    R.floor("sign-family helpers inside sign visitors", nhelp, 1)


MANIFEST = dict(
    technique="finite-domain abstract interpretation of the number handlers "
              "against a truth table + definite-assignment analysis over the "
              "resolved (visitor, class) dispatch table",
    text="Decides (1) exhaustively over 19 abstract number points x 11 "
         "query visitors that every definite answer for a number agrees "
         "with the mathematical truth table (so e.g. a sign query can never "
         "be definitely true for zoo or a complex number); (2) that every "
         "handler reachable in every tribool visitor (queries and the "
         "matrix predicates) assigns the result on all non-throwing paths, "
         "so no stale answer of a previous child is returned as definite; "
         "(3) that is_nonzero/is_infinite/is_transcendental are not_tribool "
         "of the primary visitor. Does not decide the Add/Mul/Pow "
         "combination rules (loops over run-time dictionaries) nor the "
         "Assumptions closure.",
    note="Trusted: the truth table (oracle) and the number-domain atoms.",
    ref="§2 C34",
)
