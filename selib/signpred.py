"""Grounding of the trusted atom table of the number domain (engine E3): the
rules that interpret code over number kinds assume that, for the real number
classes, is_negative / is_zero / is_positive are the order comparisons of the
value with zero (a trichotomy).  This rule checks that assumption against the
definitions instead of trusting it."""
from .program import walk, show, short
from .build import AnalysisBroken

REAL_CLASSES = ["SymEngine::Integer", "SymEngine::Rational",
                "SymEngine::RealDouble"]
EXPECT = {"is_negative": "<", "is_zero": "==", "is_positive": ">"}
FLIP = {"<": ">", ">": "<", "==": "=="}


def _zero(e):
    while e is not None and e.get("k") in ("cast", "ctor", "defarg") \
            and e.get("a"):
        e = e["a"][0]
    return e is not None and e.get("k") == "lit" and str(e.get("v")) in (
        "0", "0.0", "0.")


def _value_member(e):
    while e is not None and e.get("k") == "cast":
        e = e["a"][0]
    if e is not None and e.get("k") == "mem" and (
            e.get("o") is None or e["o"].get("k") == "this"):
        return e.get("m")
    return None


def ground(prog, R, rid):
    n = 0
    for cls in REAL_CLASSES:
        if cls not in prog.classes:
            raise AnalysisBroken("number class %s vanished" % cls)
        for pred, op in EXPECT.items():
            u = prog.find_method(cls, pred, 0)
            f = prog.functions.get(u) if u else None
            if f is None or f.get("cls") != cls:
                raise AnalysisBroken("%s::%s not defined" % (cls, pred))
            n += 1
            key = "%s::%s" % (short(cls), pred)
            ss = (f.get("body") or {}).get("s", [])
            ok = False
            txt = "?"
            if len(ss) == 1 and ss[0].get("k") == "return" \
                    and ss[0].get("e"):
                e = ss[0]["e"]
                while e.get("k") == "cast":
                    e = e["a"][0]
                txt = show(e)
                if e.get("k") in ("bin", "op") and len(e.get("a", ())) == 2:
                    a, b = e["a"]
                    if a.get("k") == "call" and a.get("n") == "mp_sign" and a.get("a") and _value_member(a["a"][0]) and _zero(b) and e.get("op") == op:
                        ok = True
                    if _value_member(a) and _zero(b) and e.get("op") == op:
                        ok = True
                    if _value_member(b) and _zero(a) \
                            and e.get("op") == FLIP[op]:
                        ok = True
            R.instance(rid, key, sample={"predicate": key, "body": txt,
                                         "expected": "value %s 0" % op})
            if not ok:
                R.violation(
                    rid, key, prog.loc(f),
                    "%s is `%s`, not the comparison `value %s 0`: the "
                    "trichotomy negative / zero / positive that the number "
                    "rules (oo arithmetic, relationals, assumptions) rely on "
                    "no longer holds for every value (e.g. a signed zero or "
                    "NaN)" % (key, txt, op))
    R.floor("sign predicates of the real number classes grounded", n, 9)
