#include <symengine/basic.h>
#include <symengine/add.h>
#include <symengine/complex.h>
#include <symengine/symbol.h>
#include <symengine/logic.h>
#include <symengine/assumptions.h>
#include <symengine/test_visitors.h>
#include <iostream>
using namespace SymEngine;
const char *ts(tribool t){ return is_true(t)?"true":is_false(t)?"false":"indeterminate"; }
int main(){
    RCP<const Basic> x = symbol("x");
    Assumptions a({Gt(x, integer(0))});
    auto e = add(x, I);
    std::cout << e->__str__() << ": is_positive | x > 0 = " << ts(is_positive(*e, &a)) << "   is_negative | x < 0 = ";
    Assumptions b({Lt(x, integer(0))});
    std::cout << ts(is_negative(*e, &b)) << "   (x + I is not real)\n";
    return is_true(is_positive(*e, &a)) ? 1 : 0;
}
