"""Literal table extraction (engine E4b): {"name", fn} maps, array[ENUM] =
value assignments."""
from .program import walk, strip_type


def unwrap_target(n):
    """strip casts / std::function construction / & around a function ref"""
    while isinstance(n, dict):
        k = n.get("k")
        if k == "cast":
            n = n["a"][0]
        elif k == "ctor" and len(n.get("a", ())) == 1:
            n = n["a"][0]
        elif k == "un" and n.get("op") == "&":
            n = n["a"][0]
        else:
            break
    return n


def string_tables(fn):
    """{table variable: [(key, target node, line)]} for every
    std::pair<const std::string, X>("literal", target) found in an
    initialiser inside fn's body (also body-less: pass a node)"""
    out = {}
    body = fn.get("body") if "body" in fn else fn

    def scan(node, table):
        for n in walk(node):
            if n.get("k") == "decl":
                continue
            if n.get("k") == "ctor" and "std::pair<" in n.get("t", "") \
                    and len(n.get("a", ())) == 2:
                a0 = n["a"][0]
                if a0.get("k") == "lit" and a0.get("t") == "str":
                    out.setdefault(table, []).append(
                        (a0["v"], unwrap_target(n["a"][1]), n.get("l")))
    for n in walk(body):
        if n.get("k") == "decl":
            for v in n.get("v", ()):
                if v.get("i") is not None:
                    scan(v["i"], v["n"])
    return out


def enum_index_assignments(fn):
    """[(array name, ENUM constant, value node, line)] for
    `arr[SYMENGINE_X] = value;` statements in fn"""
    out = []
    for n in walk(fn["body"]):
        if n.get("k") in ("bin", "op") and n.get("op") == "=":
            a = n.get("a", [])
            if len(a) != 2:
                continue
            lhs = a[0]
            if lhs.get("k") in ("bin", "op") and lhs.get("op") == "[]" \
                    and len(lhs.get("a", ())) == 2:
                arr, idx = lhs["a"]
                while idx.get("k") == "cast":
                    idx = idx["a"][0]
                if idx.get("k") == "ref" and idx.get("d") == "enum":
                    name = arr.get("n") or arr.get("m") or "?"
                    out.append((name, idx["n"], a[1], n.get("l")))
    return out
