#include <symengine/basic.h>
#include <symengine/symbol.h>
#include <symengine/symengine_exception.h>
#include <iostream>
using namespace SymEngine;
int main(){
    for (std::string s : {std::string(""), std::string("a"), std::string("abcd"), std::string("\x00\x00\x00\x00", 4)}) {
        try { auto e = Basic::loads(s); std::cout << "loaded " << e->__str__() << "\n"; }
        catch (SymEngineException &e) { std::cout << "len " << s.size() << ": library exception: " << e.what() << "\n"; }
        catch (std::exception &e) { std::cout << "len " << s.size() << ": FOREIGN exception (" << typeid(e).name() << "): " << e.what() << "\n"; }
    }
    return 0;
}
