"""Compile-database driver and fact cache.

configure (cmake, configure-only) -> compile DB (clang++, -std=gnu++17)
-> sefacts per TU (parallel, cached by content hash of every input)
-> link: merge per-TU facts into one de-duplicated program file.

Everything lives under /verif/.work (git-ignored); nothing is read from a
previous run unless the hashes of *all* its inputs (sources, headers, the
generated config header, the compile command and the extractor binary) match
the current /repo working tree.
"""
import fcntl
import hashlib
import json
import marshal
import os
import subprocess
import sys
import time
from concurrent.futures import ThreadPoolExecutor

VERIF = os.path.dirname(os.path.dirname(os.path.abspath(__file__)))
WORK = os.environ.get("VERIF_WORK", os.path.join(VERIF, ".work"))
REPO = os.environ.get("VERIF_REPO", "/repo")
TOOL_SRC = os.path.join(VERIF, "tools", "sefacts.cpp")
TOOL_BIN = os.path.join(WORK, "bin", "sefacts")
JOBS = int(os.environ.get("VERIF_JOBS", "16"))

CONFIGS = {
    # name -> extra cmake options (on top of what /repo/_build used, if any)
    "default": [],
    "ts": ["-DWITH_SYMENGINE_THREAD_SAFE=yes"],
}

# cmake cache entries mirrored from /repo/_build when it exists
MIRROR = ["CMAKE_BUILD_TYPE", "INTEGER_CLASS", "WITH_SYMENGINE_RCP",
          "WITH_SYMENGINE_THREAD_SAFE", "WITH_MPFR", "WITH_MPC", "WITH_FLINT",
          "WITH_LLVM", "WITH_BOOST", "WITH_PIRANHA", "WITH_ARB", "WITH_ECM",
          "WITH_PRIMESIEVE", "WITH_SYMENGINE_ASSERT", "WITH_VIRTUAL_TYPEID",
          "WITH_SYMENGINE_TEUCHOS", "WITH_SYSTEM_CEREAL",
          "WITH_SYSTEM_FASTFLOAT", "WITH_GENERATE_PARSER", "WITH_OPENMP",
          "WITH_PTHREAD", "WITH_TCMALLOC", "WITH_BFD", "WITH_COTIRE"]


class AnalysisBroken(Exception):
    """exit code 2: the analysis itself could not be carried out"""


def log(*a):
    print("[selib]", *a, file=sys.stderr, flush=True)


_SHA = {}


def sha(path):
    """content hash, memoised per process (files do not change in a run)"""
    if path not in _SHA:
        _SHA[path] = _sha(path)
    return _SHA[path]


def _sha(path):
    h = hashlib.sha1()
    try:
        with open(path, "rb") as f:
            h.update(f.read())
    except OSError:
        return "missing"
    return h.hexdigest()


def ensure_tool():
    os.makedirs(os.path.dirname(TOOL_BIN), exist_ok=True)
    stamp = TOOL_BIN + ".srchash"
    want = sha(TOOL_SRC)
    if os.path.exists(TOOL_BIN) and os.path.exists(stamp) \
            and open(stamp).read().strip() == want:
        return
    log("building sefacts ...")
    flags = subprocess.check_output(["llvm-config-14", "--cxxflags"],
                                    text=True).split()
    cmd = ["clang++"] + flags + ["-std=c++17", "-O1", "-fno-rtti", "-w",
                                 TOOL_SRC, "-o", TOOL_BIN + ".tmp",
                                 "/usr/lib/llvm-14/lib/libclang-cpp.so.14",
                                 "/usr/lib/llvm-14/lib/libLLVM-14.so"]
    r = subprocess.run(cmd, capture_output=True, text=True)
    if r.returncode != 0:
        raise AnalysisBroken("cannot build sefacts:\n" + r.stderr[-4000:])
    os.replace(TOOL_BIN + ".tmp", TOOL_BIN)
    open(stamp, "w").write(want)


def mirrored_options():
    cache = os.path.join(REPO, "_build", "CMakeCache.txt")
    opts = {}
    if os.path.exists(cache):
        for line in open(cache, errors="replace"):
            if line.startswith(("//", "#")) or "=" not in line:
                continue
            key, val = line.rstrip("\n").split("=", 1)
            name = key.split(":")[0]
            if name in MIRROR:
                opts[name] = val
    opts.setdefault("CMAKE_BUILD_TYPE", "RelWithDebInfo")
    return opts


def configure(cfg):
    """cmake configure-only; returns list of (file, command)."""
    bdir = os.path.join(WORK, "cfg-" + cfg)
    opts = mirrored_options()
    args = ["cmake", "-G", "Ninja", "-S", REPO, "-B", bdir,
            "-DBUILD_TESTS=no", "-DBUILD_BENCHMARKS=no",
            "-DCMAKE_EXPORT_COMPILE_COMMANDS=ON"]
    args += ["-D%s=%s" % kv for kv in sorted(opts.items())]
    args += CONFIGS[cfg]
    # skip the (2 s) configure when none of its inputs changed
    h = hashlib.sha1(" ".join(args).encode())
    inputs = []
    for root, dirs, files in os.walk(REPO):
        dirs[:] = [d for d in dirs if d not in ("_build", ".git", "docs",
                                                "benchmarks", "binder")]
        for fn in files:
            if fn == "CMakeLists.txt" or fn.endswith((".cmake", ".in")):
                inputs.append(os.path.join(root, fn))
    for pth in sorted(inputs):
        h.update(pth.encode())
        h.update(sha(pth).encode())
    stamp = os.path.join(bdir, ".verif-configure-stamp")
    dbp = os.path.join(bdir, "compile_commands.json")
    cfgh = os.path.join(bdir, "symengine", "symengine_config.h")
    if not (os.path.exists(stamp) and open(stamp).read() == h.hexdigest()
            and os.path.exists(dbp) and os.path.exists(cfgh)):
        r = subprocess.run(args, capture_output=True, text=True)
        if r.returncode != 0:
            raise AnalysisBroken("cmake configure failed (%s):\n%s"
                                 % (cfg, (r.stdout + r.stderr)[-3000:]))
        os.makedirs(bdir, exist_ok=True)
        open(stamp, "w").write(h.hexdigest())
    if not os.path.exists(dbp):
        raise AnalysisBroken("no compile_commands.json")
    db = json.load(open(dbp))
    seen = set()
    out = []
    for e in db:
        f = e["file"]
        if f in seen:
            continue
        seen.add(f)
        c = e["command"]
        c = c.split(" ", 1)
        c = "clang++ " + c[1]
        c = c.replace(" -o ", " -std=gnu++17 -Wno-everything -o ", 1)
        out.append({"directory": e["directory"], "file": f, "command": c})
    return bdir, out


def tu_key(path):
    rel = os.path.relpath(path, os.path.join(REPO, "symengine"))
    if rel.startswith(".."):
        rel = os.path.basename(path)
    for ext in (".cpp", ".cc"):
        if rel.endswith(ext):
            rel = rel[:-len(ext)]
    return rel.replace("/", "__")


def _dep_hash(deps, command, toolhash):
    h = hashlib.sha1()
    h.update(b"extractor-args-v2:also-root")
    h.update(command.encode())
    h.update(toolhash.encode())
    for d in sorted(deps):
        h.update(d.encode())
        h.update(sha(d).encode())
    return h.hexdigest()


def _metas_of(fdir, key):
    """meta files of exactly this TU key (<key>.<16 hex>.meta); a plain glob
    on key + '.*' would also match keys that extend it (parser__parser vs
    parser__parser.tab)"""
    import glob
    import re
    rx = re.compile(re.escape(key) + r"\.[0-9a-f]{16}\.meta$")
    return [p for p in glob.glob(os.path.join(fdir, key + ".*.meta"))
            if rx.search(os.path.basename(p))
            and os.path.basename(p).startswith(key + ".")
            and len(os.path.basename(p)) == len(key) + 1 + 16 + 5]


def _mtime(p):
    try:
        return os.path.getmtime(p)
    except OSError:
        return 0.0


def _extract_one(cfg, dbdir, entry, toolhash, force):
    """content-addressed: <key>.<hash>.marshal, several versions are kept so
    that reverting an edit costs nothing"""
    import glob
    fdir = os.path.join(WORK, "facts", cfg)
    key = tu_key(entry["file"])
    if not force:
        for meta in _metas_of(fdir, key):
            try:
                m = json.load(open(meta))
                out = meta[:-5] + ".marshal"
                if os.path.exists(out) and m["hash"] == _dep_hash(
                        m["deps"], entry["command"], toolhash):
                    os.utime(meta)
                    m["file"] = out
                    return key, False, m
            except Exception:
                pass
    tmp = os.path.join(fdir, key + ".%d.json" % os.getpid())
    r = subprocess.run([TOOL_BIN, "-p", dbdir,
                        "--root=" + os.path.join(REPO, "symengine"),
                        "--also-root=" + os.path.join(VERIF, "fixtures",
                                                      "tu"),
                        "-o", tmp, entry["file"]],
                       capture_output=True, text=True)
    if r.returncode != 0 or not os.path.exists(tmp):
        raise AnalysisBroken("sefacts failed on %s:\n%s"
                             % (entry["file"], r.stderr[-3000:]))
    d = json.load(open(tmp))
    os.unlink(tmp)
    if d.get("errors"):
        raise AnalysisBroken("TU does not parse: %s\n%s"
                             % (entry["file"], r.stderr[-3000:]))
    deps = [x for x in d.get("deps", [])
            if x.startswith(REPO + "/") or x.startswith(WORK + "/")
            or x.startswith(VERIF + "/")]
    d["deps"] = deps
    h = _dep_hash(deps, entry["command"], toolhash)
    out = os.path.join(fdir, "%s.%s.marshal" % (key, h[:16]))
    with open(out + ".tmp", "wb") as f:
        marshal.dump(d, f)
    os.replace(out + ".tmp", out)
    m = {"deps": deps, "hash": h, "functions": len(d["functions"])}
    json.dump(m, open(out[:-8] + ".meta", "w"))
    # keep at most 4 versions per TU
    metas = sorted(_metas_of(fdir, key), key=_mtime)
    for old in metas[:-4]:
        for p in (old, old[:-5] + ".marshal"):
            try:
                os.unlink(p)
            except OSError:
                pass
    m["file"] = out
    return key, True, m


def extra_tus(cfg, bdir, db):
    """analysis-only TUs under /verif/fixtures/tu (compiled with the
    library's flags, never linked)."""
    out = []
    tdir = os.path.join(VERIF, "fixtures", "tu")
    if not os.path.isdir(tdir) or not db:
        return out
    proto = db[0]
    for fn in sorted(os.listdir(tdir)):
        if not fn.endswith(".cpp"):
            continue
        path = os.path.join(tdir, fn)
        cmd = proto["command"].rsplit(" -o ", 1)[0]
        cmd += " -o /dev/null -c " + path
        out.append({"directory": proto["directory"], "file": path,
                    "command": cmd})
    return out


def load_program(cfg="default", force=False):
    """returns the linked fact dictionary for configuration cfg, extracting
    whatever is stale.  Serialised across processes by a lock file."""
    os.makedirs(os.path.join(WORK, "facts", cfg), exist_ok=True)
    lock = open(os.path.join(WORK, "lock-" + cfg), "w")
    fcntl.flock(lock, fcntl.LOCK_EX)
    try:
        return _load_program_locked(cfg, force)
    finally:
        fcntl.flock(lock, fcntl.LOCK_UN)
        lock.close()


def _load_program_locked(cfg, force):
    t0 = time.time()
    ensure_tool()
    toolhash = sha(TOOL_BIN)
    bdir, db = configure(cfg)
    db = db + extra_tus(cfg, bdir, db)
    dbdir = os.path.join(WORK, "db-" + cfg)
    os.makedirs(dbdir, exist_ok=True)
    dbtxt = json.dumps(db, indent=0)
    dbfile = os.path.join(dbdir, "compile_commands.json")
    if not os.path.exists(dbfile) or open(dbfile).read() != dbtxt:
        open(dbfile, "w").write(dbtxt)
    fdir = os.path.join(WORK, "facts", cfg)
    results = []
    with ThreadPoolExecutor(max_workers=JOBS) as ex:
        futs = [ex.submit(_extract_one, cfg, dbdir, e, toolhash, force)
                for e in db]
        for f in futs:
            results.append(f.result())
    fresh = [k for k, did, _ in results if did]
    keys = sorted(k for k, _, _ in results)
    linkhash = hashlib.sha1(
        ("|".join("%s:%s" % (k, m["hash"]) for k, _, m in sorted(
            results, key=lambda r: r[0]))).encode()).hexdigest()
    prog = os.path.join(fdir, "_program.%s.marshal" % linkhash[:16])
    stamp = prog + ".ok"
    if not os.path.exists(prog) or not os.path.exists(stamp):
        P = link([(k, m["file"]) for k, _, m in sorted(
            results, key=lambda r: r[0])])
        P["extracted_now"] = fresh
        with open(prog + ".tmp", "wb") as f:
            marshal.dump(P, f)
        os.replace(prog + ".tmp", prog)
        open(stamp, "w").write(linkhash)
        import glob
        progs = sorted(glob.glob(os.path.join(fdir, "_program.*.marshal")),
                       key=os.path.getmtime)
        for old in progs[:-3]:
            for p in (old, old + ".ok"):
                try:
                    os.unlink(p)
                except OSError:
                    pass
    else:
        os.utime(prog)
        with open(prog, "rb") as f:
            P = marshal.load(f)
        P["extracted_now"] = fresh
    P["cfg"] = cfg
    P["build_dir"] = bdir
    P["load_s"] = round(time.time() - t0, 2)
    log("facts[%s]: %d TUs (%d re-extracted), %d functions, %.1fs"
        % (cfg, len(keys), len(fresh), len(P["functions"]), P["load_s"]))
    return P


def link(files):
    functions = {}
    decls = {}
    classes = {}
    enums = {}
    globs = {}
    tus = []
    fn_tus = {}
    for k, path in files:
        with open(path, "rb") as f:
            d = marshal.load(f)
        tus.append(d["tu"])
        for fn in d["functions"]:
            u = fn["u"]
            fn_tus.setdefault(u, []).append(k)
            old = functions.get(u)
            if old is None:
                fn["tu"] = k
                functions[u] = fn
        for u, h in d["decls"].items():
            old = decls.get(u)
            if old is None or (h.get("hasbody") and not old.get("hasbody")):
                decls[u] = h
        for c in d["classes"]:
            old = classes.get(c["qn"])
            if old is None or (len(c.get("methods", ())) > len(
                    old.get("methods", ()))):
                classes[c["qn"]] = c
        for en in d.get("enums", ()):
            enums.setdefault(en["qn"], en)
        for g in d["globals"]:
            globs.setdefault(g["qn"], g)
    return {"functions": functions, "decls": decls, "classes": classes,
            "globals": globs, "enums": enums, "tus": tus,
            "fn_tu_count": {u: len(v) for u, v in fn_tus.items()}}


if __name__ == "__main__":
    cfgs = sys.argv[1:] or ["default"]
    for c in cfgs:
        load_program(c)
