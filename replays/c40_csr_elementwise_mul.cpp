// replay: CSRMatrix::elementwise_mul_matrix casts `other` to CSRMatrix after testing only `result`
#include <symengine/matrix.h>
#include <iostream>
using namespace SymEngine;
int main(){
  CSRMatrix A = CSRMatrix::from_coo(2, 2, {0, 1}, {0, 1}, {integer(1), integer(2)});
  DenseMatrix B(2, 2, {integer(1), integer(2), integer(3), integer(4)});
  CSRMatrix R(2, 2);
  std::cout << "calling A.elementwise_mul_matrix(dense B, csr R)" << std::endl;
  A.elementwise_mul_matrix(B, R);
  std::cout << "result: " << R.__str__() << std::endl;
}
