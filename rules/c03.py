"""C03 — no factory constructs an object its own is_canonical rejects
(engine E3 over expression kinds)."""
from selib.program import walk, show, short, strip_type, rcp_target
from selib.absint import Interp, TOP
from selib.numdom import AbsNum, all_points, NS
from selib.kinddom import (KindDomain, AbsExpr, Constructed,
                           expression_points)
from selib.build import AnalysisBroken

REDUCED = {"Symbol", "Add", "Mul", "Pow", "Sin", "Abs", "Constant",
           "FunctionSymbol", "Infty"}


def param_arg(a):
    while a is not None and a.get("k") in ("ctor", "cast", "call") \
            and len(a.get("a", ())) == 1 \
            and (a.get("k") != "call" or a.get("n") in ("move", "forward")):
        a = a["a"][0]
    if a is not None and a.get("k") == "ref" and a.get("d") == "param":
        return a["n"]
    return None


def run(loader, R, tier):
    prog = loader()
    D = KindDomain(prog)
    I = Interp(prog, D, max_depth=6)
    R.explanation = (
        "Every construction site make_rcp<const K>(...) of a class K that "
        "declares is_canonical is an obligation K::is_canonical(args). For "
        "the sites whose arguments are parameters of the enclosing factory, "
        "the factory and is_canonical are both interpreted (engine E3) over "
        "the finite domain of expression kinds (19 number points + one point "
        "per concrete Basic class, refined for Constant names, Mul/Add "
        "coefficients and Pow exponents). A violation is reported only when "
        "the factory definitely reaches the site for a kind and is_canonical "
        "definitely returns false for it. Sites with computed arguments "
        "(merged dictionaries of Add/Mul/Pow, trig_simplify results) are "
        "counted as undecided obligations, never as passes. Canonical form "
        "of the dictionary algorithms, expand, subs is not decided.")
    R.rule("R3.1", "factory never passes an argument kind that is_canonical "
                   "rejects")
    R.trusted += ["atoms of the kind domain: is_a<T>, type-code tests, "
                  "eq against named constants, number predicates (numdom)"]

    nums = all_points()
    exprs = expression_points(prog)
    reduced = [e for e in exprs if short(e.cls) in REDUCED]
    sites = []
    total = 0
    for u, f in prog.functions.items():
        if f.get("dependent") or f.get("tk") == "pattern" \
                or not f.get("body"):
            continue
        for n in walk(f["body"]):
            if n.get("k") == "call" and n.get("n") == "make_rcp" \
                    and n.get("ta"):
                K = strip_type(n["ta"][0])
                cu = prog.find_method(K, "is_canonical")
                if not cu or cu not in prog.functions:
                    continue
                total += 1
                names = [param_arg(a) for a in n.get("a", ())]
                if names and None not in names:
                    sites.append((f, n, K, cu, names))
                else:
                    R.undecided_obligation(
                        "R3.1", "%s@%s:%s" % (short(K), short(f["qn"]),
                                              n.get("l")),
                        "constructor arguments are computed values")
    R.info["construction_sites_with_is_canonical"] = total
    R.floor("construction sites of classes with is_canonical", total, 200)

    decided = 0
    factories = {}
    for f, n, K, cu, names in sites:
        factories.setdefault(f["u"], (f, []))[1].append((n, K, cu, names))
    for u, (f, fsites) in sorted(factories.items(),
                                 key=lambda x: x[1][0]["qn"]):
        params = f.get("params", ())
        doms = []
        ok = True
        for p in params:
            t = strip_type(p["t"])
            tgt = rcp_target(t)
            if tgt == NS + "Basic" or t == NS + "Basic":
                doms.append("basic")
            elif tgt in (NS + "Number",) or t == NS + "Number":
                doms.append("number")
            elif tgt in (NS + "Boolean", NS + "Set"):
                doms.append("other")
            else:
                ok = False
        if not ok or not params or len(params) > 2:
            for n, K, cu, names in fsites:
                R.undecided_obligation(
                    "R3.1", "%s@%s:%s" % (short(K), short(f["qn"]),
                                          n.get("l")),
                    "factory parameters are not expression handles")
            continue
        if "other" in doms:
            for n, K, cu, names in fsites:
                R.undecided_obligation(
                    "R3.1", "%s@%s:%s" % (short(K), short(f["qn"]),
                                          n.get("l")),
                    "Boolean/Set parameter kinds not modelled")
            continue

        def space(d, many):
            if d == "number":
                return nums
            return nums + (reduced if many else exprs)
        many = len(params) > 1
        spaces = [space(d, many) for d in doms]
        combos = [[a] for a in spaces[0]] if len(spaces) == 1 else \
            [[a, b] for a in spaces[0] for b in spaces[1]]
        site_lines = {n.get("l"): (n, K, cu, names)
                      for n, K, cu, names in fsites}
        seen_sites = set()
        pidx = {p["n"]: i for i, p in enumerate(params)}
        for args in combos:
            try:
                outs = I.run(f, TOP, args)
            except RecursionError:
                continue
            for o in outs:
                if o.kind != "return" or not isinstance(o.value,
                                                        Constructed):
                    continue
                hit = site_lines.get(o.value.line)
                if hit is None:
                    continue
                n, K, cu, names = hit
                if strip_type(o.value.cls) != K:
                    continue
                # constructor arguments must be the original objects
                cargs = [args[pidx[nm]] for nm in names if nm in pidx]
                if len(cargs) != len(names) or list(o.value.args) != cargs:
                    continue
                key = "%s(%s)@%s:%s" % (short(K), ", ".join(
                    repr(a) for a in cargs), short(f["qn"]), n.get("l"))
                seen_sites.add(n.get("l"))
                if not o.definite:
                    continue
                cf = prog.functions[cu]
                try:
                    couts = I.run(cf, TOP, cargs)
                except RecursionError:
                    continue
                vals = set()
                cdef = True
                for c in couts:
                    if c.kind != "return" or not c.definite \
                            or not isinstance(c.value, bool):
                        cdef = False
                    else:
                        vals.add(c.value)
                if not cdef or len(vals) != 1:
                    R.instance("R3.1", key, nontrivial=False)
                    continue
                decided += 1
                R.instance("R3.1", key, sample={
                    "factory": short(f["qn"]), "argument_kinds": [
                        repr(a) for a in cargs], "is_canonical": list(vals)})
                if vals == {False}:
                    wit = ", ".join(repr(a) for a in cargs)
                    R.violation(
                        "R3.1", "%s:%s" % (short(f["qn"]), wit),
                        prog.loc(f, n.get("l")),
                        "%s(%s) definitely reaches make_rcp<const %s> (path: "
                        "%s) but %s::is_canonical(%s) is definitely false: "
                        "the returned object violates its own canonical "
                        "form" % (short(f["qn"]), wit, short(K), ", ".join(
                            ("" if p else "!") + t for t, p in o.path[-6:]),
                            short(K), wit))
        for line, (n, K, cu, names) in site_lines.items():
            if line not in seen_sites:
                R.undecided_obligation(
                    "R3.1", "%s@%s:%s" % (short(K), short(f["qn"]), line),
                    "site not definitely reached for any abstract kind")
    R.info["decided_obligation_instances"] = decided
    R.floor("factories with parameter-argument sites", len(factories), 40)
    R.floor("decided (site, kind) obligations", decided, 400)


MANIFEST = dict(
    technique="finite-domain abstract interpretation of factory functions "
              "and is_canonical over expression kinds",
    text="Decides one clause of C03: for every factory whose construction "
         "site passes its own parameters to make_rcp<const K>, and for every "
         "abstract argument kind (19 number points + one point per concrete "
         "class with refinements), the factory never definitely constructs "
         "an object for which K::is_canonical definitely returns false. One "
         "run covers every input of each kind. Construction sites with "
         "computed arguments (Add/Mul/Pow dictionaries, trig_simplify) are "
         "listed as undecided; removing a SYMENGINE_ASSERT is not flagged. "
         "The number-class parts of the invariant are decided by C05.",
    note="Trusted: the kind-domain atoms; is_canonical predicates are pure.",
    ref="§2 C03",
)
