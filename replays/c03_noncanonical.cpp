// replay: factories that construct objects their own is_canonical rejects
#include <symengine/basic.h>
#include <symengine/pow.h>
#include <symengine/functions.h>
#include <symengine/constants.h>
#include <symengine/complex.h>
#include <iostream>
using namespace SymEngine;
int main(){
  RCP<const Basic> c = constant("myconst");
  RCP<const Basic> f = floor(c);
  std::cout << "floor(constant) = " << f->__str__() << " is Floor: " << is_a<Floor>(*f) << " is_canonical: " << (is_a<Floor>(*f) ? down_cast<const Floor&>(*f).is_canonical(c) : true) << "\n";
  RCP<const Basic> s = sign(c);
  std::cout << "sign(constant) = " << s->__str__() << " is_canonical: " << (is_a<Sign>(*s) ? down_cast<const Sign&>(*s).is_canonical(c) : true) << "\n";
  RCP<const Basic> p = pow(integer(1), I);
  std::cout << "pow(1, I) = " << p->__str__() << " is Pow: " << is_a<Pow>(*p) << " eq one: " << eq(*p, *one);
  if (is_a<Pow>(*p)) std::cout << " is_canonical: " << down_cast<const Pow&>(*p).is_canonical(*integer(1), *I);
  std::cout << "\n";
  RCP<const Basic> q = pow(integer(0), I);
  std::cout << "pow(0, I) = " << q->__str__() << " is Pow: " << is_a<Pow>(*q);
  if (is_a<Pow>(*q)) std::cout << " is_canonical: " << down_cast<const Pow&>(*q).is_canonical(*integer(0), *I);
  std::cout << "\n";
  RCP<const Basic> z = sign(Complex::from_two_nums(*integer(1), *integer(2)));
  std::cout << "sign(1+2I) = " << z->__str__() << " is Sign: " << is_a<Sign>(*z);
  if (is_a<Sign>(*z)) std::cout << " is_canonical: " << down_cast<const Sign&>(*z).is_canonical(down_cast<const Sign&>(*z).get_arg());
  std::cout << "\n";
}
