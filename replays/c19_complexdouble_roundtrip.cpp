#include <symengine/basic.h>
#include <symengine/complex_double.h>
#include <iostream>
#include <cmath>
#include <limits>
using namespace SymEngine;
int main(){
    double inf = std::numeric_limits<double>::infinity();
    int bad = 0;
    for (auto c : {std::complex<double>(1.0, inf), std::complex<double>(-0.0, 2.0), std::complex<double>(inf, 1.0), std::complex<double>(1.5, -0.0), std::complex<double>(1.5, 2.5)}) {
        RCP<const Basic> e = complex_double(c);
        RCP<const Basic> r = Basic::loads(e->dumps());
        std::complex<double> d = down_cast<const ComplexDouble &>(*r).i;
        bool same = (std::signbit(d.real()) == std::signbit(c.real())) && (std::signbit(d.imag()) == std::signbit(c.imag()))
                    && ((d.real() == c.real()) || (std::isnan(d.real()) && std::isnan(c.real()))) && ((d.imag() == c.imag()) || (std::isnan(d.imag()) && std::isnan(c.imag())));
        std::cout << "(" << c.real() << ", " << c.imag() << ") -> (" << d.real() << ", " << d.imag() << ")" << (same ? "" : "   NOT PRESERVED") << "\n";
        bad += !same;
    }
    return bad ? 1 : 0;
}
