"""C29 — number comparisons agree with numeric order (engine E3 over the
abstract domain of pairs of real numbers)."""
from selib.program import walk, show, short, strip_type
from selib.absint import Interp, Domain, TOP
from selib.build import AnalysisBroken

RELS = ["Eq", "Ne", "Lt", "Le", "Gt", "Ge"]
FALSE_FOR_REALS = {"is_a_Complex"}
FALSE_IS_A = {"SymEngine::NaN", "SymEngine::BooleanAtom",
              "SymEngine::Complex", "SymEngine::ComplexDouble"}


class Real:
    """one of the two operands"""
    def __init__(self, name):
        self.name = name

    def __repr__(self):
        return self.name


class Diff:
    def __init__(self, a, b):
        self.a, self.b = a, b

    def __repr__(self):
        return "(%r - %r)" % (self.a, self.b)


class PairDomain(Domain):
    """point = (structurally equal?, sign(L - R))"""

    def __init__(self, prog, structeq, sign):
        self.prog = prog
        self.structeq = structeq
        self.sign = sign

    def _real(self, I, e, env):
        v = I.eval(e, env)
        return v if isinstance(v, Real) else None

    def atom(self, I, e, env):
        k = e.get("k")
        if k == "call":
            n = e.get("n")
            a = e.get("a", [])
            if n == "is_a" and e.get("ta") and a:
                v = I.eval(a[0], env)
                T = strip_type(e["ta"][0])
                if isinstance(v, Real):
                    if T in FALSE_IS_A:
                        return False
                    return None
                if isinstance(v, bool):
                    return T == "SymEngine::BooleanAtom"
                return None
            if n in FALSE_FOR_REALS and a and self._real(I, a[0], env):
                return False
            if n == "is_a_Number" and a and self._real(I, a[0], env):
                return True
            if n == "eq" and len(a) == 2:
                x, y = I.eval(a[0], env), I.eval(a[1], env)
                if isinstance(x, Real) and isinstance(y, Real):
                    return True if x is y else self.structeq
                if (isinstance(x, Real) and y == "zoo") or (
                        isinstance(y, Real) and x == "zoo"):
                    return False        # reals are not zoo
                return None
        if k == "mcall" and e.get("n") in ("is_negative", "is_positive",
                                           "is_zero"):
            v = I.eval(e.get("o"), env)
            if isinstance(v, Diff) and isinstance(v.a, Real) \
                    and isinstance(v.b, Real) and v.a is not v.b:
                s = self.sign if v.a.name == "L" else -self.sign
                return {"is_negative": s < 0, "is_positive": s > 0,
                        "is_zero": s == 0}[e["n"]]
        return None

    def value(self, I, e, env):
        k = e.get("k")
        if k == "ref" and e.get("d") == "global":
            if e.get("q") == "SymEngine::ComplexInf":
                return "zoo"
            if e.get("q") == "SymEngine::boolTrue":
                return True
            if e.get("q") == "SymEngine::boolFalse":
                return False
        if k == "call" and e.get("n") == "boolean" and e.get("a"):
            c = I.cond(e["a"][0], env)
            return TOP if c is None else c
        if k == "call" and e.get("n") == "logical_not" and e.get("a"):
            v = I.eval(e["a"][0], env)
            return (not v) if isinstance(v, bool) else TOP
        if k == "mcall" and e.get("n") == "sub" and e.get("a"):
            a, b = I.eval(e.get("o"), env), I.eval(e["a"][0], env)
            if isinstance(a, Real) and isinstance(b, Real):
                return Diff(a, b)
        if k == "call" and e.get("n") == "make_rcp":
            return "symbolic:" + short(strip_type((e.get("ta") or ["?"])[0]))
        return TOP

    def inline(self, I, call, env):
        if call.get("k") == "call" and call.get("n") in RELS:
            f = self.prog.functions.get(call.get("u"))
            if f is not None and f.get("body"):
                return f, TOP, [I.eval(a, env) for a in call.get("a", ())]
        return None


def run(loader, R, tier):
    prog = loader()
    from selib import signpred
    R.rule("R29.0", "is_negative/is_zero/is_positive of Integer, Rational, "
                   "RealDouble are the comparisons of the value with 0 "
                   "(grounds the trusted atom table)")
    signpred.ground(prog, R, "R29.0")
    R.exhaustive = True
    R.explanation = (
        "Eq, Ne, Lt, Le, Gt, Ge are interpreted (engine E3) over the "
        "complete abstract domain of pairs of real numbers: {structurally "
        "equal} + {not structurally equal} x sign(lhs - rhs) in {neg, zero, "
        "pos}; the point (not equal, zero) is exactly 'equal values of "
        "different kinds'. For every point the returned truth value is "
        "compared with the numeric relation and with the identities "
        "Le(a,b) = !Lt(b,a), Ge(a,b) = Le(b,a), Gt(a,b) = Lt(b,a), Eq "
        "symmetric, Ne = !Eq. Relationals on symbolic arguments and the "
        "correctness of Number::sub's sign are not decided.")
    R.rule("R29.1", "Lt/Le/Gt/Ge agree with the numeric order at every "
                    "abstract point")
    R.rule("R29.2", "Le(a,b) = !Lt(b,a), Ge(a,b) = Le(b,a), Gt(a,b) = "
                    "Lt(b,a)")
    R.rule("R29.3", "Eq symmetric, Ne = !Eq")
    R.trusted += ["Number::sub returns a number whose is_negative/"
                  "is_positive/is_zero reflect the sign of the difference",
                  "a real number is not Complex, NaN, zoo or a BooleanAtom"]
    fns = {}
    for r in RELS:
        fs = [f for f in prog.fn_by_qn("SymEngine::" + r)
              if len(f.get("params", ())) == 2]
        if len(fs) != 1:
            raise AnalysisBroken("anchor %s(lhs, rhs) not found" % r)
        fns[r] = fs[0]
    L, Rr = Real("L"), Real("R")
    points = [(True, 0), (False, -1), (False, 0), (False, 1)]
    want = {"Lt": lambda s: s < 0, "Le": lambda s: s <= 0,
            "Gt": lambda s: s > 0, "Ge": lambda s: s >= 0}

    def ev(rel, structeq, sign, swapped=False):
        D = PairDomain(prog, structeq, sign)
        I = Interp(prog, D)
        args = [Rr, L] if swapped else [L, Rr]
        outs = I.run(fns[rel], TOP, args)
        vals = set()
        for o in outs:
            if not o.definite or o.kind != "return" \
                    or not isinstance(o.value, bool):
                return None, outs
            vals.add(o.value)
        if len(vals) == 1:
            return vals.pop(), outs
        return None, outs
    decided = 0
    res = {}
    for se, sg in points:
        for rel in RELS:
            for sw in (False, True):
                v, outs = ev(rel, se, sg, sw)
                res[(rel, se, sg, sw)] = v
    for se, sg in points:
        pname = "%s,%s" % ("structurally equal" if se else "not structurally "
                           "equal", {-1: "lhs<rhs", 0: "lhs==rhs",
                                     1: "lhs>rhs"}[sg])
        for rel in ("Lt", "Le", "Gt", "Ge"):
            v = res[(rel, se, sg, False)]
            key = "%s@(%s)" % (rel, pname)
            if v is None:
                R.undecided_obligation("R29.1", key, "not a definite truth "
                                                     "value")
                continue
            decided += 1
            R.instance("R29.1", key, sample={"relation": rel, "point": pname,
                                             "returns": v,
                                             "numeric": want[rel](sg)})
            if v != want[rel](sg):
                R.violation(
                    "R29.1", "%s:%s" % (rel, pname), prog.loc(fns[rel]),
                    "%s(lhs, rhs) returns %s at the point (%s) where the "
                    "numeric relation is %s" % (rel, v, pname,
                                                want[rel](sg)))
        # identities (swapped evaluation uses the mirrored point)
        ids = [("Le", False, "Lt", True, True, "Le(a,b) = !Lt(b,a)"),
               ("Ge", False, "Le", True, False, "Ge(a,b) = Le(b,a)"),
               ("Gt", False, "Lt", True, False, "Gt(a,b) = Lt(b,a)")]
        for r1, s1, r2, s2, neg, txt in ids:
            a, b = res[(r1, se, sg, s1)], res[(r2, se, sg, s2)]
            key = "%s@(%s)" % (txt, pname)
            if a is None or b is None:
                continue
            R.instance("R29.2", key)
            if a != ((not b) if neg else b):
                R.violation("R29.2", "%s:%s" % (r1, pname),
                            prog.loc(fns[r1]),
                            "%s fails at (%s): %s -> %s, %s(swapped) -> %s"
                            % (txt, pname, r1, a, r2, b))
        a, b = res[("Eq", se, sg, False)], res[("Eq", se, sg, True)]
        if a is not None and b is not None:
            R.instance("R29.3", "Eq symmetric@(%s)" % pname)
            if a != b:
                R.violation("R29.3", "Eq:%s" % pname, prog.loc(fns["Eq"]),
                            "Eq is not symmetric at (%s)" % pname)
        a, b = res[("Eq", se, sg, False)], res[("Ne", se, sg, False)]
        if a is not None and b is not None:
            R.instance("R29.3", "Ne = !Eq@(%s)" % pname)
            if a == b:
                R.violation("R29.3", "Ne:%s" % pname, prog.loc(fns["Ne"]),
                            "Ne is not the negation of Eq at (%s)" % pname)
    # ---------------------------------------------------------- R29.4
    # the relational factories compare exact integers of any size: a
    # machine-word read of an Integer (mp_get_si / mp_get_ui silently keep
    # the low bits) anywhere in logic.cpp needs the dominating fits-test of
    # the same operand and signedness.  Expected count on the tree is zero;
    # fixtures/tu/positive_controls.cpp keeps an unguarded read that must be
    # recognised on every run.
    R.rule("R29.4", "no machine-word read of an Integer in the relational "
                    "factories without the dominating fits-test")
    from selib import sym as _sym4
    from selib.program import show as _show, short as _short
    PAIR = {"mp_get_si": "mp_fits_slong_p", "mp_get_ui": "mp_fits_ulong_p"}
    n4 = n4ctl = 0
    for u, f in sorted(prog.functions.items(), key=lambda kv: kv[1]["qn"]):
        control = f["qn"] == "verif_positive::unguarded_word"
        if not f.get("body") or f.get("dependent") or not (
                control or (f.get("file") or "").endswith(
                    "/symengine/logic.cpp")):
            continue
        if not control:
            n4 += 1

        def cb4(n, guards, line, f=f, control=control):
            nonlocal n4ctl
            if not (n.get("k") == "call" and n.get("n") in PAIR
                    and n.get("a")):
                return
            arg = _show(n["a"][0])
            ok = False
            for g in _sym4.flatten_guards(guards):
                if g[0] == "case":
                    continue
                for y in walk(g[0]):
                    if y.get("k") == "call" and y.get("n") == PAIR[n["n"]] \
                            and y.get("a") and _show(y["a"][0]) == arg \
                            and g[1]:
                        ok = True
            if ok:
                return
            if control:
                n4ctl += 1
                return
            R.violation(
                "R29.4", _short(f["qn"])[:60], prog.loc(f, line),
                "%s reads `%s` with no dominating %s of the same operand: "
                "an Integer of magnitude >= 2^63 is silently truncated to "
                "its low word, so e.g. Lt(3, 2**100) is decided on the "
                "wrong numbers" % (_short(f["qn"])[:60], _show(n)[:50],
                                   PAIR[n["n"]]))
        _sym4.visit_guarded(f["body"], cb4)
    R.instance("R29.4", "logic.cpp functions scanned", nontrivial=False,
               sample={"functions": n4, "positive_control": n4ctl})
    R.floor("functions of logic.cpp scanned for machine-word reads", n4, 100)
    R.floor("R29.4 positive control (verif_positive::unguarded_word)",
            n4ctl, 1)

    R.floor("decided (relation, point) entries", decided, 16)
    R.floor("identity instances", R.instances.get("R29.2", 0), 12)
    R.floor("Eq/Ne instances", R.instances.get("R29.3", 0), 8)


MANIFEST = dict(
    technique="exhaustive finite-domain abstract interpretation of the six "
              "relational constructors over pairs of real numbers",
    text="Decides, for ALL pairs of real numbers of any kinds at once (the "
         "abstract domain {structurally equal} + {not} x sign(lhs-rhs) is "
         "complete for the code, which only inspects these facts), that "
         "Lt/Le/Gt/Ge return exactly the numeric relation, that Le(a,b) = "
         "!Lt(b,a), Ge(a,b) = Le(b,a), Gt(a,b) = Lt(b,a), that Eq is "
         "symmetric and Ne its negation. Does not decide relationals on "
         "symbolic arguments after substitution, nor that Number::sub "
         "yields the right sign for every kind pair (trusted).",
    note="Trusted: sign of Number::sub; a real is not Complex/NaN/zoo/"
         "BooleanAtom.",
    ref="§2 C29",
)
