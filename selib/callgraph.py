"""Engine E5 — call graph with class-hierarchy analysis for virtual calls and
*visitor-sensitive* resolution of the visitor pattern.

Nodes are (function, ctx) where ctx is the concrete visitor class bound to
`this` (methods of visitor classes) or to the visitor-typed parameter
(forwarders such as preorder_traversal_stop(b, v)); ctx is None elsewhere.
`e.accept(v)` resolves to the bvisit handlers of v's visitor class taken from
the dispatch table clang resolved (engine E4a) — never to "every visitor".
Closures: a lambda body is its own node; a std::function invocation targets
the lambdas defined in the same function or class hierarchy; cereal archive
operators call back into save_rcp_basic/load_rcp_basic.
"""
from collections import defaultdict, deque

from .program import walk, show, short, strip_type, children
from . import sym as _sym

VISITOR_ROOT = "SymEngine::Visitor"
STD_THROWING = {"at", "stoi", "stol", "stoll", "stoul", "stoull", "stof",
                "stod", "stold", "any_cast"}


class CallSite:
    __slots__ = ("node", "targets", "protected", "line")

    def __init__(self, node, targets, protected, line):
        self.node = node
        self.targets = targets          # set of node ids
        self.protected = protected      # inside try with a catch-all
        self.line = line


def catchall_handlers(trystmt):
    for h in trystmt.get("h", ()):
        if h.get("t") == "...":
            if not any(n.get("k") == "throw" and n.get("rethrow")
                       for n in walk(h.get("b"))):
                return True
    return False


def fsig(f):
    """qualified name with parameter types: names one overload"""
    return "%s(%s)" % (f.get("qn"), ", ".join(
        p["t"] for p in f.get("params", ())))


def nid(u, ctx=None):
    return u if ctx is None else "%s|%s" % (u, ctx)


def split(node):
    if "|" in node:
        u, c = node.rsplit("|", 1)
        return u, c
    return node, None


class CallGraph:
    def __init__(self, prog, visitors, excluded_classes=()):
        self.prog = prog
        self.vis = visitors
        # dynamic classes that cannot occur (scoping decision of the rule):
        # their overriders are left out of CHA target sets
        self.excluded = set()
        for c in excluded_classes:
            self.excluded.add(c)
            self.excluded |= prog.descendants(c)
        self._sites = {}
        self._throws = {}
        # (caller qualified name, callee simple name) -> reason: call sites
        # whose callee cannot throw *for the arguments passed there*
        self.site_nothrow = {}
        self.site_nothrow_hits = defaultdict(int)
        self.lambda_body = {}           # lambda id -> (owner usr, ctx, node)
        self.lambdas_in_fn = defaultdict(list)
        self.lambdas_in_cls = defaultdict(list)
        self._by_name = defaultdict(list)
        for u, f in prog.functions.items():
            if f.get("n") in ("save_rcp_basic", "load_rcp_basic") \
                    and not f.get("dependent") and f.get("tk") != "pattern":
                self._by_name[f["n"]].append(u)
        self.visitor_classes = prog.descendants(VISITOR_ROOT) | {VISITOR_ROOT}
        self.concrete_visitors = set(visitors.table)
        self._is_vis = {}
        self._index_lambdas()

    # ------------------------------------------------------------ helpers
    def is_visitor_class(self, c):
        if c not in self._is_vis:
            self._is_vis[c] = c in self.visitor_classes
        return self._is_vis[c]

    def concrete_below(self, c):
        """concrete visitor classes (with a dispatch table) that are c or
        derive from it; BaseVisitor<V,B> layers count for V"""
        out = set()
        for k in {c} | self.prog.descendants(c):
            if k in self.concrete_visitors:
                out.add(k)
            kk = self.prog.classes.get(k) or {}
            if k.startswith("SymEngine::BaseVisitor<") and kk.get("ta"):
                v = strip_type(kk["ta"][0])
                if v in self.concrete_visitors:
                    out.add(v)
        return out

    def visitor_param(self, f):
        """index of a parameter of (reference to) a visitor class"""
        for i, p in enumerate(f.get("params", ())):
            t = strip_type(p["t"])
            if t in self.visitor_classes:
                return i, t
        return None, None

    def _index_lambdas(self):
        for u, f in self.prog.functions.items():
            if f.get("dependent") or f.get("tk") == "pattern" \
                    or not f.get("body"):
                continue
            for n in walk(f["body"]):
                if n.get("k") == "lambda":
                    lid = "%s#lambda@%s" % (u, n.get("l"))
                    if lid not in self.lambda_body:
                        self.lambda_body[lid] = (u, n)
                        self.lambdas_in_fn[u].append(lid)
                        if f.get("cls"):
                            self.lambdas_in_cls[f["cls"]].append(lid)

    def fn_of(self, node):
        u, ctx = split(node)
        if "#lambda@" in u:
            owner, n = self.lambda_body[u]
            return self.prog.functions[owner], n.get("b"), ctx, u
        f = self.prog.functions.get(u)
        if f is None or f.get("dependent") or f.get("tk") == "pattern" \
                or not f.get("body"):
            return None, None, ctx, u
        return f, f["body"], ctx, u

    def label(self, node):
        u, ctx = split(node)
        if "#lambda@" in u:
            owner, n = self.lambda_body[u]
            s = short(self.prog.name_of(owner)) + "::<lambda@%s>" % n.get("l")
        else:
            s = short(self.prog.name_of(u))
        return s + (" [%s]" % short(ctx) if ctx else "")

    # ------------------------------------------------------------ contexts
    def ctx_for_callee(self, tu, recv_classes=None, arg_visitors=None):
        """node ids for calling function tu; recv_classes: concrete visitor
        classes of the receiver (methods), arg_visitors: of a visitor-typed
        argument (forwarders)"""
        f = self.prog.functions.get(tu)
        h = f or self.prog.header(tu)
        cls = h.get("cls")
        if cls and self.is_visitor_class(cls):
            cs = recv_classes if recv_classes else self.concrete_below(cls)
            if not cs:
                return {tu}
            out = set()
            for c in cs:
                # virtual re-resolution for the concrete class
                r = tu
                if h.get("virt"):
                    r2 = self.prog.find_method(c, h.get("n"),
                                               len(h.get("params", ())))
                    if r2:
                        r = r2
                out.add(nid(r, c))
            return out
        if f is not None:
            i, t = self.visitor_param(f)
            if i is not None:
                cs = arg_visitors if arg_visitors else self.concrete_below(t)
                if cs:
                    return {nid(tu, c) for c in cs}
        return {tu}

    def visitor_classes_of(self, f, ctx, e):
        """concrete visitor classes an expression may denote"""
        a = e
        while a is not None and (a.get("k") == "cast" or (
                a.get("k") == "call" and a.get("n") in ("down_cast",)
                and a.get("a"))):
            a = a["a"][0]
        if a is None:
            return None
        if a.get("k") in ("un", "op") and a.get("op") == "*" \
                and len(a.get("a", ())) == 1:
            return self.visitor_classes_of(f, ctx, a["a"][0])
        if a.get("k") == "this":
            if ctx:
                return {ctx}
            c = f.get("cls")
            return self.concrete_below(c) if c else None
        if a.get("k") in ("ref", "mem") and a.get("t"):
            t = strip_type(a["t"])
            if t not in self.visitor_classes and not self.concrete_below(t):
                return None
            byval = not a["t"].rstrip().endswith(("&", "*"))
            if a.get("k") == "ref" and a.get("d") == "param" and ctx \
                    and not (f.get("cls") and self.is_visitor_class(
                        f["cls"])):
                return {ctx}            # the forwarder's visitor parameter
            if byval and t in self.concrete_visitors:
                return {t}
            return self.concrete_below(t)
        if a.get("k") == "ctor":
            t = strip_type(a.get("t", ""))
            if t in self.concrete_visitors:
                return {t}
        return None

    # ------------------------------------------------------------ scanning
    def sites(self, node):
        if node in self._sites:
            return self._sites[node]
        f, body, ctx, u = self.fn_of(node)
        sites = []
        throws = []
        self._sites[node] = sites
        self._throws[node] = throws
        if f is None:
            return sites
        prog = self.prog
        cls = f.get("cls")
        # dynamic-type facts known at each call (guard-sensitive
        # devirtualisation: `if (is_a<Interval>(*o)) o->contains(a)`)
        self._guards = {}

        def gcb(n, guards, line):
            if n.get("k") == "mcall" and n.get("v") and guards:
                self._guards[id(n)] = guards
        _sym.visit_guarded(body, gcb)

        def visit(n, prot, parent=None):
            if not isinstance(n, dict):
                return
            k = n.get("k")
            if k == "try":
                inner = prot or catchall_handlers(n)
                visit(n.get("b"), inner, n)
                for h in n.get("h", ()):
                    visit(h.get("b"), prot, n)
                return
            if k == "lambda":
                lid = "%s#lambda@%s" % (f["u"], n.get("l"))
                if parent is not None and parent.get("k") in ("call",
                                                              "mcall"):
                    sites.append(CallSite(n, {nid(lid, ctx)}, prot,
                                          n.get("l")))
                for i2 in n.get("inits", ()):
                    visit(i2, prot, n)
                return
            if k == "throw" and not prot:
                throws.append((n.get("l"), "rethrow" if n.get("rethrow")
                               else show(n)[:100]))
            if k in ("call", "mcall", "op", "ctor") and n.get("u"):
                sp = prot
                if self.site_nothrow:
                    okey = (fsig(f), prog.header(n["u"]).get("n"))
                    if okey in self.site_nothrow:
                        self.site_nothrow_hits[okey] += 1
                        sp = True
                sites.append(CallSite(n, self.resolve(f, ctx, n), sp,
                                      n.get("l")))
            for c in children(n):
                visit(c, prot, n)
        visit(body, False)
        if "#lambda@" not in u:
            for ini in f.get("inits", ()):
                visit(ini.get("e"), False)
        return sites

    def resolve(self, f, ctx, n):
        prog = self.prog
        tu = n["u"]
        h = prog.header(tu)
        hcls = h.get("cls") or ""
        k = n.get("k")
        # visitor dispatch
        if k == "mcall" and n.get("n") == "accept" \
                and len(n.get("a", ())) == 1:
            vs = self.visitor_classes_of(f, ctx, n["a"][0])
            if vs:
                out = set()
                for v in vs:
                    for hu in set(self.vis.handlers(v).values()):
                        out.add(nid(hu, v))
                return out
        # closures
        if h.get("n") == "operator()" and "std::function<" in hcls:
            out = set()
            for lid in self.lambdas_in_fn.get(f["u"], ()):
                out.add(nid(lid, ctx))
            c = f.get("cls")
            if c:
                for kcls in set(prog.ancestors(c)) | prog.descendants(c):
                    for lid in self.lambdas_in_cls.get(kcls, ()):
                        out.add(nid(lid, ctx))
            return out
        if h.get("n") == "substr" and n.get("a") \
                and n["a"][0].get("k") == "lit" \
                and str(n["a"][0].get("v")) == "0":
            return set()                # substr(0, n) cannot throw
        tg = {tu}
        if n.get("v"):
            exact = self._exact_receiver_class(n)
            if exact:
                r = prog.find_method(exact, h.get("n"),
                                     len(h.get("params", ())))
                tg = {r} if r else {tu}
            else:
                tg |= prog.all_overriders(tu)
            if self.excluded:
                tg = {t for t in tg
                      if (prog.header(t).get("cls") or "") not in
                      self.excluded} or {tu}
        # serializer call-backs through cereal
        if "Archive" in hcls:
            if "OutputArchive" in hcls:
                tg |= set(self._by_name["save_rcp_basic"])
            if "InputArchive" in hcls:
                tg |= set(self._by_name["load_rcp_basic"])
        # contexts
        recv = None
        if k == "mcall":
            recv = self.visitor_classes_of(f, ctx, n.get("o") or {})
        out = set()
        for t in tg:
            th = prog.functions.get(t) or prog.header(t)
            argvis = None
            tf = prog.functions.get(t)
            if tf is not None and not (th.get("cls") and self.is_visitor_class(
                    th["cls"])):
                i, _t = self.visitor_param(tf)
                if i is not None and i < len(n.get("a", ())):
                    argvis = self.visitor_classes_of(f, ctx, n["a"][i])
            out |= self.ctx_for_callee(t, recv, argvis)
        return out

    def _exact_receiver_class(self, n):
        """class T when the call is dominated by is_a<T>(receiver)"""
        g = getattr(self, "_guards", {}).get(id(n))
        if not g:
            return None

        def base(e):
            while e is not None and e.get("k") in ("un", "op") \
                    and e.get("op") in ("*", "->") \
                    and len(e.get("a", ())) == 1:
                e = e["a"][0]
            return show(e) if e is not None else None
        r = base(n.get("o"))
        if r is None:
            return None
        for fact in _sym.flatten_guards(g):
            if fact[0] == "case":
                continue
            c, pol = fact
            if pol and c.get("k") == "call" and c.get("n") == "is_a" \
                    and c.get("ta") and c.get("a") \
                    and base(c["a"][0]) == r:
                return strip_type(c["ta"][0])
        return None

    def throws(self, node):
        self.sites(node)
        return self._throws[node]

    # ------------------------------------------------------------ effects
    def std_may_throw(self, u):
        h = self.prog.header(u)
        return (h.get("n") or "") in STD_THROWING

    def may_throw_from(self, roots, overrides=()):
        """least fixpoint of may-throw on the subgraph reachable from roots.
        returns (set of throwing nodes, witness dict)"""
        overrides = set(overrides)
        reach = set()
        dq = deque(roots)
        callers = defaultdict(set)
        while dq:
            x = dq.popleft()
            if x in reach:
                continue
            reach.add(x)
            if split(x)[0] in overrides:
                continue
            for s in self.sites(x):
                if s.protected:
                    continue
                for t in s.targets:
                    callers[t].add(x)
                    if t not in reach:
                        dq.append(t)
        mt = set()
        wit = {}
        work = deque()
        for x in reach:
            u = split(x)[0]
            if u in overrides:
                continue
            th = self._throws.get(x) or []
            if th:
                mt.add(x)
                wit[x] = (th[0][0], None, th[0][1])
                work.append(x)
            elif x not in self._sites or self.fn_of(x)[0] is None:
                if self.std_may_throw(u):
                    mt.add(x)
                    wit[x] = (None, None, "library call that can throw")
                    work.append(x)
        while work:
            t = work.popleft()
            for c in callers.get(t, ()):
                if c in mt or split(c)[0] in overrides:
                    continue
                for s in self.sites(c):
                    if not s.protected and t in s.targets:
                        mt.add(c)
                        wit[c] = (s.line, t, show(s.node)[:80])
                        work.append(c)
                        break
        return mt, wit, reach

    def chain(self, node, wit, limit=12):
        out = []
        seen = set()
        while node is not None and node not in seen and len(out) < limit:
            seen.add(node)
            w = wit.get(node)
            if w is None:
                out.append(self.label(node))
                break
            line, nxt, text = w
            out.append("%s:%s %s" % (self.label(node), line, text))
            node = nxt
        return out

    def reachable_from(self, roots):
        reach = set()
        parent = {}
        dq = deque(roots)
        while dq:
            x = dq.popleft()
            if x in reach:
                continue
            reach.add(x)
            for s in self.sites(x):
                for t in s.targets:
                    if t not in reach and t not in parent:
                        parent[t] = (x, s.line)
                    if t not in reach:
                        dq.append(t)
        return reach, parent
