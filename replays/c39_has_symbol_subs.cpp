#include <symengine/visitor.h>
#include <symengine/functions.h>
#include <symengine/symbol.h>
#include <symengine/add.h>
#include <iostream>
using namespace SymEngine;
int main(){
    RCP<const Symbol> x = symbol("x"), y = symbol("y");
    RCP<const Basic> f = function_symbol("f", {x, y});
    map_basic_basic d; d[x] = integer(1);
    RCP<const Basic> e = make_rcp<const Subs>(f, d);   // Subs(f(x,y), x -> 1): x is bound
    set_basic fs = free_symbols(*e);
    std::cout << "e = " << e->__str__() << "\nfree_symbols(e) = {";
    for (auto &s : fs) std::cout << s->__str__() << " ";
    std::cout << "}\nhas_symbol(e, x) = " << has_symbol(*e, *x) << "   has_symbol(e, y) = " << has_symbol(*e, *y) << "\n";
    bool in_free = fs.find(x) != fs.end();
    bool ok = (in_free == has_symbol(*e, *x));
    std::cout << (ok ? "agree" : "DISAGREE: has_symbol reports a symbol that free_symbols does not contain") << "\n";
    return ok ? 0 : 1;
}
