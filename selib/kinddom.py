"""Abstract domain of expression *kinds* for engine E3 (C03): numbers are the
points of numdom; every other concrete Basic class is one point, refined for
a few classes by the attribute the guards look at (constant name, Mul/Add
coefficient class, integer-ness of a Pow exponent)."""
from .absint import TOP
from .numdom import (NumDomain, AbsNum, Handler, GLOBALS, all_points, NS,
                     int_point)
from .program import walk, show, short, strip_type

CONSTANTS = ["pi", "E", "EulerGamma", "Catalan", "GoldenRatio"]
NUMBER_CLASSES = {NS + k for k in ("Integer", "Rational", "Complex",
                                   "RealDouble", "ComplexDouble", "Infty",
                                   "NaN", "NumberWrapper", "RealMPFR",
                                   "ComplexMPC")}


class AbsExpr:
    __slots__ = ("cls", "attrs", "tag")

    def __init__(self, cls, tag="", **attrs):
        self.cls = cls
        self.attrs = attrs
        self.tag = tag

    def __repr__(self):
        return short(self.cls) + ("[%s]" % self.tag if self.tag else "")

    def __eq__(self, o):
        return isinstance(o, AbsExpr) and (self.cls, self.tag) == (o.cls,
                                                                   o.tag)

    def __hash__(self):
        return hash((self.cls, self.tag))


class Constructed:
    """result of make_rcp<const K>(args...)"""
    __slots__ = ("cls", "args", "line")

    def __init__(self, cls, args, line=None):
        self.cls = cls
        self.args = tuple(args)
        self.line = line

    def __repr__(self):
        return "new %s(%s)" % (short(self.cls), ", ".join(
            repr(a) for a in self.args))


def expression_points(prog):
    """one abstract object per concrete non-number Basic class (+ the
    refinements listed in the module docstring)"""
    pts = []
    for cls in prog.concrete_subclasses(NS + "Basic", include_self=False):
        if cls in NUMBER_CLASSES:
            continue
        n = cls[len(NS):]
        if n == "Constant":
            for c in CONSTANTS:
                pts.append(AbsExpr(cls, c, name=c))
            pts.append(AbsExpr(cls, "other", name=None))
        elif n == "Mul":
            pts.append(AbsExpr(cls, "coef=1", coef=AbsNum("Integer", "1")))
            pts.append(AbsExpr(cls, "coef=-1", coef=AbsNum("Integer", "-1")))
            pts.append(AbsExpr(cls, "coef=3", coef=AbsNum("Integer", "gt1")))
            pts.append(AbsExpr(cls, "coef=1/2",
                               coef=AbsNum("Rational", "(0,1)")))
        elif n == "Add":
            pts.append(AbsExpr(cls, "coef=0", coef=AbsNum("Integer", "0")))
            pts.append(AbsExpr(cls, "coef=2", coef=AbsNum("Integer", "gt1")))
            pts.append(AbsExpr(cls, "coef=1/2",
                               coef=AbsNum("Rational", "(0,1)")))
        elif n == "Pow":
            pts.append(AbsExpr(cls, "exp=int", exp=AbsNum("Integer", "gt1")))
            pts.append(AbsExpr(cls, "exp=-1", exp=AbsNum("Integer", "-1")))
            pts.append(AbsExpr(cls, "exp=sym",
                               exp=AbsExpr(NS + "Symbol")))
        else:
            pts.append(AbsExpr(cls))
    return pts


GETTERS = {"get_coef": "coef", "get_exp": "exp", "get_base": "base",
           "get_name": "name", "get_arg": "arg"}
CONST_GLOBALS = {NS + c: c for c in CONSTANTS}


class KindDomain(NumDomain):
    def __init__(self, prog):
        super().__init__(prog)
        self.code = {}
        for qn, c in prog.classes.items():
            for s in c.get("statics", ()):
                if s["n"] == "type_code_id" and s.get("i") \
                        and s["i"].get("k") == "ref":
                    self.code[qn] = int(s["i"].get("v", -1))
        self.free_inline = {"is_a_Number", "is_a_Complex", "is_a_Boolean",
                            "is_a_Relational", "is_a_Set", "is_a_Atom",
                            "is_number_and_zero", "neq"}

    def inline(self, I, call, env):
        if call.get("k") == "call" and call.get("n") in self.free_inline:
            f = self.prog.functions.get(call.get("u"))
            if f is not None and f.get("body"):
                return f, TOP, [I.eval(a, env) for a in call.get("a", ())]
        r = super().inline(I, call, env)
        return r

    def atom(self, I, e, env):
        k = e.get("k")
        if k == "call" and e.get("n") in ("is_a", "is_a_sub") \
                and e.get("ta") and e.get("a"):
            v = I.eval(e["a"][0], env)
            T = strip_type(e["ta"][0])
            if isinstance(v, AbsNum):
                return v.cls == T if e["n"] == "is_a" else \
                    self.prog.derives(v.cls, T)
            if isinstance(v, AbsExpr):
                return v.cls == T if e["n"] == "is_a" else \
                    self.prog.derives(v.cls, T)
            return None
        if k == "call" and e.get("n") == "eq" and len(e.get("a", ())) == 2:
            a, b = I.eval(e["a"][0], env), I.eval(e["a"][1], env)
            return self._eq(a, b)
        if k == "mcall" and e.get("n") == "is_zero":
            o = e.get("o") or {}
            while o.get("k") in ("un", "op") and o.get("op") in ("*", "->") \
                    and len(o.get("a", ())) == 1:
                o = o["a"][0]
            if o.get("k") == "mcall" and o.get("n") == "real_part":
                v = I.eval(o.get("o"), env)
                if isinstance(v, AbsNum) and v.kind == "Complex":
                    return v.vc == "re0"
        if k == "mcall" and e.get("n") == "__eq__" and e.get("a"):
            return self._eq(I.eval(e.get("o"), env), I.eval(e["a"][0], env))
        if k in ("bin", "op") and e.get("op") in ("==", "!=") \
                and len(e.get("a", ())) == 2:
            a, b = e["a"]
            # type-code comparisons of abstract expressions
            for x, y in ((a, b), (b, a)):
                if x.get("k") == "mcall" and x.get("n") == "get_type_code":
                    v = I.eval(x.get("o"), env)
                    lit = self._lit(y)
                    if isinstance(v, AbsExpr) and lit is not None \
                            and v.cls in self.code:
                        r = float(self.code[v.cls]) == lit
                        return r if e["op"] == "==" else not r
            # null checks of parameters
            for x, y in ((a, b), (b, a)):
                if y.get("k") == "ref" and y.get("n") == "null" \
                        or (y.get("k") == "lit" and y.get("t") == "null"):
                    v = I.eval(x, env)
                    if isinstance(v, (AbsNum, AbsExpr)):
                        return e["op"] == "!="
        if k in ("bin", "op") and e.get("op") in ("<=", "<", ">", ">=") \
                and len(e.get("a", ())) == 2:
            a, b = e["a"]
            if a.get("k") == "mcall" and a.get("n") == "get_type_code":
                v = I.eval(a.get("o"), env)
                lit = self._lit(b)
                if isinstance(v, AbsExpr) and lit is not None \
                        and v.cls in self.code:
                    c = float(self.code[v.cls])
                    return {"<=": c <= lit, "<": c < lit, ">": c > lit,
                            ">=": c >= lit}[e["op"]]
        return super().atom(I, e, env)

    def _eq(self, a, b):
        if isinstance(a, AbsNum) and isinstance(b, AbsNum):
            if a.kind != b.kind or a.vc != b.vc:
                return False
            return True if a.singleton() else None
        if isinstance(a, AbsExpr) and isinstance(b, AbsExpr):
            if a.cls != b.cls:
                return False
            if a.cls == NS + "Constant":
                na, nb = a.attrs.get("name"), b.attrs.get("name")
                if na is not None and nb is not None:
                    return na == nb
                if na != nb:
                    return False        # named constant vs another constant
            return None
        if isinstance(a, (AbsNum, AbsExpr)) and isinstance(b, (AbsNum,
                                                               AbsExpr)):
            return False
        return None

    def _compare(self, I, a, op, b, env):
        # Complex::is_re_zero: get_num(real_) == 0
        for x, y in ((a, b), (b, a)):
            if x.get("k") == "call" and x.get("n") == "get_num" \
                    and x.get("a") and x["a"][0].get("k") == "mem" \
                    and x["a"][0].get("m") == "real_":
                v = I.eval(x["a"][0].get("o"), env)
                lit = self._lit(y)
                if isinstance(v, AbsNum) and v.kind == "Complex" \
                        and lit == 0.0 and op in ("==", "!="):
                    return (v.vc == "re0") == (op == "==")
        return super()._compare(I, a, op, b, env)

    def value(self, I, e, env):
        k = e.get("k")
        if k == "ref" and e.get("d") == "global":
            q = e.get("q")
            if q in CONST_GLOBALS:
                return AbsExpr(NS + "Constant", CONST_GLOBALS[q],
                               name=CONST_GLOBALS[q])
            if q in (NS + "boolTrue", NS + "boolFalse"):
                return AbsExpr(NS + "BooleanAtom")
        if k == "mcall" and e.get("n") in GETTERS:
            v = I.eval(e.get("o"), env)
            if isinstance(v, AbsExpr):
                return v.attrs.get(GETTERS[e["n"]], TOP)
        if k == "call" and e.get("n") == "make_rcp" and e.get("ta"):
            K = strip_type(e["ta"][0])
            if K == NS + "Infty":
                return super().value(I, e, env)
            return Constructed(K, [I.eval(a, env) for a in e.get("a", ())],
                               e.get("l"))
        return super().value(I, e, env)
